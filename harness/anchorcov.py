"""Anchor coverage of a correspondence run: which lines of the functions a property is anchored in
(harness/anchors.json, derived from properties.jsonl by harness/mkanchors.py) were executed by the
REAL code while the check ran its cases.  This measures the tie, not the proof: a line of an anchored
function that no case ever executes is a place where a changed line cannot be seen by the
differential correspondence.  It is reported in evidence/<ID>.json (`coverage.anchor_coverage`); it never
decides a check.

Implementation: sys.monitoring (PEP 669, Python 3.12) LINE events with per-location DISABLE, so the
cost is one callback per distinct line.  Lines executed in child processes (cases run in forked
workers) or in re-executed copies of a source text under another file name are not seen: the figure
is a lower bound.
"""
import json, os, sys, warnings

VERIF = os.path.dirname(os.path.dirname(os.path.abspath(__file__)))
TOOL = 4  # a free sys.monitoring tool id


def _code_objects(code):
    yield code
    for c in code.co_consts:
        if hasattr(c, "co_code"):
            yield from _code_objects(c)


class AnchorCov:
    def __init__(self, pid, repo):
        self.ok = hasattr(sys, "monitoring")
        self.pid, self.repo = pid, os.path.realpath(repo)
        self.hit = {}          # abs filename -> set of lines
        self.want = {}         # abs filename -> {qualname: set(lines)}
        self.fileall = {}      # abs filename -> set of all executable lines inside functions
        try:
            anchors = json.load(open(os.path.join(VERIF, "harness", "anchors.json")))[pid]
        except Exception:
            self.ok = False
            return
        for rel, quals in anchors["functions"].items():
            path = os.path.join(self.repo, rel)
            try:
                src = open(path).read()
                with warnings.catch_warnings():
                    warnings.simplefilter("ignore")
                    top = compile(src, path, "exec")
            except Exception:
                continue
            per, allf = {}, set()
            for co in _code_objects(top):
                if co is top:
                    continue
                lines = {l for (_s, _e, l) in co.co_lines() if l is not None and l != co.co_firstlineno}
                allf |= lines
                q = co.co_qualname
                for name in quals:
                    if q == name or q.startswith(name + ".<locals>."):
                        per.setdefault(name, set()).update(lines)
                        break
            self.want[path] = per
            self.fileall[path] = allf
            self.hit[path] = set()
        self.files = set(self.want)

    # ------------------------------------------------------------------
    def start(self):
        if not self.ok:
            return
        mon = sys.monitoring
        try:
            mon.use_tool_id(TOOL, "alv-anchorcov")
        except ValueError:
            self.ok = False
            return
        files, hit = self.files, self.hit

        def on_line(code, line):
            f = code.co_filename
            if f in files:
                hit[f].add(line)
            else:
                rf = os.path.realpath(f) if f and f[0] == "/" else f
                if rf in files:
                    hit[rf].add(line)
            return mon.DISABLE
        mon.register_callback(TOOL, mon.events.LINE, on_line)
        mon.set_events(TOOL, mon.events.LINE)

    def stop(self):
        if not self.ok:
            return
        mon = sys.monitoring
        mon.set_events(TOOL, 0)
        mon.register_callback(TOOL, mon.events.LINE, None)
        mon.free_tool_id(TOOL)

    # ------------------------------------------------------------------
    def report(self):
        if not self.ok:
            return {"available": False}
        tot = cov = 0
        per_func, uncovered = {}, {}
        for path, per in self.want.items():
            rel = os.path.relpath(path, self.repo)
            h = self.hit[path]
            miss_all = set()
            for q, lines in sorted(per.items()):
                c = len(lines & h)
                per_func["%s:%s" % (rel, q)] = "%d/%d" % (c, len(lines))
                tot += len(lines)
                cov += c
                miss_all |= (lines - h)
            if miss_all:
                uncovered[rel] = _ranges(sorted(miss_all))
        return {
            "available": True,
            "what": "executable lines of the anchored functions (harness/anchors.json) executed by the real code "
                    "in this process while the cases ran; lower bound (forked workers and re-executed source copies "
                    "are not seen); informative, decides nothing",
            "anchored_lines": tot, "executed": cov,
            "ratio": round(cov / tot, 3) if tot else None,
            "per_function": per_func,
            "not_executed": uncovered,
        }


def _ranges(xs):
    out, i = [], 0
    while i < len(xs):
        j = i
        while j + 1 < len(xs) and xs[j + 1] == xs[j] + 1:
            j += 1
        out.append(str(xs[i]) if i == j else "%d-%d" % (xs[i], xs[j]))
        i = j + 1
    return out
