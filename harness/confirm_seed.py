"""Confirm a candidate seeded change produced in a scratch worktree of /repo.

  /venv/bin/python harness/confirm_seed.py <scratch worktree> <dir with patch.diff + demo.py> <seed id> <property> "<needs>"

Runs, inside the scratch worktree only: baseline test-suite outcomes (cached in <worktree>/.baseline.outcomes),
git apply, test-suite again (same outcome per test id required), demo (must exit != 0), git checkout, demo
(must exit 0).  On success copies patch.diff, demo.py, notes.md into /verif/seeded/<seed id>/ with meta.json.
"""
import json, os, re, shutil, subprocess, sys

VERIF = os.path.dirname(os.path.dirname(os.path.abspath(__file__)))
PY = "/venv/bin/python"


def suite(wt):
    p = subprocess.run([PY, "-m", "pytest", "-q", "-p", "no:cacheprovider", "--timeout=900",
                        "--continue-on-collection-errors", "-rA", "--ignore=out"], cwd=wt,
                       stdout=subprocess.PIPE, stderr=subprocess.STDOUT, text=True)
    outc = sorted(re.sub(r" - .*$", "", l) for l in p.stdout.splitlines()
                  if re.match(r"^(PASSED|FAILED|ERROR|XFAIL|XPASS|SKIPPED) ", l))
    return outc, p.stdout.strip().splitlines()[-1]


def main():
    wt, src, sid, pid, needs = sys.argv[1:6]
    base_file = os.path.join(wt, ".baseline.outcomes")
    subprocess.check_call(["git", "checkout", "--", "."], cwd=wt)
    if os.path.exists(base_file):
        base = json.load(open(base_file))
    else:
        o, s = suite(wt)
        base = {"outcomes": o, "summary": s}
        json.dump(base, open(base_file, "w"))
    patch = os.path.join(src, "patch.diff")
    demo = os.path.join(src, "demo.py")
    res = {"baseline_summary": base["summary"]}
    subprocess.check_call(["git", "apply", patch], cwd=wt)
    try:
        o, s = suite(wt)
        res["patched_summary"] = s
        res["suite_outcomes_identical"] = (o == base["outcomes"])
        if o != base["outcomes"]:
            res["outcome_diff"] = sorted(set(o) ^ set(base["outcomes"]))[:20]
        d = subprocess.run([PY, demo], cwd=wt, env=dict(os.environ, PYTHONPATH=wt), stdout=subprocess.PIPE, stderr=subprocess.STDOUT, text=True)
        res["demo_with_change_exit"] = d.returncode
        res["demo_with_change_tail"] = d.stdout[-600:]
    finally:
        subprocess.check_call(["git", "checkout", "--", "."], cwd=wt)
    d = subprocess.run([PY, demo], cwd=wt, env=dict(os.environ, PYTHONPATH=wt), stdout=subprocess.PIPE, stderr=subprocess.STDOUT, text=True)
    res["demo_without_change_exit"] = d.returncode
    ok = res["suite_outcomes_identical"] and res["demo_with_change_exit"] != 0 and res["demo_without_change_exit"] == 0
    res["confirmed"] = ok
    print(json.dumps(res, indent=1))
    if ok:
        dst = os.path.join(VERIF, "seeded", sid)
        os.makedirs(dst, exist_ok=True)
        for f in ("patch.diff", "demo.py", "notes.md"):
            if os.path.exists(os.path.join(src, f)):
                shutil.copy(os.path.join(src, f), os.path.join(dst, f))
        meta = {"id": sid, "property": pid, "needs_to_manifest": needs,
                "confirmed_by": "harness/confirm_seed.py in a scratch worktree of /repo: test-suite outcomes per test id identical to the baseline (%s), demo exits %d with the change and 0 without" % (base["summary"], res["demo_with_change_exit"]),
                "ran": ["pytest -q -p no:cacheprovider --timeout=900 --continue-on-collection-errors -rA (baseline and patched)", "demo.py (patched: fails; unpatched: passes)"],
                "caught_by": None}
        json.dump(meta, open(os.path.join(dst, "meta.json"), "w"), indent=1)
    return 0 if ok else 1


if __name__ == "__main__":
    sys.exit(main())
