"""C08 — translator of the two generator BODIES `lazy_misc.blocks` and `lazy_misc.zero_pad`.

Reads `audiolazy/lazy_misc.py` of the repo under test with `ast` (source text only, nothing is imported) and writes
`lean/ALV/Gen/C08Src.lean`: Lean definitions of the SAME SHAPE as the hand-written model (`Model/C08Call`: state record
`GState` = (deque, idx, "idx is still a Python int"), one step function per `for` loop, the loop selection, the tail), in
the vocabulary of `Model/C08Py` (the subset semantics this translator assumes).  `Props/C08.lean` proves
`src_*_is_model`: the regenerated definitions ARE the model's `gstep` / `gtail` / `grun` / `zeroPad` / defaults; an edit
of the source that changes a constant, a comparison, a reset value, the order of two statements, a default ... changes
the generated text and breaks those theorems (or is a TranslationError) = broken obligation.

Python subset accepted (anything else in the two functions: TranslationError, never skipped):
  signature    plain positional parameters, defaults None / int / finite float literals
  prelude      `res = deque(maxlen=<size param>)`, `idx = <int literal>`, `name = <arith expr>` (immutable local: inlined),
               `if <param> is None: <param> = <param>`
  loops        `for el in <seq param>: body` possibly under `if cond: ... else: ...`; body statements:
               `res.append(<loop var | param>)`, `idx = expr`, `idx += expr`, `idx -= expr`, `yield res`,
               `if cond: ... [else: ...]` as LAST statement of a block; at most one yield on a path
  tail         `if cond: for _ in xrange([lo,] <size param>): <body without yield>` followed by `yield res`
  expr         int literals, parameters, locals, `+`, `-`, `max(a, b)`;  cond: one comparison `== != < <= > >=`
  zero_pad     a sequence of `for _ in xrange(<param>): yield <param>` / `for x in <seq param>: yield x`
Normalised away: whitespace, comments, docstrings, names of locals and loop variables, immutable locals (inlined).
"""
import ast
import os
import subprocess
from fractions import Fraction

import common

GEN_REL = os.path.join("ALV", "Gen", "C08Src.lean")
SRC_REL = os.path.join("audiolazy", "lazy_misc.py")
ROLES = ("seq", "size", "hop", "padval")          # parameters of `blocks` by position (Lean names)
ZROLES = ("seq", "left", "right", "zero")          # parameters of `zero_pad` by position

TRANSLATED = {
    "lazy_misc.blocks": "shallow: loop1_step / loop2_step / tail / blocks_run (start state, loop selection) / hop_bound / blocks_params "
                        "(signature, defaults, prelude constants inlined, both loops, the tail clause)",
    "lazy_misc.zero_pad": "shallow: zero_pad (the three loops in their order) / zero_pad_params (signature, defaults)",
}
NOT_TRANSLATED = {
    "lazy_stream.Stream.blocks": "one line `Stream(blocks(iter(self), *args, **kwargs))`: the *args / **kwargs forwarding is "
                                 "outside the subset; modelled by streamBlocksApply and tied by sampling",
    "deque(maxlen=size) / size - 1 error behaviour": "which exception a refused size / hop spelling raises and when "
                                                     "(initSize / initHop) is library semantics, not source of blocks: hand model",
    "Python's argument binding": "ALV.C08.bind is interpreter semantics: hand model, tied by the call-shape cases",
}


class TranslationError(Exception):
    pass


def read_text():
    with open(os.path.join(common.REPO, SRC_REL)) as f:
        return f.read()


def _fn(tree, name):
    found = [n for n in tree.body if isinstance(n, ast.FunctionDef) and n.name == name]
    if len(found) != 1:
        raise TranslationError("%d top-level definitions of %s" % (len(found), name))
    return found[0]


def _body(fn):
    b = list(fn.body)
    if b and isinstance(b[0], ast.Expr) and isinstance(b[0].value, ast.Constant) and isinstance(b[0].value.value, str):
        b = b[1:]                                    # docstring
    return b


def _dflt(node):
    if isinstance(node, ast.UnaryOp) and isinstance(node.op, ast.USub) and isinstance(node.operand, ast.Constant):
        v = node.operand.value
        if isinstance(v, bool) or not isinstance(v, (int, float)):
            raise TranslationError("default -%r" % (v,))
        v = -v
    elif isinstance(node, ast.Constant):
        v = node.value
    else:
        raise TranslationError("default value not a literal: %s" % ast.dump(node)[:80])
    if v is None:
        return ".none"
    if isinstance(v, bool):
        raise TranslationError("boolean default")
    if isinstance(v, int):
        return "(.int (%d))" % v
    if isinstance(v, float) and v == v and abs(v) != float("inf"):
        q = Fraction(v)
        return "(.flt (%d) %d)" % (q.numerator, q.denominator)
    raise TranslationError("default value %r" % (v,))


def _params(fn, n):
    a = fn.args
    if a.vararg or a.kwarg or a.kwonlyargs or getattr(a, "posonlyargs", None) or fn.decorator_list:
        raise TranslationError("%s: decorators / *args / **kwargs / keyword-only / positional-only" % fn.name)
    if len(a.args) != n:
        raise TranslationError("%s: %d parameters, the model has %d" % (fn.name, len(a.args), n))
    nd = len(a.defaults)
    out = []
    for i, p in enumerate(a.args):
        k = i - (len(a.args) - nd)
        out.append((p.arg, _dflt(a.defaults[k]) if k >= 0 else None))
    return out


def _params_lean(ps):
    return "[" + ", ".join('("%s", %s)' % (n, "none" if d is None else "some " + d) for n, d in ps) + "]"


# ---------------------------------------------------------------------------------------------------------------
# blocks
# ---------------------------------------------------------------------------------------------------------------
class _Blocks(object):
    def __init__(self, fn):
        self.fn = fn
        self.params = _params(fn, 4)
        self.role = {p: r for (p, _d), r in zip(self.params, ROLES)}     # python parameter name -> Lean name
        self.consts = {}          # immutable local -> (lean expr, uses_hop)
        self.res = None           # name of the deque local
        self.idx = None           # name of the index local
        self.idx0 = None
        self.hop_bound = None
        self.steps = []           # generated step functions
        self.assigned = self._assigned_names()

    def _assigned_names(self):
        cnt = {}
        for n in ast.walk(self.fn):
            tg = []
            if isinstance(n, ast.Assign):
                tg = n.targets
            elif isinstance(n, (ast.AugAssign, ast.AnnAssign)):
                tg = [n.target]
            for t in tg:
                if not isinstance(t, ast.Name):
                    raise TranslationError("assignment to something that is not a plain name")
                cnt[t.id] = cnt.get(t.id, 0) + 1
        return cnt

    # --- expressions over the index type -------------------------------------------------------------------
    def expr(self, e, state="s"):
        """-> (lean text, set of free roles among {'size','hop','idx'})"""
        if isinstance(e, ast.Constant) and isinstance(e.value, int) and not isinstance(e.value, bool):
            if 0 <= e.value <= 1:
                return str(e.value), set()
            if 2 <= e.value <= 8:
                return "(" + " + ".join(["1"] * e.value) + ")", set()
            raise TranslationError("integer literal %r" % (e.value,))
        if isinstance(e, ast.Name):
            if e.id == self.idx:
                return "%s.idx" % state, {"idx"}
            if e.id in self.consts:
                return self.consts[e.id]
            r = self.role.get(e.id)
            if r in ("size", "hop"):
                if r == "hop" and self.hop_bound is None and self.assigned.get(e.id):
                    raise TranslationError("hop used before its None default is bound")
                return r, {r}
            raise TranslationError("name %r in an index expression" % e.id)
        if isinstance(e, ast.BinOp) and isinstance(e.op, (ast.Add, ast.Sub)):
            a, fa = self.expr(e.left, state)
            b, fb = self.expr(e.right, state)
            return "(%s %s %s)" % (a, "+" if isinstance(e.op, ast.Add) else "-", b), fa | fb
        if (isinstance(e, ast.Call) and isinstance(e.func, ast.Name) and e.func.id == "max" and len(e.args) == 2
                and not e.keywords):
            a, fa = self.expr(e.args[0], state)
            b, fb = self.expr(e.args[1], state)
            return "(Py.max2 %s %s)" % (a, b), fa | fb
        raise TranslationError("expression not in the subset: %s" % ast.dump(e)[:100])

    def cond(self, t, state="s"):
        if not (isinstance(t, ast.Compare) and len(t.ops) == 1):
            raise TranslationError("condition not a single comparison: %s" % ast.dump(t)[:100])
        a, _ = self.expr(t.left, state)
        b, _ = self.expr(t.comparators[0], state)
        op = {ast.Eq: "=", ast.NotEq: "≠", ast.Lt: "<", ast.LtE: "≤", ast.Gt: ">", ast.GtE: "≥"}.get(type(t.ops[0]))
        if op is None:
            raise TranslationError("comparison operator %s" % type(t.ops[0]).__name__)
        return "%s %s %s" % (a, op, b)

    @staticmethod
    def intness(free, state="s"):
        parts = []
        if "idx" in free:
            parts.append("%s.isInt" % state)
        if "hop" in free:
            parts.append("hopInt")
        return " && ".join(parts) if parts else "true"

    # --- statements of a loop body ---------------------------------------------------------------------------
    def value(self, e, loopvar):
        if isinstance(e, ast.Name):
            if loopvar is not None and e.id == loopvar:
                return "el"
            if self.role.get(e.id) == "padval":
                return "padval"
        raise TranslationError("appended value must be the loop variable or padval")

    def simple(self, st, loopvar, ind, allow_yield, yielded):
        """one non-`if` statement -> (lean lines, yielded')"""
        pad = "  " * ind
        if isinstance(st, ast.Expr) and isinstance(st.value, ast.Call):
            c = st.value
            if (isinstance(c.func, ast.Attribute) and c.func.attr == "append" and isinstance(c.func.value, ast.Name)
                    and c.func.value.id == self.res and len(c.args) == 1 and not c.keywords):
                return [pad + "let s : GState ι α := { s with res := dqPush maxlen s.res %s }"
                        % self.value(c.args[0], loopvar)], yielded
        if isinstance(st, ast.Expr) and isinstance(st.value, ast.Yield):
            v = st.value.value
            if not (isinstance(v, ast.Name) and v.id == self.res):
                raise TranslationError("only the deque itself may be yielded")
            if not allow_yield or yielded:
                raise TranslationError("second yield on one path of a loop body / yield where none is allowed")
            return [pad + "let out : Option (List α) := some s.res"], True
        if isinstance(st, ast.Assign) and len(st.targets) == 1 and isinstance(st.targets[0], ast.Name) \
                and st.targets[0].id == self.idx:
            e, free = self.expr(st.value)
            return [pad + "let s : GState ι α := { s with idx := %s, isInt := %s }" % (e, self.intness(free))], yielded
        if isinstance(st, ast.AugAssign) and isinstance(st.target, ast.Name) and st.target.id == self.idx \
                and isinstance(st.op, (ast.Add, ast.Sub)):
            e, free = self.expr(st.value)
            return [pad + "let s : GState ι α := { s with idx := (s.idx %s %s), isInt := %s }"
                    % ("+" if isinstance(st.op, ast.Add) else "-", e, self.intness(free | {"idx"}))], yielded
        if isinstance(st, ast.Pass):
            return [], yielded
        raise TranslationError("statement not in the subset: %s" % ast.dump(st)[:120])

    def block(self, stmts, loopvar, ind, allow_yield=True, yielded=False):
        lines = []
        pad = "  " * ind
        for k, st in enumerate(stmts):
            if isinstance(st, ast.If):
                if k != len(stmts) - 1:
                    raise TranslationError("`if` that is not the last statement of its block")
                lines.append(pad + "if %s then" % self.cond(st.test))
                lines += self.block(st.body, loopvar, ind + 1, allow_yield, yielded)
                lines.append(pad + "else")
                lines += self.block(st.orelse, loopvar, ind + 1, allow_yield, yielded)
                return lines
            ls, yielded = self.simple(st, loopvar, ind, allow_yield, yielded)
            lines += ls
        lines.append(pad + "(s, out)")
        return lines

    # --- top level -----------------------------------------------------------------------------------------------
    def prelude(self, st):
        """True when the statement belongs to the prelude"""
        if isinstance(st, ast.Assign) and len(st.targets) == 1 and isinstance(st.targets[0], ast.Name):
            name, v = st.targets[0].id, st.value
            if (isinstance(v, ast.Call) and isinstance(v.func, ast.Name) and v.func.id == "deque" and not v.args
                    and len(v.keywords) == 1 and v.keywords[0].arg == "maxlen" and isinstance(v.keywords[0].value, ast.Name)
                    and self.role.get(v.keywords[0].value.id) == "size"):
                if self.res is not None or self.assigned.get(name) != 1:
                    raise TranslationError("the deque is bound more than once")
                self.res = name
                return True
            if self.assigned.get(name) == 1 and name not in self.role:        # immutable local: inlined
                if self.res is None:
                    raise TranslationError("arithmetic on size before deque(maxlen=size) has checked it")
                self.consts[name] = self.expr(v)
                return True
            if name not in self.role and self.idx in (None, name) and self.idx0 is None:
                if not (isinstance(v, ast.Constant) and isinstance(v.value, int) and not isinstance(v.value, bool)):
                    raise TranslationError("the index must start from an int literal")
                self.idx = name
                self.idx0 = self.expr(v)[0]
                return True
            raise TranslationError("prelude assignment to %r not understood" % name)
        if (isinstance(st, ast.If) and not st.orelse and isinstance(st.test, ast.Compare) and len(st.test.ops) == 1
                and isinstance(st.test.ops[0], ast.Is) and isinstance(st.test.left, ast.Name)
                and isinstance(st.test.comparators[0], ast.Constant) and st.test.comparators[0].value is None
                and len(st.body) == 1 and isinstance(st.body[0], ast.Assign) and len(st.body[0].targets) == 1
                and isinstance(st.body[0].targets[0], ast.Name) and isinstance(st.body[0].value, ast.Name)):
            p, q = st.body[0].targets[0].id, st.body[0].value.id
            if st.test.left.id != p or self.role.get(p) != "hop" or self.role.get(q) != "size" or self.hop_bound:
                raise TranslationError("None default of something else than hop := size")
            if self.assigned.get(p) != 1:
                raise TranslationError("hop is assigned more than once")
            self.hop_bound = "if hop = Num.none then size else hop"
            return True
        return False

    def loops(self, st, ind):
        """`for el in seq` or an if/else of such regions -> lean lines of a `List (Nat × List α) × GState ι α` term"""
        pad = "  " * ind
        if isinstance(st, ast.For):
            if not (isinstance(st.iter, ast.Name) and self.role.get(st.iter.id) == "seq" and isinstance(st.target, ast.Name)
                    and not st.orelse):
                raise TranslationError("loop that is not `for <name> in seq`")
            k = len(self.steps) + 1
            body = self.block(st.body, st.target.id, 1)
            self.steps.append(
                ["/-- body of the %s `for … in seq` loop of `blocks` -/" % _ordinal(k),
                 "def loop%d_step (maxlen : Nat) (size hop : ι) (hopInt : Bool) (s : GState ι α) (el : α) :" % k,
                 "    GState ι α × Option (List α) :=",
                 "  let out : Option (List α) := none"] + body)
            return [pad + "Py.forEv (loop%d_step maxlen size hop hopInt) s 0 xs" % k]
        if isinstance(st, ast.If) and len(st.body) == 1 and len(st.orelse) == 1:
            c = self.cond(st.test, state="s")
            return ([pad + "if %s then" % c] + self.loops(st.body[0], ind + 1) + [pad + "else"]
                    + self.loops(st.orelse[0], ind + 1))
        raise TranslationError("loop region not understood: %s" % ast.dump(st)[:100])

    def tail(self, st):
        if not (isinstance(st, ast.If) and not st.orelse and len(st.body) == 2 and isinstance(st.body[0], ast.For)
                and isinstance(st.body[1], ast.Expr) and isinstance(st.body[1].value, ast.Yield)
                and isinstance(st.body[1].value.value, ast.Name) and st.body[1].value.value.id == self.res):
            raise TranslationError("tail clause is not `if c: for _ in xrange(..): ..` + `yield res`")
        f = st.body[0]
        it = f.iter
        if not (isinstance(it, ast.Call) and isinstance(it.func, ast.Name) and it.func.id in ("xrange", "range")
                and 1 <= len(it.args) <= 2 and not it.keywords and not f.orelse and isinstance(f.target, ast.Name)):
            raise TranslationError("tail loop is not over xrange(lo, size)")
        hi = it.args[-1]
        if not (isinstance(hi, ast.Name) and self.role.get(hi.id) == "size"):
            raise TranslationError("upper end of the tail xrange is not size")
        if len(it.args) == 2:
            lo, free = self.expr(it.args[0])
            lo_t, lo_int = "(toN %s)" % lo, self.intness(free)
        else:
            lo_t, lo_int = "0", "true"
        for n in ast.walk(f):
            if isinstance(n, ast.Name) and n.id == f.target.id and n is not f.target:
                raise TranslationError("the tail loop uses its counter")
        body = self.block(f.body, None, 3, allow_yield=False)
        body[-1] = body[-1].replace("(s, out)", "s")
        return (["/-- the clause after the loops of `blocks` -/",
                 "def tail (maxlen : Nat) (size hop : ι) (toN : ι → Nat) (padval : α) (s : GState ι α) : GTail α :=",
                 "  if %s then" % self.cond(st.test),
                 "    match Py.forRange (%s) %s maxlen (fun s =>" % (lo_int, lo_t)] + body +
                ["      ) s with",
                 "    | none => .refuse",
                 "    | some s => .block s.res",
                 "  else .nothing"])

    def run(self):
        body = _body(self.fn)
        i = 0
        while i < len(body) and self.prelude(body[i]):
            i += 1
        if self.res is None or self.idx is None or self.hop_bound is None:
            raise TranslationError("prelude incomplete (deque / index / hop default)")
        rest = body[i:]
        if len(rest) != 2:
            raise TranslationError("after the prelude: %d statements instead of loops + tail" % len(rest))
        sel = self.loops(rest[0], 2)
        tl = self.tail(rest[1])
        out = ["/-- `if hop is None: hop = size` -/",
               "def hop_bound (size hop : Num) : Num := %s" % self.hop_bound, "",
               "section", "variable {ι α : Type} [Add ι] [Sub ι] [LT ι] [LE ι] [DecidableEq ι]",
               "  [DecidableRel (fun a b : ι => a < b)] [DecidableRel (fun a b : ι => a ≤ b)] [OfNat ι 0] [OfNat ι 1]", ""]
        for s in self.steps:
            out += s + [""]
        out += tl + [""]
        out += ["/-- `blocks` consumed to its end by a source that delivers `xs` and ends with `e`; `maxlen` and `size` are the two",
                "views of the checked size (deque bound / number), `hopInt`: hop is a Python int, `toN`: index to int -/",
                "def blocks_run (maxlen : Nat) (size hop : ι) (hopInt : Bool) (toN : ι → Nat) (padval : α) (xs : List α)",
                "    (e : Ending) : CallRun α :=",
                "  let s : GState ι α := ⟨[], %s, true⟩" % self.idx0,
                "  Py.genRun ("] + sel + ["    ) (tail maxlen size hop toN padval) xs e", "", "end"]
        return out


def _ordinal(k):
    return {1: "first", 2: "second", 3: "third"}.get(k, "%d-th" % k)


# ---------------------------------------------------------------------------------------------------------------
# zero_pad
# ---------------------------------------------------------------------------------------------------------------
def _zero_pad(fn):
    ps = _params(fn, 4)
    role = {p: r for (p, _d), r in zip(ps, ZROLES)}
    segs = []
    for st in _body(fn):
        if not (isinstance(st, ast.For) and not st.orelse and isinstance(st.target, ast.Name) and len(st.body) == 1
                and isinstance(st.body[0], ast.Expr) and isinstance(st.body[0].value, ast.Yield)
                and isinstance(st.body[0].value.value, ast.Name)):
            raise TranslationError("zero_pad: statement that is not `for v in …: yield name`")
        y = st.body[0].value.value.id
        it = st.iter
        if isinstance(it, ast.Name) and role.get(it.id) == "seq":
            if y != st.target.id:
                raise TranslationError("zero_pad: the loop over seq does not yield its item")
            segs.append("xs.map (fun x => x)")
        elif (isinstance(it, ast.Call) and isinstance(it.func, ast.Name) and it.func.id in ("xrange", "range")
              and len(it.args) == 1 and not it.keywords and isinstance(it.args[0], ast.Name)
              and role.get(it.args[0].id) in ("left", "right")):
            if role.get(y) != "zero":
                raise TranslationError("zero_pad: a padding loop does not yield `zero`")
            segs.append("List.replicate %s zero" % role[it.args[0].id])
        else:
            raise TranslationError("zero_pad: loop over something else than seq / xrange(left|right)")
    if not segs:
        raise TranslationError("zero_pad: empty body")
    return ps, ["/-- `zero_pad`: its loops one after the other -/",
                "def zero_pad {α : Type} (left right : Nat) (zero : α) (xs : List α) : List α :=",
                "  " + " ++ ".join(segs)]


# ---------------------------------------------------------------------------------------------------------------
def translate(text):
    try:
        tree = ast.parse(text)
    except SyntaxError as e:
        raise TranslationError("lazy_misc.py does not parse: %s" % e)
    b = _Blocks(_fn(tree, "blocks"))
    blk = b.run()
    zps, zp = _zero_pad(_fn(tree, "zero_pad"))
    lines = ["/- GENERATED by harness/props/c08_tr.py from audiolazy/lazy_misc.py (bodies of `blocks` and `zero_pad` read with `ast`).",
             "   Do not edit: rewritten on every check.  Vocabulary: ALV/Model/C08Py.lean, ALV/Model/C08Call.lean. -/",
             "import ALV.Model.C08Py", "namespace ALV.Gen.C08", "open ALV.C08", "",
             "/-- parameters of `blocks` with their default values -/",
             "def blocks_params : List (String × Option Py.Dflt) := " + _params_lean(b.params),
             "/-- parameters of `zero_pad` with their default values -/",
             "def zero_pad_params : List (String × Option Py.Dflt) := " + _params_lean(zps), ""]
    lines += blk + [""] + zp + ["", "end ALV.Gen.C08", ""]
    return "\n".join(lines)


def committed_text():
    good = subprocess.run(["git", "-C", common.VERIF, "show", "HEAD:lean/" + GEN_REL.replace(os.sep, "/")],
                          capture_output=True, text=True, timeout=30)
    return good.stdout if good.returncode == 0 and good.stdout else None


def regenerate(eng=None):
    """Rewrite lean/ALV/Gen/C08Src.lean from the repo under test.  On a translation failure the last COMMITTED file is
    put back (so that the build speaks about the last translatable state) and the error propagates = broken obligation."""
    path = os.path.join(common.LEAN, GEN_REL)
    try:
        text = translate(read_text())
    except Exception:
        try:
            good = committed_text()
            if good and (not os.path.exists(path) or open(path).read() != good):
                with open(path, "w") as f:
                    f.write(good)
        except Exception:
            pass
        raise
    old = open(path).read() if os.path.exists(path) else None
    if old != text:
        os.makedirs(os.path.dirname(path), exist_ok=True)
        with open(path, "w") as f:
            f.write(text)
        return "rewritten (%d bytes)" % len(text)
    return "unchanged (%d bytes)" % len(text)


# ---------------------------------------------------------------------------------------------------------------
# self test: edited copies of the source text
# ---------------------------------------------------------------------------------------------------------------
EDITS = [
    ("tail comparison > to >=", "if idx > max(size-hop, 0):", "if idx >= max(size-hop, 0):"),
    ("last_idx constant", "last_idx = size - 1", "last_idx = size - 2"),
    ("reset value of the skip loop", "          idx = size-hop\n", "          idx = size-hop+1\n"),
    ("append moved after the test (reorder)",
     "      res.append(el)\n      if idx == last_idx:\n        yield res\n        idx = reinit_idx\n      else:\n        idx += 1\n",
     "      if idx == last_idx:\n        yield res\n        idx = reinit_idx\n      else:\n        idx += 1\n      res.append(el)\n"),
    ("loop selection <= to <", "if hop <= size:", "if hop < size:"),
    ("skip test < 0 to <= 0", "if idx < 0: # Skips data", "if idx <= 0: # Skips data"),
    ("padval default", "def blocks(seq, size=None, hop=None, padval=0.):", "def blocks(seq, size=None, hop=None, padval=0):"),
    ("hop default rule", "  if hop is None:\n    hop = size\n", "  if hop is None:\n    hop = 1\n"),
    ("zero_pad loops swapped", "  for unused in xrange(left):\n    yield zero\n  for item in seq:\n    yield item\n",
     "  for item in seq:\n    yield item\n  for unused in xrange(left):\n    yield zero\n"),
    ("zero_pad right pads left count", "  for unused in xrange(right):", "  for unused in xrange(left):"),
]
HARMLESS = [
    ("comment, blank line and renamed locals",
     [("  idx = 0\n", "  idx = 0  # position in the window\n\n"), ("last_idx", "final"), ("for el in seq:", "for item in seq:"),
      ("res.append(el)", "res.append(item)"), ("for unused in", "for _ in")]),
]


def selftest():
    """-> (ok, detail).  Uses the source text of the repo under test when it still translates to the committed file,
    else the check is reported as not applicable to this copy (the obligation `regenerate` already failed or differs)."""
    text = read_text()
    base = translate(text)
    path = os.path.join(common.LEAN, GEN_REL)
    on_disk = open(path).read() if os.path.exists(path) else None
    notes = []
    ok = True
    if base != on_disk:
        ok = False
        notes.append("the source does not reproduce lean/%s byte for byte" % GEN_REL)
    good = committed_text()
    if good is not None and base != good:
        # an edited copy of the repo: the src_*_is_model theorems speak about it; the edits below are anchored in the pristine text
        return ok, "source under test translates to a text different from the committed lean/%s: self-test of the edits skipped" % GEN_REL
    for name, old, new in EDITS:
        if text.count(old) != 1:
            ok = False
            notes.append("%s: anchor text found %d times" % (name, text.count(old)))
            continue
        try:
            t = translate(text.replace(old, new))
            if t == base:
                ok = False
                notes.append("%s: NOT SEEN (same generated text)" % name)
            else:
                notes.append("%s: different text" % name)
        except TranslationError as e:
            notes.append("%s: TranslationError (%s)" % (name, str(e)[:50]))
    for name, subs in HARMLESS:
        t2 = text
        for old, new in subs:
            if old not in t2:
                ok = False
                notes.append("%s: anchor %r missing" % (name, old))
            t2 = t2.replace(old, new)
        try:
            same = translate(t2) == base
        except TranslationError as e:
            same = False
            notes.append("%s: TranslationError %s" % (name, e))
        if not same:
            ok = False
            notes.append("%s: harmless rewrite changes the generated text" % name)
        else:
            notes.append("%s: same text (normalised)" % name)
    return ok, "; ".join(notes)
