"""C18 — PCM byte codecs: chunks.struct / chunks.array and WavStream.

Tie: (a) `chunks.<strategy>` (and the StrategyDict `chunks` itself) for formats b h i f d and the other
integer formats of the struct table (B H I l L q Q) x byte orders (omitted, None, "@", "=", "<", ">",
"!") x sizes x lengths x value spellings (int, float, bool, Fraction) x call shapes (keywords,
positionals, mixed, defaults omitted: size -> chunks.size, dfmt -> "f", padval -> 0.) x sources (list,
tuple, iterator, Stream, generator, ENDLESS generator with the number of items pulled), bytes compared
exactly with the Lean model of that strategy, with the Lean specification (packed padded sequence cut
every `size` items) and with Python's own `struct.pack` of the padded sequence; (b) WAV files written
with the standard `wave` module AND by the harness' own RIFF writer (extra chunks such as LIST before /
between / after fmt and data, odd sizes, WAVE_FORMAT_EXTENSIBLE, header bits that are no PCM width,
declared data / RIFF sizes that lie, files the reader must refuse) read back through `WavStream` (keep
True/False): the Lean RIFF reader (`parseRiff`) is given the BYTES OF THE FILE and must find rate,
channels, bits and the data chunk itself; values compared exactly (normalised values are exact dyadic
floats), header attributes and the open/closed state of the file after k `next()` calls; (c) "res"
cases (c18_res.py): the file life-cycle on REAL handles -- the file handed over as str / bytes /
path-like name, as a buffered or raw OS file object of the caller, or as BytesIO; a history of `next()`
calls and collections of the stream object; after the constructor and after every event the
descriptors of the process on the file (/proc/self/fd), every file object `builtins.open` created on
the path (open flag, number of close() calls), ResourceWarnings, the caller's own handles and getfp()
are compared with the Lean state machine `rTrace`; (d) "concurrent" cases:
2-3 chunk generators and/or WavStreams alive at once, advanced by `next()` in the interleaving
given by the case (a schedule list), including re-entrant use (the source iterable of one chunk
generator advances another generator when asked for its k-th item, i.e. while the first one is
suspended in the middle of filling a chunk, or is itself the decoded output of another chunk
generator after a header) -- every generator is compared with the Lean model/spec of THAT
generator alone: the property quantifies over every call, so a generator is a function of its own
arguments only, whatever else is alive.  Yielded chunks are also re-read at the end of each case
(a chunk that changes after it was yielded is a violation: `b"".join(chunks(...))` reads them late).
"""
import hashlib, io, itertools, json, os, struct, sys, tempfile, wave
from fractions import Fraction
import common
from common import enc, err_kind
from props import c18_res
from props import c18_tr

ID = "C18"
RULE = ("chunks: exhaustive grid (format b h i f d x byte-order spelling x size 1..9 x length 0..20 x strategy) and a "
        "second grid over B H I l L q Q, range extremes among the values, plus random larger cases (value spellings "
        "int/float/bool/Fraction, call shapes keyword/positional/mixed/StrategyDict entry, defaults omitted, sources "
        "list/tuple/iterator/Stream/counted generator/endless generator) and a malformed stream (value out of range, "
        "float or Fraction into an integer format, default float pad with integer formats); wav: every width x "
        "channel count x keep x 0..6 frames of extreme values, random files up to 40 frames, truncated files, and "
        "files of the harness' own RIFF writer (extra chunks, odd sizes, extensible format, header bits 1..64, lying "
        "sizes, refused files) parsed by the Lean RIFF reader; res: a grid (6 ways of handing the file over x width x "
        "channels x keep x 0/1/3 frames x 9 event histories x 2 observers) plus constructor failures, truncated "
        "files and random histories of next()/collect events; concurrent: a grid (strategy pair x format x size 2..4 "
        "x every position of the re-entrant "
        "advance x length of the other generator) plus random groups of 2-3 generators (same / different "
        "strategy, dfmt, size, byte order; WavStreams over the same / different files) with random schedules, "
        "re-entrant sources, re-chunking pipelines, partial consumption and malformed members; "
        "extremes: every integer format x size 1..3 x length 1..2*size+1 x EVERY position (and the pad value) x {lo, hi, lo-1, "
        "hi+1} x both strategies; wavcall: 16 spellings of keep x 9 call shapes (positional / keyword / both keywords in "
        "both orders / three positionals / keep twice / no file / unknown keywords) + keep omitted; counted: width x "
        "channels x 0/1/2/4 frames x every k in 0..n+2 with a byte-counting file object; "
        "non-trivial = at least one item in the input sequence / one sample in the file / one event in the history "
        "(concurrent: in some generator); distinct = distinct JSON case")
TRUSTED = [
    "source translator harness/props/c18_tr.py (ast -> lean/ALV/Gen/C18Src.lean, rewritten before every build; theorems "
    "src_*_is_model in Props/C18.lean): it trusts (1) the Python-subset semantics it assumes: straight-line assignments "
    "become `let`s in source order, `if c: x = a else: x = b` a conditional expression, `for el in G: yield e1; yield e2` "
    "the flatMap of [e1, e2] over the list G yields, `for el in G: yield f(el)` the model's genMap (stops at the first "
    "exception), `el[:k]` / `el[k:]` List.take / List.drop, `==` `!=` `*` `-` `//` `<<` on the small non-negative ints "
    "bits / channels / widths the operators of Nat (`-` truncates at 0: unreachable, the KeyError of the table comes first), "
    "`/` true division of an int by a positive int, a dict literal a list of pairs with unique keys, closures over self.bits / "
    "self.channels / keep parameters; (2) the vocabulary mapping of Model/C18Src.lean: ord -> unpack8, "
    "Struct(order+char).unpack(x)[0] -> unpackInt, `>>` on Python ints -> Int.shiftRight (arithmetic), w.readframes(n) until "
    "b'' -> readLoop n (frames of sampwidth*channels bytes: the wave module), str(size)+dfmt / byte_order+dfmt -> format "
    "parts, struct.Struct -> mkStruct, s.pack(*block) -> StructStr.pack (item count checked, elements by leElem), "
    "blocks(seq, size, padval=p) -> C08's blocks with hop = size (property C08), `byte_order is None` -> OrderArg.isNone, "
    "{...}.get(byte_order, sys.byteorder) -> orderGet; for the body of chunks.array: a mutable array.array of fixed size is "
    "a list of cells (each the machine byte string of its item) updated with List.set, array.array(dfmt, [0] * size) -> "
    "arrNew, `chunk[idx] = v` -> arrSet (conversion by leElem false in machine order, may raise, then the array is unchanged), "
    "array.array(dfmt, <array>) -> arrCopy, .byteswap() -> arrByteswap, tobytes(a) (getattr ... or tostring) -> arrTobytes, the "
    "closure export() reads the array as it is at the call, `for el in seq:` with yields -> forGen (state = array and idx, "
    "one pass raises before its first yield), `for i in xrange(lo, hi)` -> forRange with hi - lo passes; a construct outside this grammar is a TranslationError = broken "
    "obligation.  The translator is itself checked on every run (extra check translator-selftest: 26 edited copies of the "
    "source text must change the translation or be refused, 4 harmless edits must not, the unchanged text must reproduce "
    "the committed file) and, independently, by the differential tie that runs the hand model the theorems equate it with",
    "NOT under the translator (hand-written, tied by the differential correspondence only): the laziness / life-cycle machines "
    "(wavNext, wavTake, Model/C18Res), the RIFF reader, parameter defaults of chunks.*",
    "call layer (ALV/Model/C18Call.lean): the binding of WavStream(*pos, **kw) to (wave_file, keep=False) is C08's "
    "model of Python's argument binding, the truth value of what was passed for keep is PyV.truthy (Float != 0.0 for "
    "floats: trusted), the seven spellings of byte_order are OrderArg; all three are compared with the real calls",
    "bytes taken from the file: counted by a BytesIO subclass whose read() adds up what it hands out, between the end "
    "of the constructor and the end of the k next() calls; the model's bytesRead is the data-chunk part, alignByte "
    "the one alignment byte wave's _Chunk.read takes along with the last frame of an odd-sized chunk (the tie "
    "accepts it only then, and only if the file has that byte)",
    "hand-written Lean model ALV/Model/C18.lean of lazy_io.chunks (struct and array strategies) and "
    "lazy_wav.WavStream (modelled, not verified: struct.Struct, array.array, wave.Wave_read.readframes, "
    "generator protocol, try/finally)",
    "IEEE-754 encoders of the formats f and d are abstract in the theorems (parameter `le`, hypothesis "
    "dec (enc x) = x for the round trip); the driver instantiates them with Lean's Float.toBits / "
    "Float.toFloat32 and the tie compares their bytes with Python's struct on every generated float; a Fraction is "
    "sent with the double Python's float() makes of it",
    "the model of chunks.array includes the repair proposed for D5 (tobytes, byteswap when the requested "
    "order is not native, zero-initialised working array); the unrepaired code cannot satisfy the property",
    "file life-cycle (ALV/Model/C18Res.lean): a hand-written state machine of wave.open / Wave_read.close / "
    "Wave_read.__del__ / the try-finally of block_reader / CPython's finalisation of a suspended generator and of "
    "an unreferenced file object; the theorems are about that machine, the tie compares every state of it with "
    "the real process: descriptors listed in /proc/self/fd, file objects created through a patched builtins.open "
    "(a BufferedReader subclass counting close() calls, kept alive by the harness, so 'abandoned' = still open "
    "when the stream object is gone) or, unpatched, the ResourceWarnings; 'collect' is `del` + gc.collect() "
    "(WavStream sits in a reference cycle: dropping the last reference alone closes nothing -- tallied, not demanded)",
    "RIFF container (ALV/Model/C18Riff.lean): hand-written model of Wave_read.initfp / _Chunk (not proved against "
    "a specification of RIFF; theorem riff_parse_build: every file of the builder buildRiff -- any extra chunks before / "
    "between / after fmt and data, odd sizes padded -- is read back exactly, by induction on the chunk lists); "
    "it is run by the driver on the bytes of every file of the res cases and of the own-writer wav cases and must "
    "agree with the real wave module on header fields, data chunk and the exception class of a refused file",
    "the byte layout of the PCM files is produced by the standard `wave` module (or the harness' RIFF writer, "
    "checked equal to it on plain files) from bytes built by int.to_bytes in this harness; the Lean spec's "
    "pcmData is compared with those bytes on every case",
    "isolation of generators: in the Lean model chunksStruct / chunksArray / wavStream are pure functions of "
    "one call's arguments, so 'the output depends only on the generator's own arguments, whatever other "
    "generators are alive or interleaved' holds there by construction (no theorem is needed or stated); for "
    "/repo it is checked by the concurrent cases only: single-threaded interleavings given by a schedule, "
    "with re-entrant sources standing for a second thread that runs while a generator is suspended in its "
    "source (real threads are not started); in those cases the expected open/closed state of a WavStream "
    "after k next() calls is Spec.closedAfter (n < k), which theorem wav_lazy_and_closed equates with the model",
]
ASSUMPTIONS = [
    "size >= 1; values representable in the format (integers in range, doubles within the float32 range "
    "for 'f'); other inputs only in the malformed stream, where the exception class is compared",
    "WAV files inside the property: well-formed PCM (data length a multiple of the frame size), 1 or 2 channels, "
    "8/16/24/32 bits, any extra chunks; truncated files, lying sizes, other header widths (rounded up to whole "
    "bytes; no unpacker beyond 32 bits: KeyError and the file stays open until the stream object is collected), "
    "more channels and refused files are compared with the model only",
    "formats l / L under a standard-size prefix (4 bytes for struct, the machine's long in an array: the strategies "
    "differ, as the docstring warns) are outside the property's formats and compared with the model only",
    "name kinds: a str is a name; bytes and path-like names are refused by wave.open today (AttributeError, "
    "nothing opened) -- the tie accepts either 'refused, nothing opened' or 'accepted and then exactly the "
    "life-cycle of a name'",
    "native byte order of the machine is read from sys.byteorder, the size of the machine's long from "
    "struct.calcsize('l'); both are passed to the model; /proc/self/fd lists the descriptors of the process",
]

MANIFEST = {
    "technique": ("Lean 4 machine-checked proof over an executable model + source translator harness/props/c18_tr.py (the "
                  "_unpackers table as program values, WavStream.__init__ / block_reader / sample_reader / data_generator, "
                  "chunks.struct and the whole of chunks.array (byte-order table, swap, working array, export(), fill loop, pad loop, last "
                  "chunk) are regenerated from the source with ast into "
                  "lean/ALV/Gen/C18Src.lean on every run and proved equal to the model: theorems src_*_is_model) + "
                  "differential correspondence with the implementation"),
    "text": ("Lean 4 theorems, for all inputs: two's-complement and unsigned pack/unpack round trip on the full range of "
             "every width and both byte orders; the 24-bit WAV path sign-extends every three-byte string; WavStream "
             "over any well-formed 8/16/24/32-bit mono/stereo PCM data chunk yields exactly the stored integers "
             "(keep) or those integers (8 bit: minus 128) / 2^(bits-1), always in [-1,1); bits = 8*ceil(header bits/8); "
             "file life-cycle as a state machine over the handle table of the process: a stream opened by name owns "
             "exactly one handle, closed by exactly one close() once a next() returned StopIteration or a decoding "
             "error (stream object alive) or once the object is collected, never earlier, never abandoned; a handle of "
             "the caller (file object, BytesIO, anything else open) is never touched; a failing constructor leaves "
             "nothing open; chunks.struct and chunks.array (repaired as proposed for D5) both equal the "
             "specification 'pack the sequence followed by (-len) mod size pad values, cut every size items' for "
             "every size, length, byte order, machine order and element encoder, including where they stop on an "
             "unpackable item, and are lazy (one block in, one chunk out); tied to /repo by a differential "
             "correspondence on every check: bytes of both strategies over the integer and float formats of the "
             "struct table, spellings, call shapes and sources; a Lean RIFF reader parsing the very file bytes; the "
             "life-cycle machine against /proc/self/fd, spied file objects and ResourceWarnings; groups of 2-3 chunk "
             "generators / WavStreams alive at once, each compared with the output of that call alone"),
    "note": ("Trusted: Lean kernel, axioms propext/Classical.choice/Quot.sound, the Python harness; struct, array, "
             "wave and the IEEE-754 encoders of f/d are not modelled beyond what the hand-written models say (the "
             "theorems take the element encoder as a parameter; the driver's Float.toBits / toFloat32 bytes are "
             "compared with struct.pack on every float case).  The resource theorems are about the modelled state "
             "machine (wave.open, Wave_read.close/__del__, generator finalisation), tied state by state to real "
             "descriptors.  The RIFF reader is proved to read back every file of the Lean builder "
             "(riff_parse_build); that the builder writes what real files look like is checked by the tie only.  "
             "chunks.array in /repo was defective (D5, D5b: fixed); its "
             "model is the repaired code.  Independence of a generator from other live generators is true by "
             "construction in the (pure) model and is checked for /repo by single-threaded interleavings only; "
             "races that need a pre-emptive thread switch inside one call are not observable by the tie."),
}

NATIVE = "<" if sys.byteorder == "little" else ">"
LONG = struct.calcsize("l")                    # the machine's long (array('l').itemsize; struct 'l' without a std prefix)
WIDTH = {"b": 1, "h": 2, "i": 4, "f": 4, "d": 8, "B": 1, "H": 2, "I": 4, "q": 8, "Q": 8, "l": 4, "L": 4}
INTFMT = "bhiBHIqQlL"
MOREFMT = "BHIqQlL"                            # the other integer formats of the struct table
ALLFMT = "bhifd" + MOREFMT
STD_ORDERS = ("=", "<", ">", "!")              # prefixes with standard sizes (l, L are 4 bytes)
ORDERS = ["omit", None, "@", "=", "<", ">", "!"]
ORDER_REQ = {"omit": None, None: None, "@": None, "=": None, "<": "<", ">": ">", "!": ">"}
F32MAX = 3.4028234663852886e38


def f2j(x):
    return {"f": struct.unpack("<Q", struct.pack("<d", float(x)))[0]}


def j2v(j):
    if isinstance(j, dict):
        if "b" in j:
            return bool(j["b"])
        if "q" in j:
            return Fraction(j["q"][0], j["q"][1])
        return struct.unpack("<d", struct.pack("<Q", j["f"]))[0]
    return j


def frac2j(p, q):
    """a Fraction as it is spelled, with the double float() makes of it (what the float formats pack)"""
    return {"q": [p, q], "f": f2j(float(Fraction(p, q)))["f"]}


def int_range(fmt):
    b = 8 * WIDTH[fmt]
    if fmt in "BHIQL":
        return 0, (1 << b) - 1
    return -(1 << (b - 1)), (1 << (b - 1)) - 1


def rand_int(rng, fmt):
    lo, hi = int_range(fmt)
    r = rng.random()
    if r < 0.25:
        return max(lo, min(hi, rng.choice([lo, hi, lo + 1, hi - 1, -1, 0, 1])))
    if r < 0.45:
        k = rng.choice([7, 8, 15, 16, 23, 24, 31, 32, 63])
        v = rng.choice([1, -1]) * ((1 << k) + rng.choice([-1, 0, 1]))
        return max(lo, min(hi, v))
    if r < 0.7:
        return max(lo, min(hi, rng.randint(-130, 130))) if fmt not in "bB" else rng.randint(lo, hi)
    return rng.randint(lo, hi)


def rand_float(rng, fmt):
    r = rng.random()
    if r < 0.3:
        return rng.choice([0.0, -0.0, 1.0, -1.0, 0.5, -0.25, 1.5, 17.0, -3.42, 1e-5, 0.1, float("inf"), float("nan"),
                           float("-inf"), 2.0 ** -126, 2.0 ** -149, 2.0 ** -150, 5e-324, 2.0 ** -1022,
                           F32MAX, -F32MAX, 16777217.0, 1.0000000596046448, 1.0000001788139343])
    if r < 0.5:
        return rng.randint(-1000, 1000) / 2.0 ** rng.randint(0, 10)
    if r < 0.8:
        return rng.uniform(-1, 1)
    x = rng.uniform(-1, 1) * 10.0 ** rng.randint(-40, 38)
    return max(-F32MAX, min(F32MAX, x)) if fmt == "f" else x * 10.0 ** rng.randint(-200, 200)


def rand_vals(rng, fmt, n):
    if fmt in INTFMT:
        out = [rand_int(rng, fmt) for _ in range(n)]
        for i in range(n):
            if rng.random() < 0.05:
                out[i] = {"b": rng.random() < 0.5}       # a bool is an integer (True packs as 1)
        return out
    out = []
    for _ in range(n):
        r = rng.random()
        if r < 0.15:
            out.append(rng.randint(-100, 100))          # ints are accepted by the float formats
        elif r < 0.19:
            out.append({"b": rng.random() < 0.5})
        elif r < 0.27:                                  # a Fraction goes through its float()
            out.append(frac2j(rng.randint(-1000, 1000), rng.choice([1, 2, 3, 7, 8, 10, 1024, 3 ** 20])))
        else:
            out.append(f2j(rand_float(rng, fmt)))
    return out


def chunk_case(fmt, order, size, xs, pad, strategy, **kw):
    c = {"entry": "chunks", "fmt": fmt, "order": order, "size": size, "xs": xs, "pad": pad,
         "strategy": strategy}
    c.update(kw)
    return c


def pcm_bytes(bits, samples):
    w = bits // 8
    if bits == 8:
        return bytes(samples)
    return b"".join(int(s).to_bytes(w, "little", signed=True) for s in samples)


def wav_range(bits):
    return (0, 255) if bits == 8 else (-(1 << (bits - 1)), (1 << (bits - 1)) - 1)


def rand_sample(rng, bits):
    lo, hi = wav_range(bits)
    r = rng.random()
    if r < 0.3:
        return rng.choice([lo, hi, lo + 1, hi - 1, (lo + hi) // 2, (lo + hi) // 2 + 1, (lo + hi + 1) // 2 - 1])
    if r < 0.55:
        k = rng.choice([7, 8, 15, 16, 23, 24, 31])
        v = rng.choice([1, -1]) * ((1 << k) + rng.choice([-1, 0, 1]))
        return max(lo, min(hi, v))
    return rng.randint(lo, hi)


def wav_case(bits, channels, keep, samples, rate=44100, take=None, route="path", cut=0, riff=None, bad=None):
    c = {"entry": "wav", "bits": bits, "channels": channels, "keep": keep, "samples": samples,
         "rate": rate, "take": take, "route": route}
    if cut:
        c["cut"] = cut
    if riff:
        c["riff"] = riff
    if bad:
        c["bad"] = bad
    return c


RIFF_NAMES = ["LIST", "fact", "cue ", "junk", "bext", "id3 ", "PAD ", "DATA", "fmt_"]


def rand_riff(rng, wild=True):
    """deviations from the plain 44-byte-header file that the wave module itself cannot write"""
    r = {}
    for k in ("pre", "mid", "post"):
        if rng.random() < 0.45:
            r[k] = [[rng.choice(RIFF_NAMES), rng.choice([0, 1, 2, 3, 4, 7, 26])] for _ in range(rng.choice([1, 1, 2]))]
    x = rng.random()
    if x < 0.25:
        r["ext"] = True                                 # WAVE_FORMAT_EXTENSIBLE, PCM sub-format
    elif x < 0.5:
        r["fmt_extra"] = rng.choice([1, 2, 3, 22])
    if wild:
        x = rng.random()
        if x < 0.15:
            r["data_delta"] = rng.choice([1, 2, 3, 5, 1000])      # more declared than there is
        elif x < 0.3:
            r["data_delta"] = -rng.choice([1, 2, 3])              # less declared: the tail is not audio
        if rng.random() < 0.12:
            r["riff_delta"] = rng.choice([1, 8, 1000, -1, -2, -8, -20])
        if rng.random() < 0.1:
            r["no_data_pad"] = True
    return r or {"post": [["LIST", 4]]}


def generate(rng, tier, scale=1):
    cases = []
    quick = tier == "quick"
    # ---------------- chunks: grid ----------------
    if scale == 1:
        S, L = (9, 20)
        for fmt in "bhifd":
            for order in ORDERS:
                for size in range(1, S + 1):
                    for n in range(0, L + 1):
                        # thin the grid in the quick tier (every combination is still hit by some n)
                        if quick and (n + size + ORDERS.index(order)) % 3 != 0 and n not in (0, size - 1, size, size + 1):
                            continue
                        xs = rand_vals(rng, fmt, n)
                        pad = rand_vals(rng, fmt, 1)[0] if rng.random() < 0.7 else (0 if fmt in "bhi" else f2j(0.0))
                        for strategy in ("struct", "array"):
                            cases.append(chunk_case(fmt, order, size, xs, pad, strategy))
        # the other integer formats of the struct table: every format x byte-order spelling x strategy
        for fmt in MOREFMT:
            for order in ORDERS:
                for size in (1, 2, 3, 4):
                    for n in sorted({0, 1, size - 1, size, size + 1, 2 * size + 1}):
                        if quick and (n + size + ORDERS.index(order)) % 2:
                            continue
                        for strategy in ("struct", "array"):
                            cases.append(chunk_case(fmt, order, size, rand_vals(rng, fmt, n), rand_vals(rng, fmt, 1)[0],
                                                    strategy))
        # sizes at the limits of the formats (array fill) and the default-size route
        for size in (127, 128, 129, 200, 2048):
            for strategy in ("struct", "array"):
                cases.append(chunk_case("b", "omit", size, rand_vals(rng, "b", 3), 0, strategy))
                cases.append(chunk_case("h", ">", size, rand_vals(rng, "h", size + 1), -2, strategy))
        if not quick:
            cases.append(chunk_case("h", "<", 32769, [1, 2, 3], 0, "array"))
        # the extremes of every integer width (and their out-of-range neighbours) in EVERY position of the
        # sequence and as pad value, both strategies (theorems int_extremes, chunks_table_struct_eq_array,
        # chunks_stop_at_unstorable: struct.error vs OverflowError)
        k = 0
        for fmt in INTFMT:
            lo, hi = int_range(fmt)
            for size in (1, 2, 3):
                for n in range(1, 2 * size + 2):
                    for pos in range(n + 1):                       # pos == n: the pad value
                        for v, bad in ((lo, False), (hi, False), (lo - 1, True), (hi + 1, True)):
                            k += 1
                            if quick and (k + pos) % 3 and fmt not in "bhi":
                                continue
                            small = [(-1) ** i * (i + 1) if lo < 0 else i + 1 for i in range(n)]
                            xs = small[:pos] + [v] + small[pos + 1:] if pos < n else small
                            pad = v if pos == n else (lo if k % 2 else hi)
                            order = ORDERS[k % len(ORDERS)]
                            kw = {"malformed": "range"} if bad and (pos < n or n % size) else {}
                            if fmt in "lL" and order in STD_ORDERS and bad:
                                kw = {"malformed": "range"}
                            if k % 5 == 0:
                                kw["shape"] = "entry"
                            for strategy in ("struct", "array"):
                                cases.append(chunk_case(fmt, order, size, xs, pad, strategy, extreme=pos, **kw))
    nrand = (1500 if quick else 12000) * scale
    for _ in range(nrand):
        fmt = rng.choice("bhifd" if rng.random() < 0.6 else MOREFMT)
        size = rng.choice([1, 2, 3, rng.randint(1, 9), rng.randint(1, 40)])
        n = max(0, rng.choice([0, size - 1, size, size + 1, 2 * size, 3 * size - 1, rng.randint(0, 60)]))
        xs = rand_vals(rng, fmt, n)
        pad = rand_vals(rng, fmt, 1)[0]
        kw = {}
        r = rng.random()
        if r < 0.12:
            kw["size_route"] = "default"              # size=None -> chunks.size
        if fmt in "fd" and rng.random() < 0.15:
            pad = f2j(0.0)
            kw["pad_route"] = "default"               # padval omitted -> 0.
        if rng.random() < 0.4:
            kw["seq_route"] = rng.choice(["iter", "stream", "tuple", "gen", "endless", "endless"])
            if kw["seq_route"] == "endless":           # an endless source: only whole chunks are ever asked for
                xs = (xs + rand_vals(rng, fmt, size))[: max(1, len(xs) // size) * size]
        if fmt == "f" and rng.random() < 0.3:
            kw["dfmt_route"] = "default"               # dfmt omitted -> "f"
        kw["shape"] = rng.choice(["kw", "kw", "pos", "mixed", "entry"])
        strategy = rng.choice(["struct", "array"])
        cases.append(chunk_case(fmt, rng.choice(ORDERS), size, xs, pad, strategy, **kw))
    # malformed stream
    for _ in range((60 if quick else 600) * scale):
        fmt = rng.choice("bhi" + MOREFMT)
        size = rng.randint(1, 6)
        n = rng.randint(0, 14)
        xs = rand_vals(rng, fmt, n)
        pad = rand_vals(rng, fmt, 1)[0]
        kind = rng.choice(["range", "float-item", "float-pad", "default-pad", "frac-item", "frac-pad"])
        lo, hi = int_range(fmt)
        kw = {"malformed": kind}
        if kind == "range" and n:
            xs[rng.randrange(n)] = rng.choice([hi + 1, lo - 1, hi + rng.randint(1, 1000), 1 << 40, 1 << 64, -(1 << 63) - 1])
        elif kind == "float-item" and n:
            xs[rng.randrange(n)] = f2j(rng.choice([0.0, 1.5, -2.0]))
        elif kind == "float-pad":
            pad = f2j(rng.choice([0.0, 1.0]))
        elif kind == "frac-item" and n:
            xs[rng.randrange(n)] = frac2j(rng.choice([3, 1, 0]), rng.choice([1, 2]))     # even an integral Fraction
        elif kind == "frac-pad":
            pad = frac2j(rng.choice([0, 1]), 1)
        else:
            pad = f2j(0.0)
            kw["pad_route"] = "default"
        cases.append(chunk_case(fmt, rng.choice(ORDERS), size, xs, pad, rng.choice(["struct", "array"]), **kw))
    # ---------------- wav ----------------
    if scale == 1:
        for bits in (8, 16, 24, 32):
            lo, hi = wav_range(bits)
            ext = [lo, hi, lo + 1, hi - 1, 0, 1, 255 if bits == 8 else -1, 127, 128, 129]
            if bits > 8:
                ext += [-128, -129, 256, -256, -257, 1 << (bits - 9), -(1 << (bits - 9)), (1 << (bits - 8)) - 1,
                        -(1 << (bits - 8)), -(1 << (bits - 8)) - 1]
            for channels in (1, 2):
                for keep in (True, False):
                    for nf in range(0, 7):
                        n = nf * channels
                        samples = [ext[(i * 3 + nf + channels) % len(ext)] for i in range(n)]
                        for take in (None, 0, max(0, n - 1), n, n + 1):
                            if take is not None and (nf + (take or 0) + bits // 8) % 2 and quick:
                                continue
                            cases.append(wav_case(bits, channels, keep, samples, take=take,
                                                  route=("path", "fileobj", "wave")[(nf + channels + (take or 0)) % 3]))
                    # every extreme, one file
                    cases.append(wav_case(bits, channels, keep, ext[: len(ext) // channels * channels]))
        # how much of the file is read: a file object that counts the bytes its read() hands out
        for bits in (8, 16, 24, 32):
            lo, hi = wav_range(bits)
            for channels in (1, 2):
                for nf in (0, 1, 2, 4):
                    n = nf * channels
                    samples = [[lo, hi, 1, 0, hi - 1, lo + 1][i % 6] for i in range(n)]
                    for take in range(0, n + 3):
                        cases.append(wav_case(bits, channels, (take + nf) % 2 == 0, samples, take=take, route="counted"))
        cases.extend(generate_wavcall(rng, tier))
    for _ in range((500 if quick else 8000) * scale):
        bits = rng.choice([8, 16, 24, 32])
        channels = rng.choice([1, 2])
        nf = rng.choice([0, 1, 2, rng.randint(0, 12), rng.randint(0, 40)])
        n = nf * channels
        samples = [rand_sample(rng, bits) for _ in range(n)]
        take = None if rng.random() < 0.6 else rng.choice([0, 1, max(0, n - 1), n, n + 1, n + 5, rng.randint(0, n + 2)])
        rate = rng.choice([8000, 11025, 22050, 44100, 48000, 96000, 1, rng.randint(1, 400000)])
        cases.append(wav_case(bits, channels, rng.random() < 0.5, samples, rate=rate, take=take,
                              route=rng.choice(["path", "path", "fileobj", "wave"] + (["counted"] * 3 if take is not None else []))))
    for _ in range((24 if quick else 200) * scale):
        bits = rng.choice([8, 16, 24, 32])
        channels = rng.choice([3, 4])
        nf = rng.randint(0, 3)
        samples = [rand_sample(rng, bits) for _ in range(nf * channels)]
        cases.append(wav_case(bits, channels, rng.random() < 0.5, samples))
    for _ in range((40 if quick else 400) * scale):
        bits = rng.choice([16, 24, 32])
        channels = rng.choice([1, 2])
        nf = rng.randint(1, 6)
        samples = [rand_sample(rng, bits) for _ in range(nf * channels)]
        cut = rng.randint(1, bits // 8 * channels - 1)
        cases.append(wav_case(bits, channels, rng.random() < 0.5, samples, cut=cut))
    # files the wave module cannot write: extra chunks (LIST ...) around fmt / data, odd sizes, the extensible
    # format, header bits that are no multiple of 8 or no PCM width, declared sizes that lie, refused files
    if scale == 1:
        for bits in (8, 16, 24, 32):
            for channels in (1, 2):
                for k, riff in enumerate(({"pre": [["LIST", 3]]}, {"mid": [["fact", 4]], "post": [["LIST", 7]]},
                                          {"ext": True}, {"fmt_extra": 2}, {"post": [["id3 ", 1]], "no_data_pad": True})):
                    for nf in (0, 1, 3):
                        lo, hi = wav_range(bits)
                        samples = [[lo, hi, 1, hi - 1, lo + 1, 0][i % 6] for i in range(nf * channels)]
                        cases.append(wav_case(bits, channels, (k + nf) % 2 == 0, samples, riff=riff,
                                              route=("path", "fileobj", "wave")[(k + nf) % 3]))
        for bad in c18_res.BADS:
            cases.append(wav_case(16, 1, True, [1, 2], bad=bad))
    for _ in range((700 if quick else 4000) * scale):
        r = rng.random()
        bits = rng.choice([8, 16, 24, 32]) if r < 0.8 else rng.choice([1, 4, 7, 9, 12, 15, 17, 20, 23, 25, 31, 33, 40, 64])
        channels = rng.choice([1, 2]) if rng.random() < 0.9 else rng.choice([3, 4])
        nf = rng.choice([0, 1, 2, rng.randint(0, 12)])
        samples = [rand_sample(rng, 8 * ((bits + 7) // 8)) if (bits + 7) // 8 <= 4 else rng.randint(-2 ** 39, 2 ** 39 - 1)
                   for _ in range(nf * channels)]
        take = None if rng.random() < 0.7 else rng.randint(0, len(samples) + 2)
        cases.append(wav_case(bits, channels, rng.random() < 0.5, samples, take=take,
                              rate=rng.choice([8000, 44100, 1, rng.randint(1, 2 ** 32 - 1)]),
                              route=rng.choice(["path", "fileobj", "wave"] + (["counted"] if take is not None else [])),
                              riff=rand_riff(rng, wild=rng.random() < 0.5),
                              bad=rng.choice(c18_res.BADS) if rng.random() < 0.06 else None))
    cases.extend(generate_conc(rng, tier, scale))
    cases.extend(generate_res(rng, tier, scale))
    return cases


# ----------------------------------------------------------------------------------------------
_TMP = None


def _tmpdir():
    global _TMP
    if _TMP is None:
        _TMP = tempfile.mkdtemp(prefix="C18_wav_")
        import atexit, shutil
        atexit.register(shutil.rmtree, _TMP, True)
    return _TMP


def _kind(e):
    if isinstance(e, struct.error):
        return "struct.error"
    if isinstance(e, wave.Error):
        return "wave.Error"
    return err_kind(e)


def wav_file_bytes(c):
    """the complete RIFF file, produced by the standard wave module (or, for the variants the wave module
    cannot write, by the harness' own writer)"""
    if c.get("riff") or c.get("bad"):
        return c18_res.riff_bytes(c)
    buf = io.BytesIO()
    w = wave.open(buf, "wb")
    w.setnchannels(c["channels"])
    w.setsampwidth(c["bits"] // 8)
    w.setframerate(c["rate"])
    w.writeframes(pcm_bytes(c["bits"], c["samples"]))
    w.close()
    data = buf.getvalue()
    if c.get("cut"):
        data = data[: -c["cut"]]
    return data


def impl_wav(c):
    from audiolazy import WavStream
    blob = wav_file_bytes(c)
    route = c.get("route", "path")
    path = fobj = None
    obs = {}
    try:
        if route == "path":
            path = os.path.join(_tmpdir(), "f%d.wav" % (abs(hash(blob)) % 10 ** 9))
            with open(path, "wb") as f:
                f.write(blob)
            ws = WavStream(path, c["keep"])
            fobj = getattr(ws._file, "_i_opened_the_file", None)   # the OS-level file wave opened
        elif route == "counted":
            cf = _CountingFile(blob)
            ws = WavStream(cf, c["keep"])
            read0 = cf.handed
        elif route == "fileobj":
            ws = WavStream(io.BytesIO(blob), c["keep"])
        else:
            ws = WavStream(io.BytesIO(blob), keep=c["keep"]) if c["keep"] else WavStream(io.BytesIO(blob))
        obs["rate"], obs["channels"], obs["bits"] = ws.rate, ws.channels, ws.bits
        obs["open_before"] = ws._file.getfp() is not None and (fobj is None or not fobj.closed)
        out, err = [], None
        it = iter(ws)
        try:
            if c.get("take") is None:
                for x in it:
                    out.append(x)
            else:
                for x in itertools.islice(it, c["take"]):
                    out.append(x)
        except Exception as e:
            err = _kind(e)
        kinds = sorted({type(x).__name__ for x in out})
        obs["kind"] = "none" if not kinds else (kinds[0] if len(kinds) == 1 else "mixed:" + ",".join(kinds))
        obs["out"] = [enc(x) for x in out]
        obs["err"] = err
        closed = ws._file.getfp() is None
        if fobj is not None:
            closed = closed and fobj.closed
        obs["closed"] = closed
        if route == "counted":
            obs["read"] = cf.handed - read0          # bytes taken from the file by the next() calls alone
    except Exception as e:
        return {"err": "open:" + _kind(e)}
    finally:
        if fobj is not None and not fobj.closed:
            fobj.close()
        if path is not None:
            try:
                os.remove(path)
            except OSError:
                pass
    return obs


class _CountingFile(io.BytesIO):
    """a file object that counts the bytes its read() hands out (what the reader chain takes from the file)"""
    def __init__(self, blob):
        io.BytesIO.__init__(self, blob)
        self.handed = 0

    def read(self, *a):
        r = io.BytesIO.read(self, *a)
        self.handed += len(r)
        return r


class _Counted(object):
    """an iterable that counts what was pulled from it; endless: `xs` then its last item for ever"""
    def __init__(self, xs, endless):
        self.xs, self.endless, self.pulled = xs, endless, 0

    def __iter__(self):
        for x in self.xs:
            self.pulled += 1
            yield x
        while self.endless:
            self.pulled += 1
            yield self.xs[-1] if self.xs else 0


def impl_chunks(c):
    from audiolazy import chunks, Stream
    f = chunks.struct if c["strategy"] == "struct" else chunks.array
    shape = c.get("shape", "kw")
    old_default = chunks.default
    if shape == "entry":
        # the StrategyDict itself, with `chunks.default` pointing to the strategy of the case (the docstring's
        # hint `chunks.default = chunks.array`); restored below
        f = chunks
    xs = [j2v(x) for x in c["xs"]]
    sr = c.get("seq_route")
    counted = None
    if sr in ("gen", "endless"):
        counted = _Counted(xs, sr == "endless")
        seq = iter(counted)
    else:
        seq = iter(xs) if sr == "iter" else Stream(xs) if sr == "stream" else tuple(xs) if sr == "tuple" else xs
    given = {}
    if c.get("dfmt_route") != "default":
        given["dfmt"] = c["fmt"]
    if c["order"] != "omit":
        given["byte_order"] = c["order"]
    if c.get("pad_route") != "default":
        given["padval"] = j2v(c["pad"])
    old = chunks.size
    out, raw, err, msg = [], [], None, None
    try:
        if shape == "entry":
            chunks.default = chunks.struct if c["strategy"] == "struct" else chunks.array
        if c.get("size_route") == "default":
            chunks.size = c["size"]
        else:
            given["size"] = c["size"]
        # call shape: keywords / as many positionals as the given parameters allow / the first one positional
        names = ["size", "dfmt", "byte_order", "padval"]
        npos = 0
        if shape in ("pos", "mixed"):
            while npos < len(names) and names[npos] in given and (shape == "pos" or npos < 1):
                npos += 1
        args = [given[k] for k in names[:npos]]
        kw = {k: v for k, v in given.items() if k not in names[:npos]}
        try:
            g = f(seq, *args, **kw)
            if sr == "endless":
                g = itertools.islice(g, len(xs) // c["size"])
            for ch in g:
                raw.append(ch)
                out.append(list(bytes(ch)))
        except Exception as e:
            err, msg = _kind(e), str(e)[:100]
    finally:
        chunks.size = old
        chunks.default = old_default
    # the chunks are read again once the generator is finished (what b"".join(chunks(...)) sees)
    aliased = any(list(bytes(r)) != o for r, o in zip(raw, out))
    o = {"out": out, "err": err, "msg": msg, "aliased": aliased}
    if counted is not None:
        o["pulled"] = counted.pulled
    return o


# ---------------------------------------------------------------------------------------------------
# the CALL WavStream(wave_file, keep=False): every shape of the call, every spelling of keep
# ---------------------------------------------------------------------------------------------------
KEEP_SPELLINGS = [("True", True), ("False", False), ("1", 1), ("0", 0), ("2", 2), ("-1", -1), ("None", None),
                  ("''", {"s": ""}), ("'x'", {"s": "x"}), ("'False'", {"s": "False"}), ("[]", {"list": 0}),
                  ("[0]", {"list": 1}), ("0.0", f2j(0.0)), ("-0.0", f2j(-0.0)), ("0.5", f2j(0.5)),
                  ("nan", f2j(float("nan")))]


def _pyv(j):
    if j == "FILE":
        raise ValueError
    if isinstance(j, dict):
        if "s" in j:
            return j["s"]
        if "list" in j:
            return [0] * j["list"]
        return j2v(j)
    return j


def generate_wavcall(rng, tier):
    """shapes: the file positionally / as wave_file=, keep positionally (SECOND parameter) / as keep= / omitted,
    and the calls Python must refuse (three positionals, keep twice, no file, an unknown keyword)"""
    out = []
    i = 0
    for name, v in KEEP_SPELLINGS:
        for shape, pos, kw in (("pos", ["FILE", v], []), ("kw", ["FILE"], [["keep", v]]),
                               ("kw-both", [], [["wave_file", "FILE"], ["keep", v]]),
                               ("kw-both-rev", [], [["keep", v], ["wave_file", "FILE"]]),
                               ("three-pos", ["FILE", v, v], []), ("keep-twice", ["FILE", v], [["keep", v]]),
                               ("no-file", [], [["keep", v]]), ("unknown-kw:Keep", ["FILE"], [["Keep", v]]),
                               ("unknown-kw:keeps", ["FILE"], [["keeps", v]])):
            i += 1
            bits = (8, 16, 24, 32)[i % 4]
            ch = 1 + (i // 4) % 2
            lo, hi = wav_range(bits)
            out.append({"entry": "wavcall", "bits": bits, "channels": ch, "rate": 8000,
                        "samples": [lo, hi, 1, hi - 1][: 2 * ch], "pos": pos, "kw": kw, "shape": shape,
                        "spelling": name})
    for shape, pos, kw in (("omitted", ["FILE"], []), ("omitted-kw", [], [["wave_file", "FILE"]])):
        for bits in (8, 16, 24, 32):
            lo, hi = wav_range(bits)
            out.append({"entry": "wavcall", "bits": bits, "channels": 2, "rate": 8000,
                        "samples": [lo, hi, 1, hi - 1], "pos": pos, "kw": kw, "shape": shape})
    return out


def impl_wavcall(c):
    from audiolazy import WavStream
    blob = wav_file_bytes(dict(c, keep=False))
    f = io.BytesIO(blob)
    pos = [f if v == "FILE" else _pyv(v) for v in c["pos"]]
    kw = {k: (f if v == "FILE" else _pyv(v)) for k, v in c["kw"]}
    try:
        ws = WavStream(*pos, **kw)
    except TypeError:
        return {"err": "TypeError"}
    except Exception as e:
        return {"err": "open:" + _kind(e)}
    out, err = [], None
    try:
        for x in ws:
            out.append(x)
    except Exception as e:
        err = _kind(e)
    kinds = sorted({type(x).__name__ for x in out})
    return {"out": [enc(x) for x in out], "gen_err": err, "rate": ws.rate, "channels": ws.channels, "bits": ws.bits,
            "kind": "none" if not kinds else (kinds[0] if len(kinds) == 1 else "mixed:" + ",".join(kinds))}


def compare_wavcall(c, io_, drv):
    out = []
    if "err" in io_ or "err" in drv:
        if io_.get("err") != drv.get("err"):
            out.append(("model", "WavStream(%s): impl=%s model=%s" % (c["shape"], io_.get("err") or "a stream",
                                                                       drv.get("err") or "a stream")))
        if io_.get("err") and c["shape"] in ("pos", "kw", "kw-both", "kw-both-rev", "omitted", "omitted-kw"):
            out.append(("spec", "a call that gives the file and keep as the signature (wave_file, keep=False) "
                        "allows was refused: %s" % io_["err"]))
        return out
    for k in ("out", "gen_err", "kind", "rate", "channels", "bits"):
        if io_[k] != drv[k]:
            out.append(("model", "WavStream(%s, keep spelled %s): %s impl=%s model=%s" % (
                c["shape"], c.get("spelling"), k, _s(io_[k]), _s(drv[k]))))
    # the property, with Python's own truth value of what was passed as the oracle
    passed = [v for v in c["pos"][1:2]] + [v for k, v in c["kw"] if k == "keep"]
    keep = bool(_pyv(passed[0])) if passed else False
    want = [enc(s) for s in c["samples"]] if keep else [
        enc(Fraction(s - 128 if c["bits"] == 8 else s, 1 << (c["bits"] - 1))) for s in c["samples"]]
    if io_["out"] != want or io_["kind"] != ("int" if keep else "float"):
        out.append(("spec", "WavStream(%s) with keep spelled %s (%s): yields %s (%s), the stored integers%s are %s" % (
            c["shape"], c.get("spelling"), "truthy" if keep else "falsy", _s(io_["out"]), io_["kind"],
            "" if keep else " normalised", _s(want))))
    return out


def impl(c):
    if c["entry"] == "conc":
        return impl_conc(c)
    if c["entry"] == "wavcall":
        return impl_wavcall(c)
    if c["entry"] == "res":
        return c18_res.impl_res(c, _tmpdir(), _kind, enc)
    return impl_wav(c) if c["entry"] == "wav" else impl_chunks(c)


def request(c):
    if c["entry"] == "conc":
        return {"entry": "conc", "gens": [request(conc_single(c, i)) for i in range(len(c["gens"]))]}
    if c["entry"] == "res":
        return request_res(c)
    if c["entry"] == "chunks":
        # the byte order goes to the model AS SPELLED (omit / None / "@" / "=" / "<" / ">" / "!"): what it means
        # (OrderArg.order, OrderArg.std, resolveOrder) is the model's business (theorem byte_order_spellings)
        return {"entry": "chunks", "fmt": c["fmt"], "native": NATIVE, "order": c["order"], "long": LONG,
                "size": c["size"], "pad": c["pad"], "xs": c["xs"], "default": c["strategy"]}
    if c["entry"] == "wavcall":
        return {"entry": "wavcall", "bits": c["bits"], "channels": c["channels"], "rate": c["rate"],
                "data": list(pcm_bytes(c["bits"], c["samples"])), "pos": c["pos"], "kw": [{"k": k, "v": v} for k, v in c["kw"]]}
    if c.get("riff") or c.get("bad"):
        # the Lean RIFF reader gets the bytes of the file and finds header and data chunk itself
        r = {"entry": "wav", "bits": c["bits"], "keep": c["keep"], "take": c.get("take"),
             "file": list(c18_res.riff_bytes(c))}
        if c18_res.in_property(c):
            r["samples"] = c["samples"]
        return r
    data = pcm_bytes(c["bits"], c["samples"])
    if c.get("cut"):
        data = data[: -c["cut"]]
    r = {"entry": "wav", "bits": c["bits"], "channels": c["channels"], "rate": c["rate"],
         "keep": c["keep"], "data": list(data), "take": c.get("take")}
    if not c.get("cut") and c["channels"] in (1, 2):
        r["samples"] = c["samples"]             # inside the property's quantifier: compare with the spec
    return r


def python_pack(c):
    """the padded sequence packed by Python's own struct, or None when struct refuses"""
    xs = [j2v(x) for x in c["xs"]]
    pad = j2v(c["pad"])
    n = (-len(xs)) % c["size"]
    allv = xs + [pad] * n
    o = c["order"]
    prefix = "" if o in ("omit", None) else o
    try:
        return struct.pack("%s%d%s" % (prefix, len(allv), c["fmt"]), *allv)
    except (struct.error, OverflowError):
        return None


def compare(c, io_, drv):
    out = []
    if c["entry"] == "conc":
        return compare_conc(c, io_, drv)
    if c["entry"] == "res":
        return c18_res.compare_res(c, io_, drv, enc, common.dec)
    if c["entry"] == "wavcall":
        return compare_wavcall(c, io_, drv)
    if c["entry"] == "chunks":
        if io_.get("aliased"):
            out.append(("spec", "a chunk of chunks.%s changed after it was yielded (the generator reuses the "
                        "object it yields)" % c["strategy"]))
        # through the StrategyDict entry the model is chunksEntry with chunks.default = the case's strategy
        m = drv["dict_entry"] if c.get("shape") == "entry" else drv[c["strategy"]]
        sp = drv["spec"] if c["strategy"] == "struct" else drv["spec_array"]
        if io_["out"] != m["out"] or io_["err"] != m["err"]:
            out.append(("model", "chunks.%s differs from the model: impl=%s/%s model=%s/%s" % (
                c["strategy"], _s(io_["out"]), io_["err"], _s(m["out"]), m["err"])))
        if io_["out"] != sp["out"] or (io_["err"] is None) != (sp["err"] is None):
            out.append(("spec", "chunks.%s differs from the spec: impl=%s/%s spec=%s/%s" % (
                c["strategy"], _s(io_["out"]), io_["err"], _s(sp["out"]), sp["err"])))
        elif sp["err"] is None:
            # the property in its own words, against Python's struct
            w = drv["width"] if c["strategy"] == "struct" else drv["awidth"]
            flat = bytes(b for ch in io_["out"] for b in ch)
            # l / L under a standard-size prefix: 4 bytes for struct, the machine's long in an array (the
            # docstring's "dfmt symbols for arrays might differ"): outside the property's formats, model only
            ref = python_pack(c) if drv["width"] == drv["awidth"] else None
            if "pulled" in io_ and io_["pulled"] != len(c["xs"]) + (0 if c.get("seq_route") == "endless" else 0):
                out.append(("model", "the generator pulled %d items from its source for %d chunks of %d" % (
                    io_["pulled"], len(io_["out"]), c["size"])))
            if any(len(ch) != c["size"] * w for ch in io_["out"]):
                out.append(("spec", "a chunk is not size*width bytes"))
            elif ref is not None and flat != ref:
                out.append(("spec", "concatenated chunks differ from struct.pack of the padded sequence"))
            elif ref is None and not c.get("malformed") and c["strategy"] == "struct" and drv["width"] == drv["awidth"]:
                out.append(("spec", "struct refuses the padded sequence but chunks succeeded"))
        return out
    # wav
    if "open_err" in drv or "out" not in io_:
        a, b = io_.get("err") if "out" not in io_ else None, drv.get("open_err")
        if a == ("open:" + b if b else None):
            return []
        return [("model", "opening the file: impl=%s, the Lean RIFF reader=%s" % (a, b))] + (
            [("spec", "a well-formed file could not be opened")] if c18_res.in_property(c) else [])
    m = drv["model"]
    take = c.get("take")
    mo = m["out"] if take is None else m["out"][:take]
    merr = m["err"] if take is None or take > len(m["out"]) else None
    if io_["out"] != mo or io_["err"] != merr or (mo and io_["kind"] != m["kind"]):
        out.append(("model", "samples differ from the model: impl=%s/%s/%s model=%s/%s/%s" % (
            _s(io_["out"]), io_["err"], io_["kind"], _s(mo), merr, m["kind"])))
    if [io_["rate"], io_["channels"], io_["bits"]] != [m["rate"], m["channels"], m["bits"]]:
        out.append(("model", "header attributes differ from the model"))
    if "lazy" in drv and io_["err"] is None and merr is None:
        lz = drv["lazy"]
        if len(io_["out"]) != lz["taken"] or io_["closed"] != lz["closed"]:
            out.append(("model", "taken/closed differ from the model: impl=%d/%s model=%d/%s" % (
                len(io_["out"]), io_["closed"], lz["taken"], lz["closed"])))
        if "read" in io_:
            # the alignment byte of an odd-sized data chunk goes along with its last frame when the file has one
            if not (lz["read"] <= io_["read"] <= lz["read"] + lz["align"]):
                out.append(("model", "bytes taken from the file by %d next() calls: impl=%d model=%d (+%d)" % (
                    take, io_["read"], lz["read"], lz["align"])))
            if "spec" in drv and not (lz["spec_read"] <= io_["read"] <= lz["spec_read"] + lz["align"]):
                out.append(("spec", "bytes taken from the file by %d next() calls: impl=%d, needed (whole frames of "
                            "the samples handed out)=%d (+%d alignment byte)" % (take, io_["read"], lz["spec_read"],
                                                                                  lz["align"])))
    if "spec_any" in drv and "spec" in drv:
        sa = drv["spec_any"]
        sao = sa["out"] if take is None else sa["out"][:take]
        if io_["out"] != sao or (sao and io_["kind"] != sa["kind"]):
            out.append(("spec", "samples differ from the decoded data chunk (storedValue): impl=%s spec=%s" % (
                _s(io_["out"]), _s(sao))))
    if "spec" in drv:
        sp = drv["spec"]
        so = sp["out"] if take is None else sp["out"][:take]
        if not sp["valid"]:
            raise common.InfraError("C18 generator produced a sample outside the stored range: %r" % (c,))
        if bytes(sp["enc"]) != pcm_bytes(c["bits"], c["samples"]):
            out.append(("model", "Lean pcmData differs from the bytes written to the file"))
        if io_["out"] != so or io_["err"] is not None or (so and io_["kind"] != sp["kind"]):
            out.append(("spec", "samples differ from the spec: impl=%s/%s/%s spec=%s/%s" % (
                _s(io_["out"]), io_["err"], io_["kind"], _s(so), sp["kind"])))
        if [io_["rate"], io_["channels"], io_["bits"]] != [c["rate"], c["channels"], c["bits"]]:
            out.append(("spec", "rate/channels/bits do not mirror the header: %r" % (
                [io_["rate"], io_["channels"], io_["bits"]],)))
        if not io_["open_before"]:
            out.append(("spec", "file not open before reading"))
        if io_["err"] is None:
            n = len(c["samples"])
            # the property: closed once the stream is exhausted (StopIteration seen: k > n).  That it
            # is still open before that is compared with the model only (above), not demanded here.
            if (take is None or take > n) and not io_["closed"]:
                out.append(("spec", "file still open after the stream was exhausted (%s next() calls on %d samples)" % (
                    "all" if take is None else take, n)))
            if not c["keep"] and any(not (-1 <= common.dec(x) < 1) for x in io_["out"]):
                out.append(("spec", "normalised sample outside [-1,1)"))
    return out


def _s(x, n=160):
    s = str(x)
    return s if len(s) <= n else s[:n] + "..."


def nontrivial(c, io_):
    if c["entry"] == "wavcall":
        return bool(c["samples"])
    if c["entry"] == "conc":
        return len(c["gens"]) >= 2 and any(nontrivial(conc_single(c, i), None) for i in range(len(c["gens"])))
    if c["entry"] == "res":
        return bool(c["events"])
    return bool(c["xs"]) if c["entry"] == "chunks" else bool(c["samples"])


def tally(eng, c, io_):
    eng.count("entry", c["entry"])
    if c["entry"] == "wavcall":
        eng.count("wavcall.shape", c["shape"])
        eng.count("wavcall.keep_spelling", c.get("spelling", "-"))
        eng.count("wavcall.outcome", io_.get("err") or io_.get("kind"))
        return
    if c["entry"] == "conc":
        return tally_conc(eng, c, io_)
    if c["entry"] == "res":
        return tally_res(eng, c, io_)
    if c["entry"] == "chunks":
        eng.count("chunks.strategy", c["strategy"])
        eng.count("chunks.fmt", c["fmt"])
        eng.count("chunks.order", str(c["order"]))
        eng.count("chunks.size", c["size"] if c["size"] <= 9 else "10+")
        n = len(c["xs"])
        eng.count("chunks.padding", "empty" if n == 0 else "none" if n % c["size"] == 0 else "padded")
        eng.count("chunks.n_chunks", min(len(io_.get("out", [])), 8))
        eng.count("chunks.impl_err", str(io_.get("err")))
        eng.count("chunks.regime", "malformed:" + c["malformed"] if c.get("malformed") else
                  ("int-exact" if c["fmt"] in INTFMT else "ieee-bytes-exact"))
        for k in ("size_route", "pad_route", "seq_route", "dfmt_route"):
            if c.get(k):
                eng.count("chunks.route", k + "=" + c[k])
        eng.count("chunks.call_shape", c.get("shape", "kw"))
        if c.get("shape") == "entry":
            eng.count("chunks.dict_entry(chunks.default)", c["strategy"])
        if "extreme" in c:
            eng.count("chunks.extreme_position", "pad" if c["extreme"] == len(c["xs"]) else
                      "whole-chunk" if c["extreme"] < len(c["xs"]) // c["size"] * c["size"] else "partial-tail")
            eng.count("chunks.extreme_outcome", "%s:%s" % (c["strategy"], io_.get("err")))
        sp = {"int": 0, "float": 0, "bool": 0, "Fraction": 0}
        for v in list(c["xs"]) + [c["pad"]]:
            sp["int" if isinstance(v, int) else "bool" if "b" in v else "Fraction" if "q" in v else "float"] += 1
        for k, v in sp.items():
            if v:
                eng.count("chunks.value_spelling(cases having)", k)
        eng.count("chunks.long_format_width", "n/a" if c["fmt"] not in "lL" else
                  "std-prefix:struct4/array%d" % LONG if c["order"] in STD_ORDERS else "native:%d" % LONG)
        if c["fmt"] in INTFMT:
            lo, hi = int_range(c["fmt"])
            vs = [v for v in c["xs"] if isinstance(v, int)]
            eng.count("chunks.has_extreme", bool(vs) and (lo in vs or hi in vs))
            eng.count("chunks.has_negative", any(v < 0 for v in vs))
    else:
        eng.count("wav.bits", c["bits"])
        eng.count("wav.channels", c["channels"])
        eng.count("wav.keep", c["keep"])
        eng.count("wav.route", c.get("route", "path"))
        n = len(c["samples"])
        eng.count("wav.samples", n if n < 5 else "5-19" if n < 20 else "20+")
        t = c.get("take")
        eng.count("wav.take", "all" if t is None else "k<n" if t < n else "k=n" if t == n else "k>n")
        lo, hi = wav_range(c["bits"])
        eng.count("wav.has_min", lo in c["samples"])
        eng.count("wav.has_max", hi in c["samples"])
        eng.count("wav.has_negative", any(s < 0 for s in c["samples"]))
        eng.count("wav.truncated", bool(c.get("cut")))
        eng.count("wav.malformed", "truncated" if c.get("cut") else "channels>2" if c["channels"] > 2 else "no")
        r = c.get("riff") or {}
        eng.count("wav.writer", "own RIFF writer" if (c.get("riff") or c.get("bad")) else "wave module")
        for k in sorted(r):
            eng.count("wav.riff_variant", k if k not in ("data_delta", "riff_delta") else k + (">0" if r[k] > 0 else "<0"))
        if c.get("bad"):
            eng.count("wav.refused_file", c["bad"])
        eng.count("wav.header_bits", c["bits"] if c["bits"] in (8, 16, 24, 32) else
                  "odd->%d" % (8 * ((c["bits"] + 7) // 8)))
        eng.count("wav.impl_err", str(io_.get("err")))
        eng.count("wav.regime", "int-exact" if c["keep"] else "dyadic-float-exact")


def shrink(c):
    if c["entry"] == "wavcall":
        if len(c["samples"]) > c["channels"]:
            yield dict(c, samples=c["samples"][: c["channels"]])
        return
    if c["entry"] == "conc":
        for d in shrink_conc(c):
            yield d
        return
    if c["entry"] == "res":
        for d in shrink_res(c):
            yield d
        return
    if c["entry"] == "chunks":
        xs = c["xs"]
        if xs:
            yield dict(c, xs=xs[:-1])
            yield dict(c, xs=xs[1:])
            if c["fmt"] in INTFMT:
                for i, v in enumerate(xs):
                    if isinstance(v, int) and v not in (0, 1):
                        for nv in (1, -1, int(v / 2)):
                            if nv != v and abs(nv) <= abs(v):
                                yield dict(c, xs=xs[:i] + [nv] + xs[i + 1:])
            else:
                for i, v in enumerate(xs):
                    if v != 1:
                        yield dict(c, xs=xs[:i] + [1] + xs[i + 1:])
        if c["size"] > 1:
            yield dict(c, size=c["size"] - 1)
            yield dict(c, size=(c["size"] + 1) // 2)
        for k in ("size_route", "pad_route", "seq_route", "dfmt_route", "shape"):
            if c.get(k) and not (k == "pad_route" and c.get("malformed")) and not (
                    k == "seq_route" and c[k] == "endless" and len(c["xs"]) % c["size"]):
                d = dict(c)
                d.pop(k)
                yield d
        if c["order"] not in ("<", ">") and c["order"] != "omit":
            yield dict(c, order="omit")
        if c["pad"] not in (0, 1) and isinstance(c["pad"], int):
            yield dict(c, pad=1)
        if isinstance(c["pad"], dict) and c.get("pad_route") != "default" and c["fmt"] in "fd":
            yield dict(c, pad=1)
    else:
        s, ch = c["samples"], c["channels"]
        if s:
            yield dict(c, samples=s[:-ch])
            yield dict(c, samples=s[ch:])
            lo, hi = wav_range(c["bits"])
            for i, v in enumerate(s):
                for nv in (1, -1, int(v / 2), lo, hi):
                    if nv != v and lo <= nv <= hi and abs(nv) <= abs(v) and v not in (0, 1):
                        yield dict(c, samples=s[:i] + [nv] + s[i + 1:])
        if c.get("take") is not None:
            yield dict(c, take=None)
            if c["take"] > 0:
                yield dict(c, take=c["take"] - 1)
        if c.get("route", "path") not in ("path", "counted"):
            yield dict(c, route="path")
        if c["rate"] != 8000:
            yield dict(c, rate=8000)


def neighbours(c):
    if c["entry"] == "wavcall":
        for d in generate_wavcall(None, "quick"):
            if d["shape"] == c["shape"]:
                yield dict(d, bits=c["bits"], channels=c["channels"], samples=c["samples"])
        return
    if c["entry"] == "res":
        for src in c18_res.SOURCES:
            yield dict(c, source=src)
        yield dict(c, spy=not c.get("spy", True))
        n = len(c["samples"])
        for ev in (["n"] * (n + 1), ["n"] * (n + 2) + ["c"], ["n", "c"], ["c"]):
            yield dict(c, events=ev)
        return
    if c["entry"] == "conc":
        for i, g in enumerate(c["gens"]):
            if g["entry"] == "chunks":
                yield _with_gen(c, i, dict(g, strategy="array" if g["strategy"] == "struct" else "struct"))
        yield dict(c, drain=not c.get("drain"))
        yield dict(c, schedule=c["schedule"] + list(range(len(c["gens"]))) * 2)
        return
    if c["entry"] == "chunks":
        for ds in (-1, 0, 1):
            for dn in (-1, 0, 1):
                s, n = c["size"] + ds, len(c["xs"]) + dn
                if s >= 1 and n >= 0:
                    xs = (c["xs"] + c["xs"][-1:] * 2)[:n] if c["xs"] else [1] * n
                    for strategy in ("struct", "array"):
                        yield dict(c, size=s, xs=xs, strategy=strategy)
        for o in ORDERS:
            yield dict(c, order=o)
    else:
        for keep in (True, False):
            for ch in (1, 2):
                s = c["samples"]
                s = s[: len(s) // ch * ch]
                yield dict(c, keep=keep, channels=ch, samples=s, take=None)
        for t in (0, len(c["samples"]), len(c["samples"]) + 1):
            yield dict(c, take=t)


def classify(c, io_, drv):
    if c["entry"] == "wavcall":
        return "wavcall:%s:%s" % (c["shape"], io_.get("err") or io_.get("kind"))
    if c["entry"] == "conc":
        return classify_conc(c, io_, drv)
    if c["entry"] == "res":
        return classify_res(c, io_, drv)
    if c["entry"] == "chunks":
        if io_.get("aliased"):
            return "chunks.%s:%s:chunk-mutated-after-yield" % (c["strategy"], c["fmt"])
        st = c["strategy"]
        sp = drv["spec"] if st == "struct" else drv["spec_array"]
        err = io_.get("err")
        if st == "array" and err == "AttributeError" and "tostring" in (io_.get("msg") or ""):
            return "chunks.array:export:AttributeError-no-tostring"
        if (st == "array" and err == "OverflowError" and sp["err"] is None and not io_["out"]
                and c["fmt"] in "bhi" and c["size"] - 1 > int_range(c["fmt"])[1]):
            return "chunks.array:working-array-filled-with-xrange(size):OverflowError"
        if err is not None and sp["err"] is None:
            return "chunks.%s:%s:unexpected-%s" % (st, c["fmt"], err)
        if err is None and sp["err"] is not None:
            return "chunks.%s:%s:missing-error" % (st, c["fmt"])
        if len(io_["out"]) != len(sp["out"]):
            return "chunks.%s:%s:chunk-count" % (st, c["fmt"])
        if any(len(a) != len(b) for a, b in zip(io_["out"], sp["out"])):
            return "chunks.%s:%s:chunk-length" % (st, c["fmt"])
        if io_["out"] != sp["out"]:
            same_sorted = all(sorted(a) == sorted(b) for a, b in zip(io_["out"], sp["out"]))
            return "chunks.%s:%s:%s" % (st, c["fmt"], "byte-order" if same_sorted else "bytes-differ")
        return "chunks.%s:%s:other" % (st, c["fmt"])
    if "out" not in io_:
        return "wav:%d:open-%s" % (c["bits"], io_.get("err"))
    tag = "wav:%dbit:%s" % (c["bits"], "keep" if c["keep"] else "norm")
    if io_.get("err"):
        return tag + ":" + io_["err"]
    sp = drv.get("spec")
    if sp is not None:
        take = c.get("take")
        so = sp["out"] if take is None else sp["out"][:take]
        if io_["out"] != so:
            return tag + ":values"
        if [io_["rate"], io_["channels"], io_["bits"]] != [c["rate"], c["channels"], c["bits"]]:
            return "wav:header"
        return "wav:closed-state"
    return tag + ":model-only"


def regenerate(eng=None):
    """rewrite lean/ALV/Gen/C18Src.lean from lazy_wav.py / lazy_io.py of the repo under test (translator c18_tr); the
    theorems src_*_is_model of Props/C18.lean are then re-checked against what the source says now"""
    return c18_tr.regenerate(eng)


def _translator_checks(eng):
    if eng is not None and hasattr(eng, "extra"):
        eng.extra["translated"] = {
            "translator": "harness/props/c18_tr.py -> lean/ALV/Gen/C18Src.lean",
            "under_translator": [{"function": f, "how": h} for f, h in c18_tr.TRANSLATED],
            "not_translated": [{"function": f, "why": h} for f, h in c18_tr.NOT_TRANSLATED],
        }
    for item in c18_tr.selftest(base=c18_tr.committed() if common.REPO == "/repo" else None):
        yield item
    # the file the build used is the translation of the source as it is now (or the build was given the last good one)
    try:
        text, _ = c18_tr.translate(*c18_tr.read_source())
        cur = open(os.path.join(common.LEAN, c18_tr.GEN_REL)).read()
        yield ("translator: Gen/C18Src.lean on disk = translation of the source under test", text == cur, "differs")
    except Exception as ex:   # noqa
        yield ("translator: the source under test translates", False, "%s: %s" % (type(ex).__name__, str(ex)[:300]))


def extra_checks(eng):
    """the translator's self-test; platform assumptions of the model: the array item sizes and the native struct sizes of the five
    formats are the standard ones, and the machine order is one of the two modelled"""
    import array
    for item in _translator_checks(eng):
        yield item
    ok = all(struct.calcsize(p + f) == WIDTH[f] for f in "bhifd" for p in ("", "@", "=", "<", ">", "!"))
    yield ("struct-sizes-standard", ok, "struct.calcsize of b h i f d is not 1 2 4 4 8 on this machine")
    ok = all(array.array(f).itemsize == WIDTH[f] for f in "bhifd")
    yield ("array-itemsizes-standard", ok, "array.array itemsize of b h i f d is not 1 2 4 4 8 on this machine")
    yield ("byteorder-known", sys.byteorder in ("little", "big"), "sys.byteorder=%r" % (sys.byteorder,))
    ok = array.array("l").itemsize == LONG and all(struct.calcsize(p + f) == 4 for f in "lL" for p in STD_ORDERS) \
        and all(struct.calcsize(p + f) == WIDTH[f] == array.array(f).itemsize for f in "BHIqQ" for p in ("", "@", "=", "<", ">", "!"))
    yield ("struct-array-sizes-other-formats", ok, "sizes of B H I q Q l L are not the modelled ones")
    # the harness' own RIFF writer writes what the wave module writes (plain files)
    bad = []
    for bits in (8, 16, 24, 32):
        for ch in (1, 2):
            c = wav_case(bits, ch, True, [1, 2, 3, 4], rate=22050)
            if wav_file_bytes(c) != c18_res.riff_bytes(c):
                bad.append((bits, ch))
    yield ("own-riff-writer-equals-wave-module", not bad, "plain files differ for %r" % (bad,))
    # the observer of the res cases sees a descriptor appear and disappear
    path = os.path.realpath(os.path.join(_tmpdir(), "probe.bin"))
    f = open(path, "wb")
    seen = path in c18_res.fd_targets().values()
    f.close()
    gone = path not in c18_res.fd_targets().values()
    os.remove(path)
    yield ("proc-self-fd-observer", seen and gone, "/proc/self/fd does not show an open file (seen=%s gone=%s)" % (seen, gone))


# ==============================================================================================
# concurrent cases: several generators alive at once, each compared with the model of itself alone
# ==============================================================================================
#   {"entry": "conc", "gens": [G0, G1, ...], "schedule": [i, j, i, ...], "drain": bool}
# Gk is a chunks case or a wav case (same fields as the single cases).  Every schedule item is one
# next() on that generator; with "drain" the generators are then exhausted in index order, without it
# they stay partially consumed.  A chunks member may carry a re-entrant source
#   "src": {"kind": "hook", "at": [[k, j], ...]}       before handing out its k-th item (k = len(xs): before
#                                                       StopIteration) the source advances generator j once
#   "src": {"kind": "rechunk", "from": j, "header": [...]}   the source is header ++ the decoded chunks of
#                                                       generator j, pulled lazily (its own "xs" is unused)
# References only go to higher indices (no cycles).  WavStreams with route "path" and identical file
# bytes read the same file on disk.

def conc_case(gens, schedule, drain=True):
    return {"entry": "conc", "gens": gens, "schedule": schedule, "drain": drain}


def _prefix(order):
    return "" if order in ("omit", None) else order


def _packable_ints(g):
    """an integer-format chunks member whose items and padval all pack (its chunks can be decoded and re-fed)"""
    if g["fmt"] not in "bhi" or g.get("malformed"):
        return False
    lo, hi = int_range(g["fmt"])
    return all(isinstance(v, int) and lo <= v <= hi for v in list(g["xs"]) + [g["pad"]])


def _links(c):
    """normalised sources (None = plain), ignoring references that are not allowed"""
    gens = c["gens"]
    n = len(gens)
    out, taken = [], set()
    for i, g in enumerate(gens):
        src = g.get("src") if g["entry"] == "chunks" else None
        if not src:
            out.append(None)
        elif src["kind"] == "hook":
            at = [[k, j] for k, j in src["at"] if i < j < n and 0 <= k <= len(g["xs"])]
            out.append({"kind": "hook", "at": at} if at else None)
        else:
            j = src["from"]
            ok = i < j < n and j not in taken and gens[j]["entry"] == "chunks" and _packable_ints(gens[j])
            if ok:
                taken.add(j)
                out.append({"kind": "rechunk", "from": j, "header": src["header"]})
            else:
                out.append(None)
    return out


def conc_xs(c, i, links=None):
    """the input sequence of generator i: its own argument, spelled out"""
    g = c["gens"][i]
    src = (links or _links(c))[i]
    if src and src["kind"] == "rechunk":
        s = c["gens"][src["from"]]
        sx = conc_xs(c, src["from"], links)
        return list(src["header"]) + list(sx) + [s["pad"]] * ((-len(sx)) % s["size"])
    if g.get("src") and g["src"]["kind"] == "rechunk":
        return list(g["src"]["header"])          # reference not allowed: the header alone
    return g["xs"]


def conc_single(c, i):
    """generator i as a case of its own (what the Lean model is asked)"""
    g = c["gens"][i]
    if g["entry"] == "wav":
        return dict(g, take=None)
    d = dict(g, xs=conc_xs(c, i))
    d.pop("src", None)
    d.pop("size_route", None)         # chunks.size is (legitimately) global: see _default_size
    d.pop("seq_route", None)
    return d


def _default_size(c):
    """chunks.size is a documented global, read when a generator starts: it is set once for the whole case,
    to the size of the first member that asks for the default; only members of that size leave `size` out"""
    for g in c["gens"]:
        if g["entry"] == "chunks" and g.get("size_route") == "default":
            return g["size"]
    return None


def _with_gen(c, i, g):
    gens = list(c["gens"])
    gens[i] = g
    return dict(c, gens=gens)


def impl_conc(c):
    from audiolazy import chunks, Stream, WavStream
    gens = c["gens"]
    n = len(gens)
    links = _links(c)
    sources = {l["from"] for l in links if l and l["kind"] == "rechunk"}
    st = [{"it": None, "out": [], "raw": [], "done": None, "msg": None, "calls": 0, "running": False,
           "started": False} for _ in gens]
    peak = [0]
    paths, fobjs = set(), []
    dsize, old_size = _default_size(c), chunks.size

    def advance(j):
        s = st[j]
        if s["it"] is None or s["done"] is not None or s["running"]:
            return None
        s["running"] = s["started"] = True
        s["calls"] += 1
        peak[0] = max(peak[0], sum(1 for t in st if t["started"] and t["done"] is None))
        try:
            item = next(s["it"])
        except StopIteration:
            s["done"] = "stop"
            return None
        except Exception as e:
            s["done"], s["msg"] = _kind(e), str(e)[:100]
            return None
        finally:
            s["running"] = False
        if gens[j]["entry"] == "chunks":
            s["raw"].append(item)
            s["out"].append(list(bytes(item)))
        else:
            s["out"].append(item)
        return item

    def hook_source(xs, at):
        def gen():
            for k, x in enumerate(xs):
                for j in at.get(k, ()):
                    advance(j)
                yield x
            for j in at.get(len(xs), ()):
                advance(j)
        return gen()

    def rechunk_source(header, j):
        s = gens[j]
        fmt = "%s%d%s" % (_prefix(s["order"]), s["size"], s["fmt"])
        def gen():
            for h in header:
                yield h
            while True:
                ch = advance(j)
                if ch is None:
                    return
                for v in struct.unpack(fmt, bytes(ch)):
                    yield v
        return gen()

    try:
        for i, g in enumerate(gens):
            s = st[i]
            if g["entry"] == "chunks":
                f = chunks.struct if g["strategy"] == "struct" else chunks.array
                xs = [j2v(x) for x in g["xs"]]
                src = links[i]
                if src is None:
                    if g.get("src"):
                        xs = [j2v(x) for x in conc_xs(c, i, links)]
                    sr = g.get("seq_route")
                    seq = iter(xs) if sr == "iter" else Stream(xs) if sr == "stream" else tuple(xs) if sr == "tuple" else xs
                elif src["kind"] == "hook":
                    at = {}
                    for k, j in src["at"]:
                        at.setdefault(k, []).append(j)
                    seq = hook_source(xs, at)
                else:
                    seq = rechunk_source([j2v(x) for x in src["header"]], src["from"])
                kw = {"dfmt": g["fmt"]}
                if not (g.get("size_route") == "default" and g["size"] == dsize):
                    kw["size"] = g["size"]
                if g["order"] != "omit":
                    kw["byte_order"] = g["order"]
                if g.get("pad_route") != "default":
                    kw["padval"] = j2v(g["pad"])
                try:
                    s["it"] = iter(f(seq, **kw))
                except Exception as e:
                    s["done"], s["msg"] = "call:" + _kind(e), str(e)[:100]
            else:
                blob = wav_file_bytes(g)
                fobj = None
                try:
                    if g.get("route", "path") == "path":
                        path = os.path.join(_tmpdir(), "k%s.wav" % hashlib.sha1(blob).hexdigest()[:16])
                        if path not in paths:
                            with open(path, "wb") as fh:
                                fh.write(blob)
                            paths.add(path)
                        ws = WavStream(path, g["keep"])
                        fobj = getattr(ws._file, "_i_opened_the_file", None)
                        if fobj is not None:
                            fobjs.append(fobj)
                    elif g["route"] == "fileobj":
                        ws = WavStream(io.BytesIO(blob), g["keep"])
                    else:
                        ws = WavStream(io.BytesIO(blob), keep=g["keep"]) if g["keep"] else WavStream(io.BytesIO(blob))
                    s["ws"], s["fobj"] = ws, fobj
                    s["hdr"] = [ws.rate, ws.channels, ws.bits]
                    s["open_before"] = ws._file.getfp() is not None and (fobj is None or not fobj.closed)
                    s["it"] = iter(ws)
                except Exception as e:
                    s["done"] = "open:" + _kind(e)
        if dsize is not None:
            chunks.size = dsize
        for j in c["schedule"]:
            if isinstance(j, int) and 0 <= j < n and j not in sources:
                advance(j)
        if c.get("drain"):
            for j in range(n):
                for _ in range(200000):
                    if st[j]["it"] is None or st[j]["done"] is not None:
                        break
                    advance(j)
        obs = []
        for g, s in zip(gens, st):
            o = {"done": s["done"], "msg": s["msg"], "calls": s["calls"]}
            if g["entry"] == "chunks":
                o["out"] = s["out"]
                o["aliased"] = any(list(bytes(r)) != b for r, b in zip(s["raw"], s["out"]))
            else:
                kinds = sorted({type(x).__name__ for x in s["out"]})
                o["kind"] = "none" if not kinds else (kinds[0] if len(kinds) == 1 else "mixed:" + ",".join(kinds))
                o["out"] = [enc(x) for x in s["out"]]
                if "ws" in s:
                    closed = s["ws"]._file.getfp() is None
                    if s["fobj"] is not None:
                        closed = closed and s["fobj"].closed
                    o["closed"], o["hdr"], o["open_before"] = closed, s["hdr"], s["open_before"]
            obs.append(o)
        return {"gens": obs, "peak_alive": peak[0]}
    finally:
        chunks.size = old_size
        for s in st:                       # finish suspended generators now, not at some later collection
            it = s.get("it")
            if it is not None and hasattr(it, "close") and not s["running"]:
                try:
                    it.close()
                except Exception:
                    pass
        for f in fobjs:
            if not f.closed:
                f.close()
        for p in paths:
            try:
                os.remove(p)
            except OSError:
                pass


def _expect(full_out, full_err, k):
    """k next() calls on a generator whose complete run is full_out then full_err (None = StopIteration)"""
    return full_out[:k], (None if k <= len(full_out) else (full_err or "stop"))


def _cat(done):
    return done if done in (None, "stop") else "error"


def compare_conc(c, io_, drv):
    res = []
    n = len(c["gens"])
    if "gens" not in io_:
        return [("model", "concurrent case could not be run: %s" % _s(io_)), ("spec", "not run")]
    for i in range(n):
        g, o, p = conc_single(c, i), io_["gens"][i], drv["gens"][i]
        for kind, d in (_cmp_chunks_member if g["entry"] == "chunks" else _cmp_wav_member)(g, o, p):
            res.append((kind, "generator %d of %d (%s): %s" % (i, n, _member_name(g), d)))
    return res


def _member_name(g):
    if g["entry"] == "chunks":
        return "chunks.%s %s%s size=%d" % (g["strategy"], _prefix(g["order"]), g["fmt"], g["size"])
    return "WavStream %dbit x%d keep=%s" % (g["bits"], g["channels"], g["keep"])


def _cmp_chunks_member(g, o, p):
    out = []
    k = o["calls"]
    m = p[g["strategy"]]
    sp = p["spec"] if g["strategy"] == "struct" else p["spec_array"]
    mo, md = _expect(m["out"], m["err"], k)
    so, sd = _expect(sp["out"], sp["err"], k)
    if o["out"] != mo or o["done"] != md:
        out.append(("model", "after %d next() calls differs from the model of this generator alone: impl=%s/%s "
                    "model=%s/%s" % (k, _s(o["out"]), o["done"], _s(mo), md)))
    if o["out"] != so or _cat(o["done"]) != _cat(sd):
        out.append(("spec", "after %d next() calls differs from the spec of this generator alone: impl=%s/%s "
                    "spec=%s/%s" % (k, _s(o["out"]), o["done"], _s(so), sd)))
    elif o.get("aliased"):
        out.append(("spec", "a chunk changed after it was yielded"))
    elif o["done"] == "stop":
        w = WIDTH[g["fmt"]]
        flat = bytes(b for ch in o["out"] for b in ch)
        ref = python_pack(g)
        if any(len(ch) != g["size"] * w for ch in o["out"]):
            out.append(("spec", "a chunk is not size*width bytes"))
        elif ref is not None and flat != ref:
            out.append(("spec", "concatenated chunks differ from struct.pack of the padded sequence"))
    return out


def _cmp_wav_member(g, o, p):
    out = []
    if "hdr" not in o:
        return [("model", "WavStream could not be opened: %s" % o["done"]), ("spec", "open failed")]
    k = o["calls"]
    m = p["model"]
    mo, md = _expect(m["out"], m["err"], k)
    if o["out"] != mo or o["done"] != md or (mo and o["kind"] != m["kind"]):
        out.append(("model", "after %d next() calls differs from the model of this stream alone: impl=%s/%s/%s "
                    "model=%s/%s/%s" % (k, _s(o["out"]), o["done"], o["kind"], _s(mo), md, m["kind"])))
    if o["hdr"] != [m["rate"], m["channels"], m["bits"]]:
        out.append(("model", "header attributes differ from the model"))
    if m["err"] is None and o["done"] in (None, "stop") and o["closed"] != (k > len(m["out"])):
        out.append(("model", "closed=%s after %d next() calls on %d samples" % (o["closed"], k, len(m["out"]))))
    if "spec_any" in p and "spec" in p:
        so = p["spec_any"]["out"][:k]
        if o["out"] != so or (so and o["kind"] != p["spec_any"]["kind"]):
            out.append(("spec", "samples differ from the decoded data chunk (storedValue): impl=%s spec=%s" % (
                _s(o["out"]), _s(so))))
    if "spec" in p:
        sp = p["spec"]
        so, sd = _expect(sp["out"], None, k)
        if not sp["valid"]:
            raise common.InfraError("C18 generator produced a sample outside the stored range: %r" % (g,))
        if o["out"] != so or o["done"] != sd or (so and o["kind"] != sp["kind"]):
            out.append(("spec", "after %d next() calls differs from the spec of this stream alone: impl=%s/%s/%s "
                        "spec=%s/%s/%s" % (k, _s(o["out"]), o["done"], o["kind"], _s(so), sd, sp["kind"])))
        if o["hdr"] != [g["rate"], g["channels"], g["bits"]]:
            out.append(("spec", "rate/channels/bits do not mirror the header: %r" % (o["hdr"],)))
        if not o["open_before"]:
            out.append(("spec", "file not open before reading"))
        if o["done"] == "stop" and not o["closed"]:
            out.append(("spec", "file still open after the stream was exhausted"))
        if not g["keep"] and any(not (-1 <= common.dec(x) < 1) for x in o["out"]):
            out.append(("spec", "normalised sample outside [-1,1)"))
    return out


def _chunk_key(g, full=False):
    return (g["strategy"], g["fmt"], g["size"], ORDER_REQ[g["order"]]) if full else (g["fmt"], g["size"])


def _conc_profile(c):
    """(kinds, key relation, mode, mid-fill re-entry into a same-key generator)"""
    gens = c["gens"]
    links = _links(c)
    ch = [g for g in gens if g["entry"] == "chunks"]
    wv = [g for g in gens if g["entry"] == "wav"]
    kinds = "chunks-only" if not wv else "wav-only" if not ch else "chunks+wav"
    rel = "n/a"
    if len(ch) >= 2:
        ks = [_chunk_key(g) for g in ch]
        fs = [_chunk_key(g, True) for g in ch]
        rel = ("same-strategy-dfmt-size-order" if len(set(fs)) < len(fs) else
               "same-dfmt-size" if len(set(ks)) < len(ks) else "different-key")
    modes = {l["kind"] for l in links if l}
    mode = "rechunk+hook" if len(modes) == 2 else "re-entrant-hook" if "hook" in modes else \
        "re-entrant-rechunk" if "rechunk" in modes else "alternating"
    mid = False
    for i, l in enumerate(links):
        if not l:
            continue
        gi = gens[i]
        if l["kind"] == "hook":
            for k, j in l["at"]:
                if k % gi["size"] and gens[j]["entry"] == "chunks" and _chunk_key(gens[j]) == _chunk_key(gi):
                    mid = True
        elif len(l["header"]) % gi["size"] and _chunk_key(gens[l["from"]]) == _chunk_key(gi):
            mid = True
    return kinds, rel, mode, mid


def tally_conc(eng, c, io_):
    gens = c["gens"]
    kinds, rel, mode, mid = _conc_profile(c)
    eng.count("conc.generators", len(gens))
    eng.count("conc.kinds", kinds)
    eng.count("conc.chunk_keys", rel)
    eng.count("conc.mode", mode)
    eng.count("conc.reentry_midfill_same_key", mid)
    L = len(c["schedule"])
    eng.count("conc.schedule_len", L if L < 4 else "4-9" if L < 10 else "10-29" if L < 30 else "30+")
    eng.count("conc.drain", bool(c.get("drain")))
    ds = _default_size(c)
    eng.count("conc.size_route", "explicit" if ds is None else "chunks.size=%s" % (ds if ds != 2048 else "2048(real default)"))
    pads = [json.dumps(g["pad"]) for g in gens if g["entry"] == "chunks"]
    if len(pads) >= 2:
        eng.count("conc.padvals", "some-equal" if len(set(pads)) < len(pads) else "all-different")
    if "gens" in io_:
        eng.count("conc.peak_alive", io_["peak_alive"])
        eng.count("conc.unfinished_at_end", sum(1 for o in io_["gens"] if o["done"] is None))
        eng.count("conc.member_errors", sum(1 for o in io_["gens"] if o["done"] not in (None, "stop")))
    wv = [g for g in gens if g["entry"] == "wav"]
    if len(wv) >= 2:
        blobs = [(g.get("route", "path"), wav_file_bytes(g)) for g in wv]
        same = any(a == b and a[0] == "path" for i, a in enumerate(blobs) for b in blobs[i + 1:])
        eng.count("conc.wav_files", "same-file-on-disk" if same else "different-files")
    for g in gens:
        if g["entry"] == "chunks":
            eng.count("conc.member", "chunks.%s:%s" % (g["strategy"], g["fmt"]))
        else:
            eng.count("conc.member", "wav:%d:x%d:%s" % (g["bits"], g["channels"], "keep" if g["keep"] else "norm"))


def classify_conc(c, io_, drv):
    """first member that differs: kind of member, whether the same call is right when it runs alone
    (interference between generators) or wrong by itself, and what differs"""
    if "gens" not in io_:
        return "conc:not-run"
    for i in range(len(c["gens"])):
        g, o, p = conc_single(c, i), io_["gens"][i], drv["gens"][i]
        if not (_cmp_chunks_member if g["entry"] == "chunks" else _cmp_wav_member)(g, o, p):
            continue
        try:
            alone = not compare(g, impl(g), p)
        except Exception:
            alone = False
        tag = "interference" if alone else "wrong-alone-too"
        if g["entry"] == "chunks":
            what = "chunk-mutated-after-yield" if o.get("aliased") else \
                "error-state" if _cat(o["done"]) == "error" else "bytes"
            return "conc:chunks.%s:%s:%s:%s" % (g["strategy"], g["fmt"], tag, what)
        return "conc:wav:%dbit:%s:%s" % (g["bits"], "keep" if g["keep"] else "norm", tag)
    return "conc:other"


# ---------------------------------------------------------------------------------------------
def _drop_gen(c, r):
    gens = c["gens"]
    links = _links(c)
    new = []
    for i, g in enumerate(gens):
        if i == r:
            continue
        g = dict(g)
        src = g.pop("src", None) if g["entry"] == "chunks" else None
        if src:
            if src["kind"] == "hook":
                at = [[k, j - (j > r)] for k, j in src["at"] if j != r]
                if at:
                    g["src"] = {"kind": "hook", "at": at}
            elif src["from"] == r or links[i] is None:
                g["xs"] = conc_xs(c, i, links)          # keep its input, now spelled out
            else:
                g["src"] = dict(src, **{"from": src["from"] - (src["from"] > r)})
        new.append(g)
    sched = [j - (j > r) for j in c["schedule"] if j != r]
    return dict(c, gens=new, schedule=sched)


def _clip_hooks(g):
    src = g.get("src")
    if src and src["kind"] == "hook":
        at = [[min(k, len(g["xs"])), j] for k, j in src["at"]]
        at = [a for t, a in enumerate(at) if a not in at[:t]]
        g = dict(g, src={"kind": "hook", "at": at})
    return g


def shrink_conc(c):
    gens, sched = c["gens"], c["schedule"]
    n = len(gens)
    links = _links(c)
    big = sorted({g["size"] for g in gens if g["entry"] == "chunks" and g["size"] > 32})
    if big:
        # large chunks are expensive to evaluate: first bring the sizes down (members sharing a size together,
        # which keeps a same-key relation), trying only a handful of other candidates meanwhile
        for sz in big:
            for ns in (2, 3, 4, (sz + 1) // 2, sz - 1):
                yield dict(c, gens=[_clip_hooks(dict(g, size=ns)) if g["entry"] == "chunks" and g["size"] == sz else g
                                    for g in gens])
        for r in range(n if n > 1 else 0):
            yield _drop_gen(c, r)
        if sched:
            yield dict(c, schedule=sched[:-1])
        return
    if n > 1:                                   # fewer generators
        for r in range(n):
            yield _drop_gen(c, r)
    if sched:                                   # shorter schedules
        yield dict(c, schedule=[])
        yield dict(c, schedule=sched[: len(sched) // 2])
        yield dict(c, schedule=sched[:-1])
        yield dict(c, schedule=sched[1:])
        for t in range(1, min(len(sched) - 1, 24)):
            yield dict(c, schedule=sched[:t] + sched[t + 1:])
    for i, g in enumerate(gens):                # simpler sources
        src = g.get("src") if g["entry"] == "chunks" else None
        if not src:
            continue
        if links[i] is None:
            d = dict(g, xs=conc_xs(c, i, links))
            d.pop("src")
            yield _with_gen(c, i, d)
        elif src["kind"] == "hook":
            at = src["at"]
            for t in range(len(at)):
                na = at[:t] + at[t + 1:]
                d = dict(g)
                d.pop("src")
                if na:
                    d["src"] = {"kind": "hook", "at": na}
                yield _with_gen(c, i, d)
            for t, (k, j) in enumerate(at):
                if k > 0:
                    yield _with_gen(c, i, dict(g, src={"kind": "hook", "at": at[:t] + [[k - 1, j]] + at[t + 1:]}))
        else:
            if src["header"]:
                yield _with_gen(c, i, dict(g, src=dict(src, header=src["header"][:-1])))
            d = dict(g, xs=conc_xs(c, i, links))
            d.pop("src")
            yield _with_gen(c, i, d)
    # all chunk members that share a size shrink it together (keeps a same-key relation)
    sizes = sorted({g["size"] for g in gens if g["entry"] == "chunks" and g["size"] > 1})
    for sz in sizes:
        for ns in (sz - 1, (sz + 1) // 2):
            if ns != sz:
                yield dict(c, gens=[_clip_hooks(dict(g, size=ns)) if g["entry"] == "chunks" and g["size"] == sz else g
                                    for g in gens])
    for i, g in enumerate(gens):                # the members themselves
        for t, d in enumerate(shrink(g)):
            if t >= 30:
                break
            yield _with_gen(c, i, _clip_hooks(d) if d["entry"] == "chunks" else d)
        if g["entry"] == "chunks":
            for k in ("seq_route", "malformed", "size_route"):
                if k in g:
                    d = dict(g)
                    d.pop(k)
                    yield _with_gen(c, i, d)


# ---------------------------------------------------------------------------------------------
def _tagged(fmt, tag, n):
    """values that tell generators apart: member `tag` yields 40*tag+1, 40*tag+2, ... (mod the range of b)"""
    vs = [(40 * tag + 1 + k % 39) for k in range(n)]
    if fmt in "bhi":
        return [v if tag < 3 else -v for v in vs]
    return [f2j(v + 0.5) for v in vs]


def _conc_chunk(rng, tag, fmt, size, order, strategy, n=None, malformed=False):
    if n is None:
        n = max(0, rng.choice([0, 1, size - 1, size, size + 1, 2 * size, 2 * size + 1, 3 * size - 1,
                               rng.randint(0, 4 * size)]))
    r = rng.random()
    xs = _tagged(fmt, tag, n) if r < 0.55 else rand_vals(rng, fmt, n)
    pad = (-(tag + 1) if fmt in "bhi" else f2j(-(tag + 1.25))) if r < 0.55 else rand_vals(rng, fmt, 1)[0]
    kw = {}
    if malformed and fmt in "bhi" and n:
        lo, hi = int_range(fmt)
        xs = list(xs)
        xs[rng.randrange(n)] = rng.choice([hi + 1, lo - 1, f2j(1.5)])
        kw["malformed"] = "range-or-float-item"
    if rng.random() < 0.15:
        kw["seq_route"] = rng.choice(["iter", "stream", "tuple"])
    return chunk_case(fmt, order, size, xs, pad, strategy, **kw)


def _conc_wav(rng, like=None):
    if like is not None and rng.random() < 0.7:         # the same file on disk, maybe another `keep`
        return dict(like, keep=like["keep"] if rng.random() < 0.5 else not like["keep"], route="path")
    bits = like["bits"] if like is not None and rng.random() < 0.5 else rng.choice([8, 16, 24, 32])
    channels = rng.choice([1, 2, 2])
    nf = rng.choice([0, 1, 2, 3, rng.randint(0, 8)])
    samples = [rand_sample(rng, bits) for _ in range(nf * channels)]
    return wav_case(bits, channels, rng.random() < 0.5, samples,
                    rate=rng.choice([8000, 44100, rng.randint(1, 400000)]),
                    route=rng.choice(["path", "path", "fileobj", "wave"]))


def _n_items(g):
    if g["entry"] == "wav":
        return len(g["samples"])
    return -(-len(g["xs"]) // g["size"])


def _schedule(rng, gens, free):
    """an interleaving of next() calls over the generators in `free`"""
    if not free:
        return []
    want = {i: _n_items(gens[i]) + rng.choice([0, 1, 1, 2]) for i in free}
    style = rng.random()
    sched = []
    if style < 0.4:                                     # round robin
        for _ in range(max(want.values())):
            sched.extend(i for i in free if want[i] > len([1 for j in sched if j == i]))
    elif style < 0.8:                                   # random interleaving
        pool = [i for i in free for _ in range(want[i])]
        rng.shuffle(pool)
        sched = pool
    elif style < 0.9:                                   # bursts
        pool = [i for i in free for _ in range(want[i])]
        while pool:
            i = rng.choice(pool)
            for _ in range(rng.randint(1, 3)):
                if i in pool:
                    pool.remove(i)
                    sched.append(i)
    else:                                               # one after the other (a generator dies, the next starts)
        for i in free:
            sched.extend([i] * want[i])
    if rng.random() < 0.35 and sched:                   # partial consumption
        sched = sched[: rng.randint(0, len(sched))]
    return sched[:80]


def _conc_random(rng):
    ng = 2 if rng.random() < 0.65 else 3
    r = rng.random()
    kinds = ["chunks"] * ng if r < 0.6 else ["wav"] * ng if r < 0.78 else \
        rng.choice([["chunks", "wav"], ["wav", "chunks"], ["chunks", "chunks", "wav"], ["chunks", "wav", "wav"],
                    ["wav", "chunks", "chunks"]])
    ng = len(kinds)
    fmt, size = rng.choice("bhifd"), rng.choice([1, 2, 2, 3, 3, 4, 4, 5, rng.randint(1, 9)])
    order, strategy = rng.choice(ORDERS), rng.choice(["array", "array", "struct"])
    rel = rng.choice(["same-all", "same-all", "same-key", "same-key", "diff-size", "diff-fmt", "diff-all"])
    gens, firstwav = [], None
    for t, kd in enumerate(kinds):
        if kd == "wav":
            g = _conc_wav(rng, firstwav)
            firstwav = firstwav or g
        else:
            f2, s2, o2, st2 = fmt, size, order, strategy
            if rel != "same-all":
                o2, st2 = rng.choice(ORDERS), rng.choice(["array", "struct"])
            if rel in ("diff-size", "diff-all") and t:
                s2 = rng.choice([x for x in range(1, 10) if x != size])
            if rel in ("diff-fmt", "diff-all") and t:
                f2 = rng.choice([x for x in "bhifd" if x != fmt])
            g = _conc_chunk(rng, t, f2, s2, o2, st2, malformed=rng.random() < 0.06)
        gens.append(g)
    cg = [g for g in gens if g["entry"] == "chunks"]
    if len(cg) >= 2 and rng.random() < 0.4:             # the same padval everywhere (a key could include it)
        for g in cg[1:]:
            if g["fmt"] in "fd" and cg[0]["fmt"] in "fd" and (g["fmt"] == "d" or cg[0]["fmt"] == "f"):
                g["pad"] = cg[0]["pad"]           # (a double padval may be outside the float32 range)
            elif g["fmt"] in "bhi" and isinstance(cg[0]["pad"], int):
                g["pad"] = max(int_range(g["fmt"])[0], min(int_range(g["fmt"])[1], cg[0]["pad"]))
    if cg and rng.random() < 0.15:                      # size left out: chunks.size
        for g in cg:
            if g["size"] == cg[0]["size"]:
                g["size_route"] = "default"
    free = list(range(ng))
    mode = rng.random()
    chunk_idx = [i for i, g in enumerate(gens) if g["entry"] == "chunks"]
    if mode < 0.45:                                     # re-entrant: sources that advance later generators
        for i in chunk_idx:
            if i == ng - 1 or not gens[i]["xs"] and rng.random() < 0.5:
                continue
            if i > chunk_idx[0] and rng.random() < 0.5:
                continue
            g = gens[i]
            nx, sz = len(g["xs"]), g["size"]
            mids = [k for k in range(nx + 1) if k % sz]
            at = []
            for _ in range(rng.choice([1, 1, 2, 3])):
                k = rng.choice(mids) if mids and rng.random() < 0.75 else rng.randint(0, nx)
                a = [k, rng.randint(i + 1, ng - 1)]
                if a not in at:
                    at.append(a)
            g["src"] = {"kind": "hook", "at": sorted(at)}
            g.pop("seq_route", None)
    elif mode < 0.62 and len(chunk_idx) >= 2:           # re-chunking pipeline: i reads the chunks of j
        i, j = chunk_idx[0], chunk_idx[1]
        gi, gj = gens[i], gens[j]
        if gj["fmt"] not in "bhi":
            gj = gens[j] = _conc_chunk(rng, j, rng.choice("bhi"), gj["size"], gj["order"], gj["strategy"])
        if gj.get("malformed"):
            gj = gens[j] = _conc_chunk(rng, j, gj["fmt"], gj["size"], gj["order"], gj["strategy"])
        if rel in ("same-all", "same-key"):
            gi["fmt"] = gj["fmt"]
            gi["size"] = gj["size"]
            if rel == "same-all":
                gi["order"], gi["strategy"] = gj["order"], gj["strategy"]
        elif gi["fmt"] in "bhi" and WIDTH[gi["fmt"]] < WIDTH[gj["fmt"]]:
            gi["fmt"] = gj["fmt"]
        gi.pop("malformed", None)
        gi.pop("seq_route", None)
        gi["xs"] = []
        hl = rng.choice([0, 1, 1, 1, 2, rng.randint(0, gi["size"])])
        gi["pad"] = -9 if gi["fmt"] in "bhi" else f2j(-9.5)
        gi["src"] = {"kind": "rechunk", "from": j, "header": [100 + t for t in range(hl)]}
        free = [t for t in free if t != j]
    return conc_case(gens, _schedule(rng, gens, free), drain=rng.random() < 0.7)


def generate_conc(rng, tier, scale=1):
    quick = tier == "quick"
    cases = []
    if scale == 1:
        # grid: generator 0 is suspended by its source before item k (every position of a chunk, and the end)
        # while generator 1 runs one step; same (dfmt, size), every strategy pair, both key relations
        for sa in ("array", "struct"):
            for sb in ("array", "struct"):
                for fmt in "bhifd":
                    for size in (2, 3, 4):
                        for k in range(0, size + 2):
                            for nb in (1, size, size + 1):
                                if quick and (k + nb + size + "bhifd".index(fmt)) % 2:
                                    continue
                                for samekey in (True, False):
                                    a = chunk_case(fmt, "omit", size, _tagged(fmt, 0, size + 1),
                                                   -1 if fmt in "bhi" else f2j(-1.25), sa,
                                                   src={"kind": "hook", "at": [[k, 1]]})
                                    b = chunk_case(fmt, "omit", size if samekey else size + 1, _tagged(fmt, 1, nb),
                                                   -2 if fmt in "bhi" else f2j(-2.25), sb)
                                    cases.append(conc_case([a, b], [0, 0, 1][: 1 + (k + nb) % 3], drain=True))
        # the real default size (what AudioIO uses), explicit and through chunks.size
        for sa in ("array", "struct"):
            for sb in ("array", "struct"):
                for route in ({}, {"size_route": "default"}):
                    for fmt, order in (("f", "omit"), ("h", "<"), ("b", ">")):
                        a = chunk_case(fmt, order, 2048, _tagged(fmt, 0, 3), -1 if fmt in "bhi" else f2j(-1.25), sa,
                                       src={"kind": "hook", "at": [[1, 1], [3, 1]]}, **route)
                        b = chunk_case(fmt, order, 2048, _tagged(fmt, 1, 2), -1 if fmt in "bhi" else f2j(-1.25), sb,
                                       **route)
                        cases.append(conc_case([a, b], [0], drain=True))
        # grid: two WavStreams read alternately, same file on disk or two files
        for bits in (8, 16, 24, 32):
            lo, hi = wav_range(bits)
            for channels in (1, 2):
                for ka in (True, False):
                    for kb in (True, False):
                        for same in (True, False):
                            sa = [lo, hi, 1, lo + 1, hi - 1, 2][: 3 * channels]
                            sb = sa if same else [hi, lo, 3, hi - 2, lo + 2, 4, 5, 6][: 4 * channels]
                            a = wav_case(bits, channels, ka, sa)
                            b = wav_case(bits, channels, kb, sb)
                            cases.append(conc_case([a, b], [0, 1] * (len(sb) + 1), drain=(bits + channels) % 3 != 0))
    for _ in range((1500 if quick else 20000) * scale):
        cases.append(_conc_random(rng))
    return cases


# ==============================================================================================
# res cases: the file life-cycle on real handles (see c18_res.py)
# ==============================================================================================
def res_case(bits, channels, keep, samples, source, events, rate=8000, **kw):
    c = {"entry": "res", "bits": bits, "channels": channels, "keep": keep, "samples": samples, "rate": rate,
         "source": source, "events": events}
    c.update({k: v for k, v in kw.items() if v})
    if "spy" in kw:
        c["spy"] = bool(kw["spy"])
    return c


def request_res(c):
    data = c18_res.pcm_bytes(c["bits"], c["samples"])
    if c.get("cut"):
        data = data[: max(0, len(data) - c["cut"])]
    r = {"entry": "res", "bits": c["bits"], "channels": c["channels"], "rate": c["rate"], "keep": c["keep"],
         "data": list(data), "source": c18_res.MODEL_SRC[c["source"]], "header_ok": not c.get("bad"),
         "pre": c18_res.n_pre(c), "events": c["events"]}
    r["header_ok"] = True
    r["file"] = list(c18_res.riff_bytes(c))         # the Lean RIFF reader finds header and data chunk (or refuses)
    if r["source"] == "refused":
        r["alt_source"] = "name"                    # should the code accept this kind of name: then as a name
    return r


RES_PATTERNS = ["exhaust", "exhaust+2", "exhaust+collect", "partial", "partial+collect", "fresh+collect", "nothing",
                "one", "exhaust+collect+next"]


def res_events(pattern, n, rng=None):
    if pattern == "exhaust":
        return ["n"] * (n + 1)
    if pattern == "exhaust+2":
        return ["n"] * (n + 3)
    if pattern == "exhaust+collect":
        return ["n"] * (n + 1) + ["c"]
    if pattern == "exhaust+collect+next":
        return ["n"] * (n + 1) + ["c", "n", "c"]
    if pattern == "partial":
        return ["n"] * max(0, n - 1)
    if pattern == "partial+collect":
        return ["n"] * (n // 2) + ["c"]
    if pattern == "fresh+collect":
        return ["c"]
    if pattern == "one":
        return ["n"]
    return []


def generate_res(rng, tier, scale=1):
    quick = tier == "quick"
    cases = []
    if scale == 1:
        t = 0
        for source in c18_res.SOURCES:
            for bits in (8, 16, 24, 32):
                lo, hi = wav_range(bits)
                for channels in (1, 2):
                    for keep in (True, False):
                        for nf in (0, 1, 3):
                            for pat in RES_PATTERNS:
                                t += 1
                                if quick and t % 4 != (bits // 8 + channels) % 4:
                                    continue
                                n = nf * channels
                                samples = [[lo, hi, 1, lo + 1, hi - 1, 2][i % 6] for i in range(n)]
                                cases.append(res_case(bits, channels, keep, samples, source, res_events(pat, n),
                                                      spy=t % 3 != 0, others=t % 2,
                                                      keep_shape=("pos", "kw", "omit", "allkw")[t % 4]))
        # a constructor that raises, every way of handing the file over
        for source in c18_res.SOURCES:
            for bad in c18_res.BADS:
                for spy in (True, False):
                    cases.append(res_case(16, 1, True, [1, 2], source, ["n"], bad=bad, spy=spy, others=1))
        # truncated files: the decoding error in the middle, then more next() calls
        for source in c18_res.SOURCES:
            for bits in (8, 16, 24, 32):
                for channels in (1, 2):
                    fs = bits // 8 * channels
                    for cut in sorted({1, fs - 1} - {0}):
                        if fs == 1:
                            continue
                        lo, hi = wav_range(bits)
                        samples = [hi, lo, 1, 2, 3, 4][: 2 * channels]
                        for tail in ([], ["n"], ["c"], ["n", "c"]):
                            cases.append(res_case(bits, channels, (bits + channels) % 3 == 0, samples, source,
                                                  ["n"] * (len(samples) + 1) + tail, cut=cut, spy=len(tail) != 1))
    for _ in range((1200 if quick else 6000) * scale):
        bits = rng.choice([8, 16, 24, 32])
        channels = rng.choice([1, 2])
        nf = rng.choice([0, 1, 2, rng.randint(0, 10)])
        n = nf * channels
        samples = [rand_sample(rng, bits) for _ in range(n)]
        source = rng.choice(["str", "str", "str", "fileobj", "fileobj", "fileobj_raw", "bytesio", "bytesio", "bytes",
                             "pathlike"])
        kw = {"spy": rng.random() < 0.6, "others": rng.choice([0, 0, 1, 2]),
              "keep_shape": rng.choice(["pos", "kw", "omit", "allkw"]),
              "keep_spell": rng.choice([None, None, "int", "obj", "float"]),
              "rate": rng.choice([8000, 44100, 1, rng.randint(1, 400000)])}
        r = rng.random()
        if r < 0.08:
            kw["bad"] = rng.choice(c18_res.BADS)
        elif r < 0.25 and n and bits // 8 * channels > 1:
            kw["cut"] = rng.randint(1, bits // 8 * channels - 1)
        elif r < 0.33:
            channels = rng.choice([3, 4])
            samples = [rand_sample(rng, bits) for _ in range(nf * channels)]
            n = len(samples)
        elif r < 0.48:
            kw["riff"] = rand_riff(rng, wild=rng.random() < 0.4)
        elif r < 0.54:                                  # a header width that is no PCM width of the property
            bits = rng.choice([12, 20, 33, 40, 64])
            samples = [rng.randint(-100, 100) if bits > 32 else rand_sample(rng, 8 * ((bits + 7) // 8)) for _ in range(max(n, channels))]
            n = len(samples)
            kw["riff"] = {"post": []} if rng.random() < 0.5 else rand_riff(rng, wild=False)
        if source == "pathlike":
            kw["pathkind"] = rng.choice(["pathlib", "fspath"])
        if rng.random() < 0.6:
            ev = res_events(rng.choice(RES_PATTERNS), n)
        else:
            ev = [rng.choice("nnnnc") for _ in range(rng.randint(0, n + 4))]
        cases.append(res_case(bits, channels, rng.random() < 0.5, samples, source, ev, **kw))
    return cases


def tally_res(eng, c, io_):
    eng.count("res.source", c["source"])
    eng.count("res.observer", "spy(builtins.open)+/proc/self/fd" if c.get("spy", True) else "/proc/self/fd+ResourceWarning")
    eng.count("res.bits", c["bits"])
    for k in sorted(c.get("riff") or {}):
        eng.count("res.riff_variant", k)
    eng.count("res.channels", c["channels"])
    eng.count("res.keep_shape", c.get("keep_shape", "pos") + ("/keep" if c["keep"] else "/norm"))
    eng.count("res.keep_spelling", c.get("keep_spell") or "bool")
    eng.count("res.caller_other_handles", c.get("others", 0))
    eng.count("res.file", "bad:" + c["bad"] if c.get("bad") else "truncated" if c.get("cut") else
              "channels>2" if c["channels"] > 2 else "riff-variant" if c.get("riff") else "plain")
    ev = c["events"]
    n = len(c["samples"])
    k = ev.index("c") if "c" in ev else len(ev)
    eng.count("res.history", ("" if k else "no-next,") + ("k<=n" if k <= n else "k=n+1" if k == n + 1 else "k>n+1") +
              (",collect" if "c" in ev else "") + (",next-after-collect" if "c" in ev and "n" in ev[ev.index("c"):] else ""))
    eng.count("res.impl_open", io_.get("open", "?") + ("/" + io_.get("open_err", "") if io_.get("open") == "error" else ""))
    ends = [s["obs"] for s in io_.get("trace", []) if s["ev"] == "n" and s["obs"] is not None and not isinstance(s["obs"], dict)]
    eng.count("res.impl_end", "none" if not ends else ends[0])
    for s in io_.get("trace", []):
        if "fds_before_gc" in s:
            eng.count("res.fd_kept_by_cycle_until_gc", bool(s["fds_before_gc"]))
    if io_.get("trace"):
        eng.count("res.fds_at_end", io_["trace"][-1]["fds"])
    eng.count("res.fds_after_open", io_.get("after_open", {}).get("fds", "?"))


def shrink_res(c):
    ev, s, ch = c["events"], c["samples"], c["channels"]
    if s:
        yield dict(c, samples=s[:-ch])
        yield dict(c, samples=[1] * len(s))
    if ev:
        yield dict(c, events=ev[:-1])
        yield dict(c, events=ev[1:])
        if "c" in ev:
            yield dict(c, events=[e for e in ev if e != "c"])
    for k in ("others", "keep_shape", "keep_spell", "pathkind", "riff", "rate"):
        if c.get(k) and not (k == "rate" and c[k] == 8000):
            d = dict(c)
            d.pop(k)
            if k == "rate":
                d["rate"] = 8000
            yield d
    if not c.get("spy", True):
        yield dict(c, spy=True)
    if c["channels"] == 2 and len(s) % 2 == 0:
        yield dict(c, channels=1)


def classify_res(c, io_, drv):
    tag = "res:%s" % c["source"]
    if io_.get("open") == "error":
        return tag + ":constructor-" + str(io_.get("open_err"))
    for kind, d in c18_res.compare_res(c, io_, drv, enc, common.dec):
        if kind == "spec":
            return tag + ":" + ("still-open-after-exhaustion" if "still open" in d else
                                "caller-handle-closed" if "caller" in d else
                                "resource-warning" if "ResourceWarning" in d else
                                "header" if "mirror" in d else "values")
    return tag + ":model-only"
