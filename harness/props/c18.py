"""C18 — PCM byte codecs: chunks.struct / chunks.array and WavStream.

Tie: (a) `chunks.<strategy>` for formats b h i f d x byte orders (omitted, None, "@", "=", "<", ">",
"!") x sizes x lengths, bytes compared exactly with the Lean model of that strategy, with the
Lean specification (packed padded sequence cut every `size` items) and with Python's own
`struct.pack` of the padded sequence; (b) WAV files written with the standard `wave` module
(8/16/24/32 bit x mono/stereo x extremes of each width) read back through `WavStream` (keep
True/False), values compared exactly (normalised values are exact dyadic floats), header
attributes and the open/closed state of the file after k `next()` calls.
"""
import io, itertools, os, struct, sys, tempfile, wave
import common
from common import enc, err_kind

ID = "C18"
RULE = ("chunks: exhaustive grid (format x byte-order spelling x size 1..9 x length 0..20 x strategy) with "
        "range extremes among the values, plus random larger cases and a small malformed stream (value out "
        "of range, float into an integer format, default float pad with integer formats); wav: every width x "
        "channel count x keep x 0..6 frames of extreme values, plus random files up to 40 frames and truncated "
        "files; non-trivial = at least one item in the input sequence / one sample in the file; "
        "distinct = distinct JSON case")
TRUSTED = [
    "hand-written Lean model ALV/Model/C18.lean of lazy_io.chunks (struct and array strategies) and "
    "lazy_wav.WavStream (modelled, not verified: struct.Struct, array.array, wave.Wave_read.readframes, "
    "generator protocol, try/finally)",
    "IEEE-754 encoders of the formats f and d are abstract in the theorems (parameter `le`, hypothesis "
    "dec (enc x) = x for the round trip); the driver instantiates them with Lean's Float.toBits / "
    "Float.toFloat32 and the tie compares their bytes with Python's struct on every generated float",
    "the model of chunks.array includes the repair proposed for D5 (tobytes, byteswap when the requested "
    "order is not native, zero-initialised working array); the unrepaired code cannot satisfy the property",
    "the byte layout of the PCM files is produced by the standard `wave` module from bytes built by "
    "int.to_bytes in this harness; the Lean spec's pcmData is compared with those bytes on every case",
]
ASSUMPTIONS = [
    "size >= 1; values representable in the format (integers in range, doubles within the float32 range "
    "for 'f'); other inputs only in the malformed stream, where the exception class is compared",
    "WAV files are well-formed PCM (data length a multiple of the frame size), 1 or 2 channels, 8/16/24/32 "
    "bits; truncated files are compared with the model only",
    "native byte order of the machine is read from sys.byteorder and passed to the model",
]

MANIFEST = {
    "text": ("Lean 4 theorems, for all inputs: two's-complement pack/unpack round trip on the full signed range of "
             "every width and both byte orders; the 24-bit WAV path sign-extends every three-byte string; WavStream "
             "over any well-formed 8/16/24/32-bit mono/stereo PCM data chunk yields exactly the stored integers "
             "(keep) or those integers (8 bit: minus 128) / 2^(bits-1), always in [-1,1); the file is closed exactly "
             "when the end is reached; chunks.struct and chunks.array (repaired as proposed for D5) both equal the "
             "specification 'pack the sequence followed by (-len) mod size pad values, cut every size items' for "
             "every size, length, byte order, machine order and element encoder, including where they stop on an "
             "unpackable item; tied to /repo by a differential correspondence on every check"),
    "note": ("Trusted: Lean kernel, axioms propext/Classical.choice/Quot.sound, the Python harness; struct, array, "
             "wave and the IEEE-754 encoders of f/d are not modelled (the theorems take the element encoder as a "
             "parameter; the driver's Float.toBits / toFloat32 bytes are compared with struct.pack on every float "
             "case).  chunks.array in /repo is defective today (D5, D5b: known findings with a proposed fix); its "
             "model is the repaired code."),
}

NATIVE = "<" if sys.byteorder == "little" else ">"
WIDTH = {"b": 1, "h": 2, "i": 4, "f": 4, "d": 8}
ORDERS = ["omit", None, "@", "=", "<", ">", "!"]
ORDER_REQ = {"omit": None, None: None, "@": None, "=": None, "<": "<", ">": ">", "!": ">"}
F32MAX = 3.4028234663852886e38


def f2j(x):
    return {"f": struct.unpack("<Q", struct.pack("<d", float(x)))[0]}


def j2v(j):
    if isinstance(j, dict):
        return struct.unpack("<d", struct.pack("<Q", j["f"]))[0]
    return j


def int_range(fmt):
    b = 8 * WIDTH[fmt]
    return -(1 << (b - 1)), (1 << (b - 1)) - 1


def rand_int(rng, fmt):
    lo, hi = int_range(fmt)
    r = rng.random()
    if r < 0.25:
        return rng.choice([lo, hi, lo + 1, hi - 1, -1, 0, 1])
    if r < 0.45:
        k = rng.choice([7, 8, 15, 16, 23, 24, 31])
        v = rng.choice([1, -1]) * ((1 << k) + rng.choice([-1, 0, 1]))
        return max(lo, min(hi, v))
    if r < 0.7:
        return rng.randint(-130, 130) if fmt != "b" else rng.randint(lo, hi)
    return rng.randint(lo, hi)


def rand_float(rng, fmt):
    r = rng.random()
    if r < 0.3:
        return rng.choice([0.0, -0.0, 1.0, -1.0, 0.5, -0.25, 1.5, 17.0, -3.42, 1e-5, 0.1, float("inf"), float("nan"),
                           float("-inf"), 2.0 ** -126, 2.0 ** -149, 2.0 ** -150, 5e-324, 2.0 ** -1022,
                           F32MAX, -F32MAX, 16777217.0, 1.0000000596046448, 1.0000001788139343])
    if r < 0.5:
        return rng.randint(-1000, 1000) / 2.0 ** rng.randint(0, 10)
    if r < 0.8:
        return rng.uniform(-1, 1)
    x = rng.uniform(-1, 1) * 10.0 ** rng.randint(-40, 38)
    return max(-F32MAX, min(F32MAX, x)) if fmt == "f" else x * 10.0 ** rng.randint(-200, 200)


def rand_vals(rng, fmt, n):
    if fmt in "bhi":
        return [rand_int(rng, fmt) for _ in range(n)]
    out = []
    for _ in range(n):
        if rng.random() < 0.15:
            out.append(rng.randint(-100, 100))          # ints are accepted by the float formats
        else:
            out.append(f2j(rand_float(rng, fmt)))
    return out


def chunk_case(fmt, order, size, xs, pad, strategy, **kw):
    c = {"entry": "chunks", "fmt": fmt, "order": order, "size": size, "xs": xs, "pad": pad,
         "strategy": strategy}
    c.update(kw)
    return c


def pcm_bytes(bits, samples):
    w = bits // 8
    if bits == 8:
        return bytes(samples)
    return b"".join(int(s).to_bytes(w, "little", signed=True) for s in samples)


def wav_range(bits):
    return (0, 255) if bits == 8 else (-(1 << (bits - 1)), (1 << (bits - 1)) - 1)


def rand_sample(rng, bits):
    lo, hi = wav_range(bits)
    r = rng.random()
    if r < 0.3:
        return rng.choice([lo, hi, lo + 1, hi - 1, (lo + hi) // 2, (lo + hi) // 2 + 1, (lo + hi + 1) // 2 - 1])
    if r < 0.55:
        k = rng.choice([7, 8, 15, 16, 23, 24, 31])
        v = rng.choice([1, -1]) * ((1 << k) + rng.choice([-1, 0, 1]))
        return max(lo, min(hi, v))
    return rng.randint(lo, hi)


def wav_case(bits, channels, keep, samples, rate=44100, take=None, route="path", cut=0):
    c = {"entry": "wav", "bits": bits, "channels": channels, "keep": keep, "samples": samples,
         "rate": rate, "take": take, "route": route}
    if cut:
        c["cut"] = cut
    return c


def generate(rng, tier, scale=1):
    cases = []
    quick = tier == "quick"
    # ---------------- chunks: grid ----------------
    if scale == 1:
        S, L = (9, 20)
        for fmt in "bhifd":
            for order in ORDERS:
                for size in range(1, S + 1):
                    for n in range(0, L + 1):
                        # thin the grid in the quick tier (every combination is still hit by some n)
                        if quick and (n + size + ORDERS.index(order)) % 3 != 0 and n not in (0, size - 1, size, size + 1):
                            continue
                        xs = rand_vals(rng, fmt, n)
                        pad = rand_vals(rng, fmt, 1)[0] if rng.random() < 0.7 else (0 if fmt in "bhi" else f2j(0.0))
                        for strategy in ("struct", "array"):
                            cases.append(chunk_case(fmt, order, size, xs, pad, strategy))
        # sizes at the limits of the formats (array fill) and the default-size route
        for size in (127, 128, 129, 200, 2048):
            for strategy in ("struct", "array"):
                cases.append(chunk_case("b", "omit", size, rand_vals(rng, "b", 3), 0, strategy))
                cases.append(chunk_case("h", ">", size, rand_vals(rng, "h", size + 1), -2, strategy))
        if not quick:
            cases.append(chunk_case("h", "<", 32769, [1, 2, 3], 0, "array"))
    nrand = (700 if quick else 12000) * scale
    for _ in range(nrand):
        fmt = rng.choice("bhifd")
        size = rng.choice([1, 2, 3, rng.randint(1, 9), rng.randint(1, 40)])
        n = max(0, rng.choice([0, size - 1, size, size + 1, 2 * size, 3 * size - 1, rng.randint(0, 60)]))
        xs = rand_vals(rng, fmt, n)
        pad = rand_vals(rng, fmt, 1)[0]
        kw = {}
        r = rng.random()
        if r < 0.12:
            kw["size_route"] = "default"              # size=None -> chunks.size
        if fmt in "fd" and rng.random() < 0.15:
            pad = f2j(0.0)
            kw["pad_route"] = "default"               # padval omitted -> 0.
        if rng.random() < 0.3:
            kw["seq_route"] = rng.choice(["iter", "stream", "tuple"])
        cases.append(chunk_case(fmt, rng.choice(ORDERS), size, xs, pad, rng.choice(["struct", "array"]), **kw))
    # malformed stream
    for _ in range((60 if quick else 600) * scale):
        fmt = rng.choice("bhi")
        size = rng.randint(1, 6)
        n = rng.randint(0, 14)
        xs = rand_vals(rng, fmt, n)
        pad = rand_vals(rng, fmt, 1)[0]
        kind = rng.choice(["range", "float-item", "float-pad", "default-pad"])
        lo, hi = int_range(fmt)
        kw = {"malformed": kind}
        if kind == "range" and n:
            xs[rng.randrange(n)] = rng.choice([hi + 1, lo - 1, hi + rng.randint(1, 1000), 1 << 40])
        elif kind == "float-item" and n:
            xs[rng.randrange(n)] = f2j(rng.choice([0.0, 1.5, -2.0]))
        elif kind == "float-pad":
            pad = f2j(rng.choice([0.0, 1.0]))
        else:
            pad = f2j(0.0)
            kw["pad_route"] = "default"
        cases.append(chunk_case(fmt, rng.choice(ORDERS), size, xs, pad, rng.choice(["struct", "array"]), **kw))
    # ---------------- wav ----------------
    if scale == 1:
        for bits in (8, 16, 24, 32):
            lo, hi = wav_range(bits)
            ext = [lo, hi, lo + 1, hi - 1, 0, 1, 255 if bits == 8 else -1, 127, 128, 129]
            if bits > 8:
                ext += [-128, -129, 256, -256, -257, 1 << (bits - 9), -(1 << (bits - 9)), (1 << (bits - 8)) - 1,
                        -(1 << (bits - 8)), -(1 << (bits - 8)) - 1]
            for channels in (1, 2):
                for keep in (True, False):
                    for nf in range(0, 7):
                        n = nf * channels
                        samples = [ext[(i * 3 + nf + channels) % len(ext)] for i in range(n)]
                        for take in (None, 0, max(0, n - 1), n, n + 1):
                            if take is not None and (nf + (take or 0) + bits // 8) % 2 and quick:
                                continue
                            cases.append(wav_case(bits, channels, keep, samples, take=take,
                                                  route=("path", "fileobj", "wave")[(nf + channels + (take or 0)) % 3]))
                    # every extreme, one file
                    cases.append(wav_case(bits, channels, keep, ext[: len(ext) // channels * channels]))
    for _ in range((500 if quick else 8000) * scale):
        bits = rng.choice([8, 16, 24, 32])
        channels = rng.choice([1, 2])
        nf = rng.choice([0, 1, 2, rng.randint(0, 12), rng.randint(0, 40)])
        n = nf * channels
        samples = [rand_sample(rng, bits) for _ in range(n)]
        take = None if rng.random() < 0.6 else rng.choice([0, 1, max(0, n - 1), n, n + 1, n + 5, rng.randint(0, n + 2)])
        rate = rng.choice([8000, 11025, 22050, 44100, 48000, 96000, 1, rng.randint(1, 400000)])
        cases.append(wav_case(bits, channels, rng.random() < 0.5, samples, rate=rate, take=take,
                              route=rng.choice(["path", "path", "fileobj", "wave"])))
    for _ in range((24 if quick else 200) * scale):
        bits = rng.choice([8, 16, 24, 32])
        channels = rng.choice([3, 4])
        nf = rng.randint(0, 3)
        samples = [rand_sample(rng, bits) for _ in range(nf * channels)]
        cases.append(wav_case(bits, channels, rng.random() < 0.5, samples))
    for _ in range((40 if quick else 400) * scale):
        bits = rng.choice([16, 24, 32])
        channels = rng.choice([1, 2])
        nf = rng.randint(1, 6)
        samples = [rand_sample(rng, bits) for _ in range(nf * channels)]
        cut = rng.randint(1, bits // 8 * channels - 1)
        cases.append(wav_case(bits, channels, rng.random() < 0.5, samples, cut=cut))
    return cases


# ----------------------------------------------------------------------------------------------
_TMP = None


def _tmpdir():
    global _TMP
    if _TMP is None:
        _TMP = tempfile.mkdtemp(prefix="C18_wav_")
        import atexit, shutil
        atexit.register(shutil.rmtree, _TMP, True)
    return _TMP


def _kind(e):
    if isinstance(e, struct.error):
        return "struct.error"
    if isinstance(e, wave.Error):
        return "wave.Error"
    return err_kind(e)


def wav_file_bytes(c):
    """the complete RIFF file, produced by the standard wave module"""
    buf = io.BytesIO()
    w = wave.open(buf, "wb")
    w.setnchannels(c["channels"])
    w.setsampwidth(c["bits"] // 8)
    w.setframerate(c["rate"])
    w.writeframes(pcm_bytes(c["bits"], c["samples"]))
    w.close()
    data = buf.getvalue()
    if c.get("cut"):
        data = data[: -c["cut"]]
    return data


def impl_wav(c):
    from audiolazy import WavStream
    blob = wav_file_bytes(c)
    route = c.get("route", "path")
    path = fobj = None
    obs = {}
    try:
        if route == "path":
            path = os.path.join(_tmpdir(), "f%d.wav" % (abs(hash(blob)) % 10 ** 9))
            with open(path, "wb") as f:
                f.write(blob)
            ws = WavStream(path, c["keep"])
            fobj = getattr(ws._file, "_i_opened_the_file", None)   # the OS-level file wave opened
        elif route == "fileobj":
            ws = WavStream(io.BytesIO(blob), c["keep"])
        else:
            ws = WavStream(io.BytesIO(blob), keep=c["keep"]) if c["keep"] else WavStream(io.BytesIO(blob))
        obs["rate"], obs["channels"], obs["bits"] = ws.rate, ws.channels, ws.bits
        obs["open_before"] = ws._file.getfp() is not None and (fobj is None or not fobj.closed)
        out, err = [], None
        it = iter(ws)
        try:
            if c.get("take") is None:
                for x in it:
                    out.append(x)
            else:
                for x in itertools.islice(it, c["take"]):
                    out.append(x)
        except Exception as e:
            err = _kind(e)
        kinds = sorted({type(x).__name__ for x in out})
        obs["kind"] = "none" if not kinds else (kinds[0] if len(kinds) == 1 else "mixed:" + ",".join(kinds))
        obs["out"] = [enc(x) for x in out]
        obs["err"] = err
        closed = ws._file.getfp() is None
        if fobj is not None:
            closed = closed and fobj.closed
        obs["closed"] = closed
    except Exception as e:
        return {"err": "open:" + _kind(e)}
    finally:
        if fobj is not None and not fobj.closed:
            fobj.close()
        if path is not None:
            try:
                os.remove(path)
            except OSError:
                pass
    return obs


def impl_chunks(c):
    from audiolazy import chunks, Stream
    f = chunks.struct if c["strategy"] == "struct" else chunks.array
    xs = [j2v(x) for x in c["xs"]]
    sr = c.get("seq_route")
    seq = iter(xs) if sr == "iter" else Stream(xs) if sr == "stream" else tuple(xs) if sr == "tuple" else xs
    kw = {"dfmt": c["fmt"]}
    if c["order"] != "omit":
        kw["byte_order"] = c["order"]
    if c.get("pad_route") != "default":
        kw["padval"] = j2v(c["pad"])
    old = chunks.size
    out, err, msg = [], None, None
    try:
        if c.get("size_route") == "default":
            chunks.size = c["size"]
        else:
            kw["size"] = c["size"]
        try:
            for ch in f(seq, **kw):
                out.append(list(bytes(ch)))
        except Exception as e:
            err, msg = _kind(e), str(e)[:100]
    finally:
        chunks.size = old
    return {"out": out, "err": err, "msg": msg}


def impl(c):
    return impl_wav(c) if c["entry"] == "wav" else impl_chunks(c)


def request(c):
    if c["entry"] == "chunks":
        return {"entry": "chunks", "fmt": c["fmt"], "native": NATIVE, "order": ORDER_REQ[c["order"]],
                "size": c["size"], "pad": c["pad"], "xs": c["xs"]}
    data = pcm_bytes(c["bits"], c["samples"])
    if c.get("cut"):
        data = data[: -c["cut"]]
    r = {"entry": "wav", "bits": c["bits"], "channels": c["channels"], "rate": c["rate"],
         "keep": c["keep"], "data": list(data), "take": c.get("take")}
    if not c.get("cut") and c["channels"] in (1, 2):
        r["samples"] = c["samples"]             # inside the property's quantifier: compare with the spec
    return r


def python_pack(c):
    """the padded sequence packed by Python's own struct, or None when struct refuses"""
    xs = [j2v(x) for x in c["xs"]]
    pad = j2v(c["pad"])
    n = (-len(xs)) % c["size"]
    allv = xs + [pad] * n
    o = c["order"]
    prefix = "" if o in ("omit", None) else o
    try:
        return struct.pack("%s%d%s" % (prefix, len(allv), c["fmt"]), *allv)
    except (struct.error, OverflowError):
        return None


def compare(c, io_, drv):
    out = []
    if c["entry"] == "chunks":
        m = drv[c["strategy"]]
        sp = drv["spec"] if c["strategy"] == "struct" else drv["spec_array"]
        if io_["out"] != m["out"] or io_["err"] != m["err"]:
            out.append(("model", "chunks.%s differs from the model: impl=%s/%s model=%s/%s" % (
                c["strategy"], _s(io_["out"]), io_["err"], _s(m["out"]), m["err"])))
        if io_["out"] != sp["out"] or (io_["err"] is None) != (sp["err"] is None):
            out.append(("spec", "chunks.%s differs from the spec: impl=%s/%s spec=%s/%s" % (
                c["strategy"], _s(io_["out"]), io_["err"], _s(sp["out"]), sp["err"])))
        elif sp["err"] is None:
            # the property in its own words, against Python's struct
            w = WIDTH[c["fmt"]]
            flat = bytes(b for ch in io_["out"] for b in ch)
            ref = python_pack(c)
            if any(len(ch) != c["size"] * w for ch in io_["out"]):
                out.append(("spec", "a chunk is not size*width bytes"))
            elif ref is not None and flat != ref:
                out.append(("spec", "concatenated chunks differ from struct.pack of the padded sequence"))
            elif ref is None and not c.get("malformed") and c["strategy"] == "struct":
                out.append(("spec", "struct refuses the padded sequence but chunks succeeded"))
        return out
    # wav
    if "out" not in io_:
        return [("model", "WavStream could not be opened: " + io_["err"]), ("spec", "open failed")]
    m = drv["model"]
    take = c.get("take")
    mo = m["out"] if take is None else m["out"][:take]
    merr = m["err"] if take is None or take > len(m["out"]) else None
    if io_["out"] != mo or io_["err"] != merr or (mo and io_["kind"] != m["kind"]):
        out.append(("model", "samples differ from the model: impl=%s/%s/%s model=%s/%s/%s" % (
            _s(io_["out"]), io_["err"], io_["kind"], _s(mo), merr, m["kind"])))
    if [io_["rate"], io_["channels"], io_["bits"]] != [m["rate"], m["channels"], m["bits"]]:
        out.append(("model", "header attributes differ from the model"))
    if "lazy" in drv and io_["err"] is None and merr is None:
        lz = drv["lazy"]
        if len(io_["out"]) != lz["taken"] or io_["closed"] != lz["closed"]:
            out.append(("model", "taken/closed differ from the model: impl=%d/%s model=%d/%s" % (
                len(io_["out"]), io_["closed"], lz["taken"], lz["closed"])))
    if "spec_any" in drv and "spec" in drv:
        sa = drv["spec_any"]
        sao = sa["out"] if take is None else sa["out"][:take]
        if io_["out"] != sao or (sao and io_["kind"] != sa["kind"]):
            out.append(("spec", "samples differ from the decoded data chunk (storedValue): impl=%s spec=%s" % (
                _s(io_["out"]), _s(sao))))
    if "spec" in drv:
        sp = drv["spec"]
        so = sp["out"] if take is None else sp["out"][:take]
        if not sp["valid"]:
            raise common.InfraError("C18 generator produced a sample outside the stored range: %r" % (c,))
        if bytes(sp["enc"]) != pcm_bytes(c["bits"], c["samples"]):
            out.append(("model", "Lean pcmData differs from the bytes written to the file"))
        if io_["out"] != so or io_["err"] is not None or (so and io_["kind"] != sp["kind"]):
            out.append(("spec", "samples differ from the spec: impl=%s/%s/%s spec=%s/%s" % (
                _s(io_["out"]), io_["err"], io_["kind"], _s(so), sp["kind"])))
        if [io_["rate"], io_["channels"], io_["bits"]] != [c["rate"], c["channels"], c["bits"]]:
            out.append(("spec", "rate/channels/bits do not mirror the header: %r" % (
                [io_["rate"], io_["channels"], io_["bits"]],)))
        if not io_["open_before"]:
            out.append(("spec", "file not open before reading"))
        if io_["err"] is None:
            n = len(c["samples"])
            # the property: closed once the stream is exhausted (StopIteration seen: k > n).  That it
            # is still open before that is compared with the model only (above), not demanded here.
            if (take is None or take > n) and not io_["closed"]:
                out.append(("spec", "file still open after the stream was exhausted (%s next() calls on %d samples)" % (
                    "all" if take is None else take, n)))
            if not c["keep"] and any(not (-1 <= common.dec(x) < 1) for x in io_["out"]):
                out.append(("spec", "normalised sample outside [-1,1)"))
    return out


def _s(x, n=160):
    s = str(x)
    return s if len(s) <= n else s[:n] + "..."


def nontrivial(c, io_):
    return bool(c["xs"]) if c["entry"] == "chunks" else bool(c["samples"])


def tally(eng, c, io_):
    eng.count("entry", c["entry"])
    if c["entry"] == "chunks":
        eng.count("chunks.strategy", c["strategy"])
        eng.count("chunks.fmt", c["fmt"])
        eng.count("chunks.order", str(c["order"]))
        eng.count("chunks.size", c["size"] if c["size"] <= 9 else "10+")
        n = len(c["xs"])
        eng.count("chunks.padding", "empty" if n == 0 else "none" if n % c["size"] == 0 else "padded")
        eng.count("chunks.n_chunks", min(len(io_.get("out", [])), 8))
        eng.count("chunks.impl_err", str(io_.get("err")))
        eng.count("chunks.regime", "malformed:" + c["malformed"] if c.get("malformed") else
                  ("int-exact" if c["fmt"] in "bhi" else "ieee-bytes-exact"))
        for k in ("size_route", "pad_route", "seq_route"):
            if c.get(k):
                eng.count("chunks.route", k + "=" + c[k])
        if c["fmt"] in "bhi":
            lo, hi = int_range(c["fmt"])
            vs = [v for v in c["xs"] if isinstance(v, int)]
            eng.count("chunks.has_extreme", bool(vs) and (lo in vs or hi in vs))
            eng.count("chunks.has_negative", any(v < 0 for v in vs))
    else:
        eng.count("wav.bits", c["bits"])
        eng.count("wav.channels", c["channels"])
        eng.count("wav.keep", c["keep"])
        eng.count("wav.route", c.get("route", "path"))
        n = len(c["samples"])
        eng.count("wav.samples", n if n < 5 else "5-19" if n < 20 else "20+")
        t = c.get("take")
        eng.count("wav.take", "all" if t is None else "k<n" if t < n else "k=n" if t == n else "k>n")
        lo, hi = wav_range(c["bits"])
        eng.count("wav.has_min", lo in c["samples"])
        eng.count("wav.has_max", hi in c["samples"])
        eng.count("wav.has_negative", any(s < 0 for s in c["samples"]))
        eng.count("wav.truncated", bool(c.get("cut")))
        eng.count("wav.malformed", "truncated" if c.get("cut") else "channels>2" if c["channels"] > 2 else "no")
        eng.count("wav.impl_err", str(io_.get("err")))
        eng.count("wav.regime", "int-exact" if c["keep"] else "dyadic-float-exact")


def shrink(c):
    if c["entry"] == "chunks":
        xs = c["xs"]
        if xs:
            yield dict(c, xs=xs[:-1])
            yield dict(c, xs=xs[1:])
            if c["fmt"] in "bhi":
                for i, v in enumerate(xs):
                    if isinstance(v, int) and v not in (0, 1):
                        for nv in (1, -1, int(v / 2)):
                            if nv != v and abs(nv) <= abs(v):
                                yield dict(c, xs=xs[:i] + [nv] + xs[i + 1:])
            else:
                for i, v in enumerate(xs):
                    if v != 1:
                        yield dict(c, xs=xs[:i] + [1] + xs[i + 1:])
        if c["size"] > 1:
            yield dict(c, size=c["size"] - 1)
            yield dict(c, size=(c["size"] + 1) // 2)
        for k in ("size_route", "pad_route", "seq_route"):
            if c.get(k) and not (k == "pad_route" and c.get("malformed")):
                d = dict(c)
                d.pop(k)
                yield d
        if c["order"] not in ("<", ">") and c["order"] != "omit":
            yield dict(c, order="omit")
        if c["pad"] not in (0, 1) and isinstance(c["pad"], int):
            yield dict(c, pad=1)
    else:
        s, ch = c["samples"], c["channels"]
        if s:
            yield dict(c, samples=s[:-ch])
            yield dict(c, samples=s[ch:])
            lo, hi = wav_range(c["bits"])
            for i, v in enumerate(s):
                for nv in (1, -1, int(v / 2), lo, hi):
                    if nv != v and lo <= nv <= hi and abs(nv) <= abs(v) and v not in (0, 1):
                        yield dict(c, samples=s[:i] + [nv] + s[i + 1:])
        if c.get("take") is not None:
            yield dict(c, take=None)
            if c["take"] > 0:
                yield dict(c, take=c["take"] - 1)
        if c.get("route", "path") != "path":
            yield dict(c, route="path")
        if c["rate"] != 8000:
            yield dict(c, rate=8000)


def neighbours(c):
    if c["entry"] == "chunks":
        for ds in (-1, 0, 1):
            for dn in (-1, 0, 1):
                s, n = c["size"] + ds, len(c["xs"]) + dn
                if s >= 1 and n >= 0:
                    xs = (c["xs"] + c["xs"][-1:] * 2)[:n] if c["xs"] else [1] * n
                    for strategy in ("struct", "array"):
                        yield dict(c, size=s, xs=xs, strategy=strategy)
        for o in ORDERS:
            yield dict(c, order=o)
    else:
        for keep in (True, False):
            for ch in (1, 2):
                s = c["samples"]
                s = s[: len(s) // ch * ch]
                yield dict(c, keep=keep, channels=ch, samples=s, take=None)
        for t in (0, len(c["samples"]), len(c["samples"]) + 1):
            yield dict(c, take=t)


def classify(c, io_, drv):
    if c["entry"] == "chunks":
        st = c["strategy"]
        sp = drv["spec"] if st == "struct" else drv["spec_array"]
        err = io_.get("err")
        if st == "array" and err == "AttributeError" and "tostring" in (io_.get("msg") or ""):
            return "chunks.array:export:AttributeError-no-tostring"
        if (st == "array" and err == "OverflowError" and sp["err"] is None and not io_["out"]
                and c["fmt"] in "bhi" and c["size"] - 1 > int_range(c["fmt"])[1]):
            return "chunks.array:working-array-filled-with-xrange(size):OverflowError"
        if err is not None and sp["err"] is None:
            return "chunks.%s:%s:unexpected-%s" % (st, c["fmt"], err)
        if err is None and sp["err"] is not None:
            return "chunks.%s:%s:missing-error" % (st, c["fmt"])
        if len(io_["out"]) != len(sp["out"]):
            return "chunks.%s:%s:chunk-count" % (st, c["fmt"])
        if any(len(a) != len(b) for a, b in zip(io_["out"], sp["out"])):
            return "chunks.%s:%s:chunk-length" % (st, c["fmt"])
        if io_["out"] != sp["out"]:
            same_sorted = all(sorted(a) == sorted(b) for a, b in zip(io_["out"], sp["out"]))
            return "chunks.%s:%s:%s" % (st, c["fmt"], "byte-order" if same_sorted else "bytes-differ")
        return "chunks.%s:%s:other" % (st, c["fmt"])
    if "out" not in io_:
        return "wav:%d:open-%s" % (c["bits"], io_.get("err"))
    tag = "wav:%dbit:%s" % (c["bits"], "keep" if c["keep"] else "norm")
    if io_.get("err"):
        return tag + ":" + io_["err"]
    sp = drv.get("spec")
    if sp is not None:
        take = c.get("take")
        so = sp["out"] if take is None else sp["out"][:take]
        if io_["out"] != so:
            return tag + ":values"
        if [io_["rate"], io_["channels"], io_["bits"]] != [c["rate"], c["channels"], c["bits"]]:
            return "wav:header"
        return "wav:closed-state"
    return tag + ":model-only"


def extra_checks(eng):
    """platform assumptions of the model: the array item sizes and the native struct sizes of the five
    formats are the standard ones, and the machine order is one of the two modelled"""
    import array
    ok = all(struct.calcsize(p + f) == WIDTH[f] for f in "bhifd" for p in ("", "@", "=", "<", ">", "!"))
    yield ("struct-sizes-standard", ok, "struct.calcsize of b h i f d is not 1 2 4 4 8 on this machine")
    ok = all(array.array(f).itemsize == WIDTH[f] for f in "bhifd")
    yield ("array-itemsizes-standard", ok, "array.array itemsize of b h i f d is not 1 2 4 4 8 on this machine")
    yield ("byteorder-known", sys.byteorder in ("little", "big"), "sys.byteorder=%r" % (sys.byteorder,))
