"""C01 — Stream operators and broadcast functions act element by element.

Tie between /repo and the Lean slice (lean/ALV/{Model,Spec,Lemmas,Props,Driver}/C01.lean,
lean/ALV/Gen/OpTable.lean):

* `regenerate`   translator T1 (c01_t1.py): operator table + insertion logic + builder dict read from
                 the source text of lazy_core.py / lazy_stream.py -> lean/ALV/Gen/OpTable.lean;
                 translator c01_tr.py: the BODIES of StreamMeta.__binary__/__rbinary__/__unary__, Stream.__getattr__/__call__,
                 lazy_misc.elementwise -> lean/ALV/Gen/C01Src.lean (programs; Props: src_*_is_model)
* entry "optable" the OpMethod metadata and the dunders found on the real `Stream` class against the
                 Lean model of `_insert` / the metaclass (kind "model") and against the hand-written
                 specification table (kind "spec")
* entry "expr"   a Python-level expression tree over Streams / iterables / scalars is built with the
                 REAL operators; the driver returns, for the same tree over atoms, the symbolic term of
                 every output position (model: iterator machine on the class built from the regenerated
                 table; spec: pointwise reading).  The terms are evaluated with Python's own
                 `operator.*` on the actual leaf elements and compared with what the real expression
                 delivers (values, where it ends, element errors, read counts of counting sources).
                 The iterable operands are drawn from EVERY iterator flavour the library hands out or accepts
                 (c01_flavours.py: itertools.repeat(v) / repeat(v, n), count, cycle (also cycle(())), chain, islice, tee,
                 takewhile, ..., map / filter / zip / enumerate objects, generators, range (with a step), bytes, array,
                 user iterator / sized / __getitem__ classes, the lazy_itertools wrappers `audiolazy.repeat`, `count`,
                 `cycle`, `chain`, `imap`, `izip`, ..., Stream(a, b, c), Stream subclasses, tee / thub copies, limit / skip)
                 on either side of every builder branch, as the shortest / empty / equal / longer / endless operand.
                 The Lean model needs no change for that: it sees an operand as an iterator over elements; an endless
                 flavour is described by its first n + 2 elements for an observation of n next() calls.
* entry "bcast"  the broadcast family (lazy_math, dB, MIDI, erb): container kind, laziness
                 (no read at call time, one read per next), values = function applied per element.
"""
import itertools as it
import operator
from collections import deque
from collections.abc import Iterable
from fractions import Fraction

import warnings

import common
from common import err_kind

warnings.simplefilter("ignore")      # MemoryLeakWarning of a thub whose copy is never read (call refused)
from props import c01_t1
from props import c01_tr
from props import c01_flavours as fl
from props import c01_exc as xc

ID = "C01"
RULE = ("operand objects between iterable and scalar (indexable, no __iter__: Vec2, Indexable, LenIndexable, Poly, TableLookup; predicates observed with isinstance/iter/hasattr, classified by the model) on the other side of all 32 binary dunders x routes, numeric vector arithmetic, nested; broadcast functions x 9 user subclasses of tuple/list/set/frozenset/deque + a user Sequence by position and keyword (observation: type(res) is type(arg)); "
        "expr: exhaustive cross 35 dunders x operand kinds x length pairs x call route (direct dunder / operator "
        "syntax) over symbolic tracer elements (non-commutative, so operand order is visible), the same over "
        "numeric element families; flavour cross: ~120 operand flavours (every itertools / builtin lazy iterator, finite and "
        "endless, raw, inside a Stream, through the lazy_itertools wrappers, behind Stream subclasses / tee copies) x position "
        "(other raw, other in a Stream, self, both) x builder branch (binary|rbinary x iterable|scalar, unary) x which operand "
        "is empty / shortest / endless x one dunder of every operator class (thorough: three), primary flavours x all 35 dunders; "
        "random trees of depth <= 4 (quick) / 6 (thorough) whose leaves are drawn from the same flavours, a malformed stream; "
        "exprE (c01_exc.py): element values on which the operators RAISE in the middle (division / modulo by zero incl. Fraction(0), 0.0, False; "
        "0 ** negative; negative / float shift counts; None, str, complex elements; Boom elements on which every one of the 35 dunders, abs, call "
        "and attribute access raise; a Boom scalar = every position raises) x every dunder of the pool x (scalar operand on the side the dunder "
        "fixes | iterable operand raw / in a Stream | endless self | endless other | unary | map / abs / attribute / call) and random nested "
        "trees of depth <= 4 (thorough 5) with append / Stream(a, b); each read three ways: next() in try/except, a for loop restarted after "
        "each exception, a random script of next() / take(k) / peek(k) in try/except (observed through the first read that meets the end: "
        "the model's `untilEnd`; compared with the model's script and with `scriptOuts` of the spec's outcomes); opget: list(OpMethod.get(keys, "
        "without)) for every documented key (symbol, name, dunder, operator function, 1/2/'1'/'2', 'r', 'all'), unknown keys, random "
        "key / without lists in every accepted spelling (list, tuple, generator, bare, white-space separated string); bcastE: the math/dB/MIDI functions on scalar / list / tuple / deque / "
        "generator / map / filter / Stream / thub inputs, by position and by keyword, with elements in the middle on which the function raises "
        "(domain errors, None, str, negative factorial), invalid logarithm bases by position / keyword; meta: classes built with a user's "
        "subclass of AbstractOperatorOverloaderMeta (subsets of the three builders x __operators__ / __without__ queries x names bound in the body); "
        "translated source (regenerated before the build, no cases needed): the six function bodies of c01_tr.py; "
        "a case is non-trivial when the real expression delivers at least one item or the broadcast function "
        "is applied to at least one element; distinct = distinct JSON case")
TRUSTED = [
    "hand-written Lean model ALV/Model/C01.lean of StreamMeta.__binary__/__rbinary__/__unary__, Stream.__init__ "
    "(1-2 args), map/abs/getattr/call/append, OpMethod._insert/_initialize, AbstractOperatorOverloaderMeta.__new__, "
    "elementwise (modelled, not verified: CPython map/zip/itertools.repeat/cycle/chain, binary-operator dispatch of "
    "the interpreter incl. reflected-method priority)",
    "translator T1 harness/props/c01_t1.py (ast templates of _initialize/_insert/__new__; unknown shape = broken obligation)",
    "translator harness/props/c01_tr.py (closure bodies -> lean/ALV/Gen/C01Src.lean): the python subset it assumes the usual semantics of "
    "(`if T: return/raise`, `return`, conditional expression, `and` / `not` with short circuit, straight-line assignments to locals that are "
    "substituted at their uses - sound here because the substituted expressions are tests and NOT-STARTED generator expressions without side "
    "effects -, a local assigned in both branches of an if/else, the fixed try/except of the numpy test); the vocabulary mapping: xmap = builtin "
    "map -> Iter.map1 / map2 / mapc false, generator expression -> Iter.mapc true, iter(self) = self._data = the Stream's iterator, "
    "isinstance(x, Iterable / cls.__ignored_classes__ / STR_TYPES / SOME_GEN_TYPES) and issubclass(type(arg), Stream) -> the constructor tests "
    "of Val / CKind (that SOME_GEN_TYPES, STR_TYPES, xmap, NEXT_NAME are defined in lazy_compat.py by the expected expressions and imported "
    "unshadowed is checked on the source), type(arg)(data) -> draining `data` (BOut.cast), `func(*(args[:pos] + (x,) + args[pos+1:]), **kwargs)` "
    "and `func(*args, **dict(it.chain(iteritems(kwargs), [(name, x)])))` -> the pre / post argument lists of Iter.mapc (kwFlat / kwSplit), "
    "numpy classes do not occur (isNumpy = false); interpreters ALV/Model/C01Src.lean, C01SrcEw.lean; unknown syntax = TranslationError = "
    "broken obligation; checked by translator-selftest (19 edited copies of a pinned source) on every run",
    "term evaluator of this module: `operator.<fn>` applied to the actual leaf elements",
    "harness/props/c01_flavours.py: which python object delivers the elements of a leaf (itertools / builtin iterators, lazy_itertools "
    "wrappers); an endless operand is shown to the model as its first n + 2 elements for an observation of n next() calls "
    "(every next() of an operator expression asks each leaf at most once)",
    "harness/props/c01_exc.py: the oracle table `bad` handed to the Lean model (entries exprE / bcastE) = the applications, among those the "
    "model itself asks about (`queried`), on which python's operator.* / the undecorated library function raises on the real elements; "
    "settled by rounds and re-checked for consistency in every comparison (that a table agreeing with python on the logged queries gives "
    "python's run is PROVED: oracle_settled / oracle_settled_take / oracle_settled_script; that nothing logged is superfluous: "
    "oracle_query_needed); the three readers (next loop, restarted for loop, next/take/peek script)",
    "CPython fact the model of `peek` encodes (checked differentially): itertools.tee keeps the items one copy has read for the other "
    "copy and passes an exception of the underlying iterator on WITHOUT keeping it",
    "harness/props/c01_exc.py stream_meth_kinds: ast recogniser that tells from lazy_stream.py whether Stream.__getattr__ / __call__ build "
    "their result on a generator expression or on a map object (parameter `g` of the model's `meth` node; unknown shape = broken obligation)",
    "independent oracle (c01_exc.scalar_function_checks, 538 calls) for the element functions lazy_math defines itself (log / ln / log10 / "
    "log2 / log1p / factorial / dB10 / dB20 / sign incl. their error branches): python numbers are not modelled in Lean",
    "CPython facts the exception model encodes (checked differentially on every run): a map object survives an exception of its function, "
    "map(f, a, b) does not advance b when a raises, a generator is finished by any exception leaving its frame, itertools.chain passes "
    "exceptions on, islice(it, k) makes exactly k calls",
]
MANIFEST = {
    "text": "Lean 4 theorems (structural induction over expression trees of any depth, operands finite / empty / unequal / "
            "endless) about a hand-written executable model of StreamMeta's dunder builders, the iterators they create, "
            "the metaclass loop over the REGENERATED operator table, and the elementwise decorator; tied to /repo by "
            "translator T1 (table + insertion logic read from the source on every run, re-proved by `decide`), by the body translator "
            "c01_tr.py (the bodies of StreamMeta.__binary__/__rbinary__/__unary__, Stream.__getattr__/__call__ and lazy_misc.elementwise are "
            "regenerated on every run as programs of a small deeply embedded language whose interpretation is PROVED equal to the hand-written "
            "model functions: src_binary/rbinary/unary/getattr/call/elementwise_is_model) and a "
            "differential run in which the symbolic terms of the model/spec are evaluated with python's operator.* on the "
            "real elements; element operations that raise are inside the model (Iter.stepE / drainE / takeE over an arbitrary oracle `bad`, "
            "compositional outcome laws exc_map / exc_gen / exc_map2 / exc_chain / exc_take / exc_eval for all expression trees; "
            "elementwiseE for the broadcast decorator) and inside the tie (exceptions in the middle, then continued reads); classes built by "
            "any user of the metaclass (missing builders, operator queries) are modelled by installW",
    "note": "Trusted: Lean kernel (axioms propext, Classical.choice, Quot.sound as reported in the evidence), translator T1 and the body translator c01_tr.py (python subset + vocabulary mapping, see trusted base), the term "
            "evaluator and generators of harness/props/c01.py + c01_exc.py (oracle table = python's own verdict on the applications the model "
            "asks about), CPython's operator dispatch and itertools.  Element "
            "semantics is deliberately not modelled (free term algebra + an abstract `raises` oracle): the property is about wiring.  Known finding: "
            "Stream.__getattr__/__call__ end at the first element exception (generator expressions).",
    "technique": "Lean 4 proof over an executable model + source-to-Lean translators (T1 operator table; c01_tr.py: bodies of the dunder "
                 "builders, Stream.__getattr__/__call__ and elementwise regenerated as deep-embedded programs, proved equal to the model) + "
                 "symbolic differential correspondence",
}
ASSUMPTIONS = [
    "element semantics (Python numbers) is not modelled: the theorems are over a free term algebra, i.e. about wiring; WHICH applications raise "
    "is an arbitrary parameter `bad : Term -> Bool` of the exception theorems (they hold for every such oracle)",
    "operands are Streams, non-Stream iterables or non-iterable scalars; classes registered with avoid_stream give NotImplemented",
    "Stream.__init__ is modelled for 1 and 2 arguments (n > 2 is the same fold)",
]

# ------------------------------------------------------------------------------------------------
# the Python data model, as the harness needs it to write `a <op> b` for a given dunder
# (route "syntax"); NOT used for the verdict: model and spec come from Lean.
# ------------------------------------------------------------------------------------------------
ARITH = ["add", "sub", "mul", "truediv", "floordiv", "mod", "pow", "matmul", "rshift", "lshift", "and", "or", "xor"]
CMP = ["lt", "le", "eq", "ne", "gt", "ge"]
UNARY = ["pos", "neg", "invert"]
SWAP = {"lt": "gt", "gt": "lt", "le": "ge", "ge": "le", "eq": "eq", "ne": "ne"}
BIN_DUNDERS = ["__%s__" % n for n in ARITH] + ["__r%s__" % n for n in ARITH] + ["__%s__" % n for n in CMP]
UN_DUNDERS = ["__%s__" % n for n in UNARY]
ALL_DUNDERS = BIN_DUNDERS + UN_DUNDERS
assert len(ALL_DUNDERS) == 35


def base_of(d):
    """ dunder -> (base operator name, reflected?) for names of the python data model """
    n = d[2:-2]
    if n in ARITH or n in CMP or n in UNARY:
        return n, False
    if n.startswith("r") and n[1:] in ARITH:
        return n[1:], True
    return None, False


# ------------------------------------------------------------------------------------------------
# element types
# ------------------------------------------------------------------------------------------------
class Sym(object):
    """ symbolic tracer element: every operator is defined, non-commutative, records what was applied """
    __slots__ = ("e",)

    def __init__(self, e):
        self.e = e

    def __repr__(self):
        return self.e

    __hash__ = object.__hash__

    def __abs__(self):
        return Sym("abs(%s)" % self.e)

    def __call__(self):
        return Sym("call(%s)" % self.e)

    @property
    def real(self):
        return Sym("real(%s)" % self.e)

    @property
    def imag(self):
        return Sym("imag(%s)" % self.e)

    def conjugate(self):
        return Sym("conj(%s)" % self.e)


def _sym_bin(name, refl):
    def f(self, other, *_):
        if isinstance(other, Iterable) and not isinstance(other, str):
            return NotImplemented       # like a well-behaved number type: let the Stream handle it
        a, b = (other, self) if refl else (self, other)
        return Sym("%s(%s,%s)" % (name, _stable_repr(a), _stable_repr(b)))
    return f


def _stable_repr(x):
    """ repr, made stable for the library's TableLookup (which has none of its own) """
    if type(x).__name__ == "TableLookup":
        return "TableLookup(%r, cycles=%r)" % (x.table, x.cycles)
    return repr(x)


for _n in ARITH:
    setattr(Sym, "__%s__" % _n, _sym_bin(_n, False))
    setattr(Sym, "__r%s__" % _n, _sym_bin(_n, True))
for _n in CMP:
    setattr(Sym, "__%s__" % _n, _sym_bin(_n, False))
for _n in UNARY:
    setattr(Sym, "__%s__" % _n, (lambda n: lambda self: Sym("%s(%r)" % (n, self)))(_n))


def _install_vec_ops():
    for n in ARITH:
        setattr(Vec2, "__%s__" % n, _vec_bin(n, False))
        setattr(Vec2, "__r%s__" % n, _vec_bin(n, True))
    for n in ("lt", "le", "gt", "ge"):
        setattr(Vec2, "__%s__" % n, _vec_cmp(n))


class Mat(object):
    """ 2x2 integer matrix: a realistic element type for `@` (non-commutative) """
    __slots__ = ("m",)

    def __init__(self, m):
        self.m = tuple(tuple(r) for r in m)

    def __matmul__(self, o):
        if not isinstance(o, Mat):
            return NotImplemented
        a, b = self.m, o.m
        return Mat([[sum(a[i][k] * b[k][j] for k in range(2)) for j in range(2)] for i in range(2)])

    def __eq__(self, o):
        if not isinstance(o, Mat):
            return NotImplemented
        return self.m == o.m

    __hash__ = None

    def __repr__(self):
        return "Mat(%r)" % (self.m,)


class Vec2(object):
    """ exact 2D vector value type: INDEXABLE (`__getitem__`, `__len__`) but no `__iter__`, so it is no
        `collections.abc.Iterable` although `iter()` accepts it (legacy sequence protocol).  Arithmetic is
        componentwise (with another Vec2 or with a number), `@` is the dot product. """
    __slots__ = ("a", "b")

    def __init__(self, a, b):
        self.a, self.b = a, b

    def __getitem__(self, i):
        if i in (0, 1):
            return (self.a, self.b)[i]
        raise IndexError(i)

    def __len__(self):
        return 2

    def __repr__(self):
        return "Vec2(%s, %s)" % (canon(self.a), canon(self.b))

    def __eq__(self, o):
        if not isinstance(o, Vec2):
            return NotImplemented
        return bool(self.a == o.a) and bool(self.b == o.b)

    def __ne__(self, o):
        if not isinstance(o, Vec2):
            return NotImplemented
        return not (bool(self.a == o.a) and bool(self.b == o.b))

    __hash__ = None


def _vec_bin(name, refl):
    fn = getattr(operator, "__%s__" % name)

    def f(self, other, *_):
        if isinstance(other, Iterable) and not isinstance(other, str):
            return NotImplemented       # let the Stream handle it
        if isinstance(other, (Indexable, LenIndexable)):
            return NotImplemented
        oa, ob = (other.a, other.b) if isinstance(other, Vec2) else (other, other)
        if name == "matmul":
            if not isinstance(other, Vec2):
                return NotImplemented
            return self.a * oa + self.b * ob
        if refl:
            return Vec2(fn(oa, self.a), fn(ob, self.b))
        return Vec2(fn(self.a, oa), fn(self.b, ob))
    return f


def _vec_cmp(name):
    fn = getattr(operator, "__%s__" % name)

    def f(self, other):
        if not isinstance(other, Vec2):
            return NotImplemented
        return fn((self.a, self.b), (other.a, other.b))
    return f


class Indexable(object):
    """ only `__getitem__` (no `__len__`, no `__iter__`, no arithmetic): `iter()` walks it, `isinstance(·, Iterable)` is False """
    def __init__(self, xs):
        self.xs = list(xs)

    def __getitem__(self, i):
        return self.xs[i]

    def __repr__(self):
        return "Indexable([%s])" % ", ".join(canon(x) for x in self.xs)


class LenIndexable(Indexable):
    """ `__len__` + `__getitem__`, still no `__iter__` """
    def __len__(self):
        return len(self.xs)

    def __repr__(self):
        return "LenIndexable([%s])" % ", ".join(canon(x) for x in self.xs)


OBJECT_KEYS = ("V", "G", "LG", "P", "TL")       # element encodings of operand OBJECTS (see `dec_val`)


def is_object_enc(j):
    return isinstance(j, dict) and any(k in j for k in OBJECT_KEYS)


def observe_operand(v):
    """ the observable predicates of an operand (python's own tests, no library code) and what `iter()` would deliver """
    abc = isinstance(v, Iterable)
    try:
        it_ = iter(v)
        works = True
    except TypeError:
        it_, works = None, False
    n_items = 0
    if works and not abc:
        try:
            for _ in it.islice(it_, 4):
                n_items += 1
        except Exception:
            pass
    return {"abc": abc, "iter": works, "getitem": hasattr(type(v), "__getitem__"), "len": hasattr(type(v), "__len__"),
            "n_items": n_items}


class _Timeout(BaseException):
    pass


_install_vec_ops()
_AL = []


def AL():
    """ the library under test, imported once (by `impl`, under its own generous watchdog); a failing import
        is remembered (python would re-run the package initialisation at every attempt) and re-raised for
        every case """
    if not _AL:
        import signal
        old_handler = signal.signal(signal.SIGALRM, _on_alarm)
        old_timer = signal.setitimer(signal.ITIMER_REAL, 60.0)
        try:
            import audiolazy
            _AL.append(audiolazy)
        except _Timeout:
            _AL.append(ImportError("import of audiolazy does not return within 60 s"))
        except KeyboardInterrupt:
            raise
        except BaseException as e:
            _AL.append(e)
        finally:
            signal.setitimer(signal.ITIMER_REAL, 0)
            signal.signal(signal.SIGALRM, old_handler)
            if old_timer[0] > 0:
                signal.setitimer(signal.ITIMER_REAL, max(old_timer[0], 0.05))
    if isinstance(_AL[0], BaseException):
        raise _AL[0].with_traceback(None)      # (a re-raised instance would otherwise grow its traceback)
    return _AL[0]


def _on_alarm(signum, frame):
    raise _Timeout()


class Ignored(object):
    """ instance of a class registered with Stream.register_ignored_class (avoid_stream) """
    def __init__(self, tag):
        self.tag = tag

    def __repr__(self):
        return "Ignored(%r)" % self.tag


_registered = []


def _ensure_registered():
    if not _registered:
        AL().Stream.register_ignored_class(Ignored)
        _registered.append(True)


def dec_val(j):
    """ JSON -> element """
    if isinstance(j, dict):
        if "S" in j:
            return Sym(j["S"])
        if "F" in j:
            return Fraction(j["F"][0], j["F"][1])
        if "C" in j:
            return complex(j["C"][0], j["C"][1])
        if "M" in j:
            return Mat(j["M"])
        if "T" in j:
            return j["T"]           # a text element
        if "Z" in j:
            return tuple(dec_val(x) for x in j["Z"])     # a tuple element (what zip / enumerate deliver)
        if "B" in j:
            return xc.Boom(j["B"])  # an element on which every operation raises this exception
        if "V" in j:
            return Vec2(dec_val(j["V"][0]), dec_val(j["V"][1]))      # an indexable value object (no Iterable)
        if "G" in j:
            return Indexable([dec_val(x) for x in j["G"]])
        if "LG" in j:
            return LenIndexable([dec_val(x) for x in j["LG"]])
        if "P" in j:            # the library's own polynomial: `__getitem__` that never raises, not iterable
            return AL().Poly(dict((i, dec_val(x)) for i, x in enumerate(j["P"])))
        if "TL" in j:           # the library's own lookup table: `__len__` + `__getitem__`, not iterable
            return AL().TableLookup([dec_val(x) for x in j["TL"]])
        raise ValueError("unknown element encoding %r" % (j,))
    return j                        # int, bool, float, None


def canon(v):
    """ element -> canonical, JSON-able, type-exact description """
    if isinstance(v, float) and v != v:
        return "float:nan"
    if isinstance(v, complex) and (v.real != v.real or v.imag != v.imag):
        return "complex:nan"
    if isinstance(v, (list, tuple)):
        return "%s:[%s]" % (type(v).__name__, ",".join(canon(x) for x in v))
    if type(v).__name__ == "TableLookup":
        return "TableLookup:" + _stable_repr(v)
    if type(v) is int and v.bit_length() > 4000:
        return "int:huge:%d bits:%d" % (v.bit_length(), v % 1000003)      # (repr of such an int is refused by python 3.12)
    return "%s:%r" % (type(v).__name__, v)


# ------------------------------------------------------------------------------------------------
# term evaluation (terms come from the Lean driver: int = atom id, [fn, args...] = application)
# ------------------------------------------------------------------------------------------------
MAPFUNCS = {"float": float, "neg": operator.neg, "str": str, "pair": lambda x: (x, x)}


def apply_label(f, args):
    if f.startswith("__") and f.endswith("__") and hasattr(operator, f):
        return getattr(operator, f)(*args)
    if f == "abs":
        return abs(args[0])
    if f == "call":
        return args[0]()
    if f.startswith("attr:"):
        return getattr(args[0], f[5:])
    if f.startswith("map:"):
        return MAPFUNCS[f[4:]](args[0])
    raise KeyError("unknown function label %r" % f)


def eval_term(t, env):
    if isinstance(t, int):
        return env[t]
    return apply_label(t[0], [eval_term(a, env) for a in t[1:]])


def outcomes(terms, env, n, trace=None):
    """ what evaluating the terms one after the other delivers: canonical items + how it ends.
        `trace` (from the model): for every next() the element computations python performs, in order,
        including those whose result is thrown away (the item of `a` in map(f, a, b) when `b` has ended):
        an element operation that raises there surfaces at that next() """
    items = []
    steps = max(len(terms), len(trace) if trace is not None else 0)
    for k in range(steps):
        try:
            if trace is not None and k < len(trace):
                for t in trace[k]:
                    eval_term(t, env)
            if k < len(terms):
                items.append(canon(eval_term(terms[k], env)))
        except Exception as e:
            return {"items": items, "end": "err:" + err_kind(e)}
    return {"items": items, "end": "limit" if len(terms) >= n else "stop"}


# ------------------------------------------------------------------------------------------------
# the expression trees
#   node = {"k": scalar|ignored|iterable|stream1|stream2|un|bin|meth|append, ...}
#   iterable: "xs" element encodings, "kind" list|tuple|gen|deque|iter|range|str|dictkeys, "tag" (filled by `number`)
#   stream1 : "ctor" Stream|ControlStream|thub ;   un/bin: "d" dunder, "route" direct|syntax
# ------------------------------------------------------------------------------------------------
def number(node, st=None, n=0):
    """ assign atom ids / tags in traversal order; returns (request tree for the driver, env id->element, leaves).
        `n` = number of next() calls of the observation: an endless leaf is described to the driver by its first
        n + 2 elements (see c01_flavours); a leaf built with a lazy_itertools wrapper is a Stream: stream1(iterable) """
    if st is None:
        st = {"next": 0, "env": {}, "tags": 0, "leaves": [], "n": n}
    k = node["k"]

    def fresh(v):
        i = st["next"]
        st["next"] += 1
        st["env"][i] = v
        return i
    if k == "scalar" and is_object_enc(node["c"]):
        # an OBJECT as operand: the driver is told what can be observed about it, the model classifies it
        v = dec_val(node["c"])
        ob = observe_operand(v)
        i = fresh(v)
        r = {"k": "operand", "c": i, "ignored": False, "abc": ob["abc"], "iter": ob["iter"], "getitem": ob["getitem"],
             "len": ob["len"], "tag": 900000 + i,
             "xs": [1000000 + 8 * i + q for q in range(ob["n_items"])]}     # atoms of what iter() would deliver: in no env
    elif k in ("scalar", "ignored"):
        v = Ignored(node.get("c")) if k == "ignored" else dec_val(node["c"])
        r = {"k": k, "c": fresh(v)}
    elif k == "iterable":
        tag = st["tags"]
        st["tags"] += 1
        ids = [fresh(dec_val(x)) for x in fl.items(node, st["n"])]
        st["leaves"].append((tag, node.get("kind", "list"), len(ids)))
        r = {"k": k, "tag": tag, "xs": ids}
        if fl.is_stream_valued(node):
            r = {"k": "stream1", "a": r}
    elif k == "stream1":
        r = {"k": k, "a": number(node["a"], st)[0]}
    elif k == "stream2":
        r = {"k": k, "a": number(node["a"], st)[0], "b": number(node["b"], st)[0]}
    elif k == "un":
        r = {"k": k, "d": node["d"], "s": number(node["s"], st)[0]}
    elif k == "bin":
        s = number(node["s"], st)[0]
        r = {"k": k, "d": node["d"], "s": s, "o": number(node["o"], st)[0]}
    elif k == "meth" and node["l"] == "attr:__next__":
        # `s.__next__` ("Streams are iterable, not iterators"): AttributeError, like any name that is no operator method
        r = {"k": "un", "d": "__next__", "s": number(node["s"], st)[0]}
    elif k == "meth":
        r = {"k": k, "l": node["l"], "s": number(node["s"], st)[0]}
    elif k == "append":
        s = number(node["s"], st)[0]
        r = {"k": k, "s": s, "o": number(node["o"], st)[0]}
    else:
        raise ValueError("unknown node kind %r" % k)
    return r, st["env"], st["leaves"]


class NotImpl(Exception):
    pass


_subclass = []


def stream_subclass():
    if not _subclass:
        class Sub(AL().Stream):
            """ a user subclass of Stream that changes nothing """
        _subclass.append(Sub)
    return _subclass[0]


class Unsupported(Exception):
    """ the case cannot be written with the requested route (generator problem, not a finding) """


def build(node, st):
    """ evaluate the tree with the REAL audiolazy objects; same traversal order as `number` """
    Stream, ControlStream, thub = AL().Stream, AL().ControlStream, AL().thub
    k = node["k"]

    def fresh(v):
        st["next"] += 1
        return v
    if k == "scalar":
        return fresh(st["env"][st["next"]])
    if k == "ignored":
        _ensure_registered()
        return fresh(st["env"][st["next"]])
    if k == "iterable":
        tag = st["tags"]
        st["tags"] += 1
        if fl.is_endless(node):
            for _ in fl.items(node, st["n"]):
                fresh(None)
            vals = [dec_val(x) for x in node["xs"]]          # the description of the endless base
            return fl.make(node, vals, AL())
        xs = [fresh(st["env"][st["next"]]) for _ in node["xs"]]
        counter = None
        if node.get("kind", "list") in fl.COUNTING:
            reads = st["reads"]
            reads[tag] = 0

            def counter(vals):
                for x in vals:
                    reads[tag] += 1
                    yield x
        return fl.make(node, xs, AL(), counter)
    if k == "stream1":
        a = build(node["a"], st)
        ctor = node.get("ctor", "Stream")
        if ctor == "Stream":
            return Stream(a)
        if ctor == "ControlStream":
            return ControlStream(a)
        if ctor == "thub":
            return thub(a, 1)
        if ctor == "Sub":                  # a user subclass of Stream
            return stream_subclass()(a)
        if ctor == "copy":                 # the tee copy ...
            return Stream(a).copy()
        if ctor == "orig":                 # ... and the Stream it was taken from
            s_ = Stream(a)
            s_.copy()
            return s_
        if ctor == "limit":
            return Stream(a).limit(10 ** 9)
        if ctor == "skip0":
            return Stream(a).skip(0)
        if ctor == "altee":
            return AL().tee(Stream(a), 1)[0]
        if ctor == "thubcopy":
            h = thub(a, 1)
            c_ = h.copy()
            list(it.islice(iter(h), 0))    # use the hub's only copy (no MemoryLeakWarning)
            return c_
        raise ValueError(ctor)
    if k == "stream2":
        a = build(node["a"], st)
        b = build(node["b"], st)
        return Stream(a, b)
    if k == "un":
        s = build(node["s"], st)
        d = node["d"]
        if node.get("route", "direct") == "syntax":
            return getattr(operator, d)(s)
        m = getattr(type(s), d, None)          # special methods are looked up on the type
        if m is None:
            raise AttributeError(d)
        return m(s)
    if k == "bin":
        s = build(node["s"], st)
        o = build(node["o"], st)
        d = node["d"]
        route = node.get("route", "direct")
        if route == "direct":
            m = getattr(type(s), d, None)
            if m is None:
                raise AttributeError(d)
            r = m(s, o)
        else:
            base, refl = base_of(d)
            if base is None:
                raise Unsupported("no syntax for " + d)
            if route == "syntax":
                fn = getattr(operator, "__%s__" % base)
                r = fn(o, s) if refl else fn(s, o)
            elif route == "swapped":           # comparison written with the Stream on the right
                fn = getattr(operator, "__%s__" % SWAP[base])
                r = fn(o, s)
            else:
                raise ValueError(route)
        if r is NotImplemented:
            raise NotImpl()
        return r
    if k == "meth":
        s = build(node["s"], st)
        l = node["l"]
        if l == "abs":
            return abs(s)
        if l == "call":
            return s()
        if l.startswith("attr:"):
            return getattr(s, l[5:])
        if l.startswith("map:"):
            return s.map(MAPFUNCS[l[4:]])
        raise ValueError(l)
    if k == "append":
        s = build(node["s"], st)
        o = build(node["o"], st)
        return s.append(o)
    raise ValueError(k)


def is_finite(node):
    """ does the expression end?  (generator-side knowledge, used only to choose list(...) vs islice) """
    k = node["k"]
    if k in ("scalar", "ignored"):
        return False
    if k == "iterable":
        return not fl.is_endless(node)
    if k == "stream1":
        return is_finite(node["a"])
    if k == "stream2":
        return is_finite(node["a"]) and is_finite(node["b"])
    if k in ("un", "meth"):
        return is_finite(node["s"])
    if k == "bin":
        return is_finite(node["s"]) or is_finite(node["o"])
    if k == "append":
        return is_finite(node["s"]) and is_finite(node["o"])
    return False


def total_items(node):
    k = node["k"]
    if k == "iterable":
        return 0 if fl.is_endless(node) else len(node["xs"])
    return sum(total_items(node[c]) for c in ("a", "b", "s", "o") if c in node and isinstance(node[c], dict))


def depth(node):
    return 1 + max([depth(node[c]) for c in ("a", "b", "s", "o") if c in node and isinstance(node[c], dict)] + [0])


def nodes(node):
    yield node
    for c in ("a", "b", "s", "o"):
        if c in node and isinstance(node[c], dict):
            for x in nodes(node[c]):
                yield x


def take_n(c):
    if c.get("finite"):
        return total_items(c["prog"]) + 2
    return c.get("n", 12)


# ------------------------------------------------------------------------------------------------
# impl / request / compare
# ------------------------------------------------------------------------------------------------
def impl_expr(c):
    prog = c["prog"]
    _req, env, leaves = number(prog, n=take_n(c))
    st = {"next": 0, "env": env, "tags": 0, "reads": {}, "n": take_n(c)}
    try:
        res = build(prog, st)
    except NotImpl:
        return {"err": "NotImplemented"}
    except Unsupported as e:
        return {"err": "UNSUPPORTED:" + str(e)}
    except Exception as e:
        return {"err": err_kind(e)}
    Stream = AL().Stream
    obs = {"type_is_stream": isinstance(res, Stream), "reads0": dict((str(k), v) for k, v in st["reads"].items())}
    n = take_n(c)
    items = []
    end = "stop"
    try:
        # like list(expr), but never more than n items (n exceeds the total number of leaf items
        # for expressions the generator believes finite, so "stop" is reached by a real StopIteration)
        for x in it.islice(iter(res), n):
            items.append(canon(x))
        end = "limit" if len(items) >= n else "stop"
    except Exception as e:
        end = "err:" + err_kind(e)
    obs["items"] = items
    obs["end"] = end
    obs["reads"] = dict((str(k), v) for k, v in st["reads"].items())
    return obs


def _opfunc_name(fn):
    """ the dunder attribute of the `operator` module this function object is bound to """
    n = "__%s__" % getattr(fn, "__name__", "?").strip("_")
    return n if getattr(operator, n, None) is fn else "not-operator:" + repr(fn)


def impl_optable(c):
    OpMethod, Stream = AL().OpMethod, AL().Stream
    ops = []
    for op in OpMethod.get("all"):
        ops.append({"name": op.name, "symbol": op.symbol, "rev": bool(op.rev), "dname": op.dname,
                    "arity": op.arity, "func": _opfunc_name(op.func), "repr": repr(op)})
    # what is really bound in the class: every dunder-looking callable of Stream.__dict__ that the
    # metaclass templates produce (closure over `op_func`), with the operator function it closes over
    installed = []
    for name, f in sorted(vars(Stream).items()):
        clo = getattr(f, "__closure__", None)
        if not (name.startswith("__") and name.endswith("__") and callable(f) and clo):
            continue
        cells = dict(zip(f.__code__.co_freevars, [cell.cell_contents for cell in clo]))
        fn = cells.get("op_func")
        if fn is None:
            continue
        qual = getattr(f, "__qualname__", "")
        builder = ("rbinary" if "__rbinary__" in qual else "binary" if "__binary__" in qual
                   else "unary" if "__unary__" in qual else "?")
        installed.append({"dname": name, "builder": builder, "func": _opfunc_name(fn)})
    return {"ops": ops, "installed": installed}


IMPL_SECONDS = 1.0
_budget = [IMPL_SECONDS]
_hangs = [0]
IMPL_BYTES = 6 << 30


def impl(c):
    """ a case that hits the watchdog is run a second time: only a repeated time-out is reported """
    io = _impl_once(c)
    if io.get("err") == "TIMEOUT":
        io = _impl_once(c)
        if io.get("err") == "TIMEOUT":
            # a real hang exists: do not spend a second on each further one (a regular case needs ~1 ms of CPU)
            _hangs[0] += 1
            _budget[0] = min(_budget[0], 0.4 if _hangs[0] < 4 else 0.15 if _hangs[0] < 12 else 0.06)
    return io


def _impl_once(c):
    """ one case on the real code, under a watchdog: a realistic bug can make a lazy stage eager on an
        endless operand (no return / unbounded memory); that must become an observation, not a hang.
        The timer counts CPU time of this process (ITIMER_VIRTUAL), so machine load cannot trip it. """
    import resource
    import signal
    try:
        AL()                      # first use: import outside the per-case watchdog
    except BaseException:
        pass
    import gc
    gc_was_on = gc.isenabled()
    gc.disable()                  # a full collection of the engine's heap costs ~1 s of CPU: not inside the timed region
    old_handler = signal.signal(signal.SIGVTALRM, _on_alarm)
    soft, hard = resource.getrlimit(resource.RLIMIT_AS)
    try:
        resource.setrlimit(resource.RLIMIT_AS, (IMPL_BYTES if hard == resource.RLIM_INFINITY else min(IMPL_BYTES, hard), hard))
    except (ValueError, OSError):
        pass
    signal.setitimer(signal.ITIMER_VIRTUAL, _budget[0])
    try:
        if c["entry"] == "expr":
            return impl_expr(c)
        if c["entry"] == "optable":
            return impl_optable(c)
        if c["entry"] == "bcast":
            return impl_bcast(c)
        if c["entry"] == "exprE":
            return xc.impl_expr(c)
        if c["entry"] == "bcastE":
            return xc.impl_bcast(c)
        if c["entry"] == "meta":
            return xc.impl_meta(c)
        if c["entry"] == "opget":
            return xc.impl_opget(c)
        raise ValueError(c["entry"])
    except _Timeout:
        return {"err": "TIMEOUT"}
    except MemoryError:
        return {"err": "OTHER:MemoryError"}
    finally:
        signal.setitimer(signal.ITIMER_VIRTUAL, 0)
        signal.signal(signal.SIGVTALRM, old_handler)
        try:
            resource.setrlimit(resource.RLIMIT_AS, (soft, hard))
        except (ValueError, OSError):
            pass
        if gc_was_on:
            gc.enable()


def request(c):
    if c["entry"] == "expr":
        return {"entry": "expr", "prog": number(c["prog"], n=take_n(c))[0], "n": take_n(c)}
    if c["entry"] == "bcast":
        return request_bcast(c)
    if c["entry"] in ("exprE", "bcastE"):
        return xc.request(c)
    if c["entry"] == "meta":
        return dict((k, c[k]) for k in ("entry", "ops", "without", "have", "ns"))
    if c["entry"] == "opget":
        return dict((k, c[k]) for k in ("entry", "keys", "without"))
    return {"entry": c["entry"]}


def _cmp_side(c, io, side, label, env, leaves, with_reads, trace=None):
    """ compare the impl observation with one side (model / spec) of the driver payload """
    out = []
    n = take_n(c)
    if "err" in side:
        if io.get("err") != side["err"]:
            out.append("%s predicts %s, impl: %s" % (label, side["err"], io.get("err", "a value")))
        return out
    if "err" in io:
        out.append("impl raised %s, %s predicts a %s" % (io["err"], label, side.get("kind", side.get("sort"))))
        return out
    if side.get("kind", side.get("sort")) != "stream":
        out.append("%s: value is not a Stream (%s)" % (label, side.get("kind", side.get("sort"))))
        return out
    if not io["type_is_stream"]:
        out.append("impl result is not a Stream")
    exp = outcomes(side["items"], env, n, side.get("trace") if trace is None else trace)
    if exp["items"] != io["items"] or exp["end"] != io["end"]:
        k = next((i for i, (a, b) in enumerate(zip(exp["items"], io["items"])) if a != b), min(len(exp["items"]), len(io["items"])))
        out.append("%s differs at index %d: impl %s (%d items, end=%s) vs %s %s (%d items, end=%s)" % (
            label, k, io["items"][k:k + 1], len(io["items"]), io["end"], label, exp["items"][k:k + 1], len(exp["items"]), exp["end"]))
    if with_reads:
        if any(v != 0 for v in io["reads0"].values()):
            out.append("source read while the expression was built: %r" % io["reads0"])
        if not exp["end"].startswith("err") and not io["end"].startswith("err"):
            total = dict((str(t), ln) for t, _k, ln in leaves)
            unread = dict((str(t), u) for t, u in side.get("unread", []))
            for t, got in io["reads"].items():
                if t in unread and total[t] - unread[t] != got:
                    out.append("read count of source %s: impl %d, model %d" % (t, got, total[t] - unread[t]))
    return out


SYMBOL = {"add": "+", "sub": "-", "mul": "*", "truediv": "/", "floordiv": "//", "mod": "%", "pow": "**", "matmul": "@",
          "rshift": ">>", "lshift": "<<", "and": "&", "or": "|", "xor": "^", "lt": "<", "le": "<=", "eq": "==", "ne": "!=",
          "gt": ">", "ge": ">=", "pos": "+", "neg": "-", "invert": "~"}


def render(node):
    """ the expression in python syntax, for the replay's detail line """
    k = node["k"]
    if k in ("scalar", "ignored"):
        return repr(dec_val(node["c"])) if k == "scalar" else "Ignored()"
    if k == "iterable":
        return fl.render(node, lambda x: repr(dec_val(x)))
    if k == "stream1":
        c = node.get("ctor", "Stream")
        fmt = {"thub": "thub(%s, 1)", "copy": "Stream(%s).copy()", "orig": "copied_from(Stream(%s))", "limit": "Stream(%s).limit(10**9)",
               "skip0": "Stream(%s).skip(0)", "altee": "audiolazy.tee(Stream(%s), 1)[0]", "thubcopy": "thub(%s, 1).copy()"}
        return fmt.get(c, c + "(%s)") % render(node["a"])
    if k == "stream2":
        return "Stream(%s, %s)" % (render(node["a"]), render(node["b"]))
    if k == "un":
        base = base_of(node["d"])[0]
        if node.get("route") == "syntax" and base:
            return "(%s%s)" % (SYMBOL[base], render(node["s"]))
        return "%s.%s()" % (render(node["s"]), node["d"])
    if k == "bin":
        base, refl = base_of(node["d"])
        r = node.get("route", "direct")
        if r == "syntax" and base:
            a, b = (node["o"], node["s"]) if refl else (node["s"], node["o"])
            return "(%s %s %s)" % (render(a), SYMBOL[base], render(b))
        if r == "swapped" and base:
            return "(%s %s %s)" % (render(node["o"]), SYMBOL[SWAP[base]], render(node["s"]))
        return "%s.%s(%s)" % (render(node["s"]), node["d"], render(node["o"]))
    if k == "meth":
        l = node["l"]
        s_ = render(node["s"])
        return "abs(%s)" % s_ if l == "abs" else s_ + "()" if l == "call" else s_ + "." + l[5:] if l.startswith("attr:") \
            else "%s.map(%s)" % (s_, l[4:])
    if k == "append":
        return "%s.append(%s)" % (render(node["s"]), render(node["o"]))
    return "?"


def compare_expr(c, io, drv):
    out = _compare_expr(c, io, drv)
    if out:
        try:
            out[0] = (out[0][0], "list(%s): %s" % (render(c["prog"])[:300], out[0][1]))
        except Exception:
            pass
    return out


def _compare_expr(c, io, drv):
    _req, env, leaves = number(c["prog"], n=take_n(c))
    if str(io.get("err", "")).startswith("UNSUPPORTED") or str(io.get("err", "")).startswith("UNMAPPED"):
        return [("model", "harness problem: " + io["err"] + " " + io.get("trace", ""))]
    out = []
    for d in _cmp_side(c, io, drv["model"], "model", env, leaves, True):
        out.append(("model", d))
    spec = dict(drv["spec"])
    if spec["sort"] != "stream":
        # ill-typed for the specification: the real code must refuse it as well (any of the refusals)
        if "err" not in io:
            out.append(("spec", "spec: not a Stream expression (%s) but impl delivered %r" % (spec["sort"], io.get("items"))))
    else:
        # element operations that raise are outside the property; which exception surfaces where is
        # predicted by the model (order of the element computations), so the spec side borrows that trace
        for d in _cmp_side(c, io, spec, "spec", env, leaves, False, trace=drv["model"].get("trace")):
            out.append(("spec", d))
        if "err" not in io and not io["end"].startswith("err"):
            n = take_n(c)
            want = n if spec["len"] == "inf" else min(n, spec["len"])
            if want != len(io["items"]):
                out.append(("spec", "delivers %d items (asked for at most %d), the shortest iterable operand has %s" % (
                    len(io["items"]), n, spec["len"])))
    return out


def compare_optable(c, io, drv):
    out = []
    if "err" in io:
        return [("model", "impl raised " + io["err"]), ("spec", "impl raised " + io["err"])]
    m = drv["model"]
    if io["ops"] != m["ops"]:
        diff = [(a, b) for a, b in zip(io["ops"], m["ops"]) if a != b][:2]
        out.append(("model", "OpMethod metadata differs from the model of _insert: %r (impl %d entries, model %d)" % (
            diff, len(io["ops"]), len(m["ops"]))))
    inst = sorted(({"dname": d["dname"], "builder": d["builder"], "func": d["func"]} for d in io["installed"]), key=lambda d: d["dname"])
    if m["installed"] is None:
        out.append(("model", "model: class creation fails"))
    else:
        mi = sorted(m["installed"], key=lambda d: d["dname"])
        if inst != mi:
            diff = [x for x in inst if x not in mi][:2] + [x for x in mi if x not in inst][:2]
            out.append(("model", "dunders bound in class Stream differ from the model of the metaclass: %r" % diff))
    sp = sorted(({"dname": d["dname"], "builder": d["builder"], "func": d["func"]} for d in drv["spec"]), key=lambda d: d["dname"])
    if inst != sp:
        diff = [x for x in inst if x not in sp][:2] + [x for x in sp if x not in inst][:2]
        out.append(("spec", "dunders bound in class Stream differ from the specification table: %r" % diff))
    return out


def compare(c, io, drv):
    if c["entry"] == "expr":
        return compare_expr(c, io, drv)
    if c["entry"] == "optable":
        return compare_optable(c, io, drv)
    if c["entry"] == "bcast":
        return compare_bcast(c, io, drv)
    if c["entry"] == "exprE":
        return xc.compare_expr(c, io, drv)
    if c["entry"] == "bcastE":
        return xc.compare_bcast(c, io, drv)
    if c["entry"] == "meta":
        return xc.compare_meta(c, io, drv)
    if c["entry"] == "opget":
        return xc.compare_opget(c, io, drv)
    return [("model", "unknown entry")]


def nontrivial(c, io):
    if c["entry"] == "expr":
        return bool(io.get("items"))
    if c["entry"] == "bcast":
        return bool(io.get("applied"))
    if c["entry"] in ("exprE", "bcastE"):
        return xc.nontrivial(c, io)
    return "err" not in io


# ------------------------------------------------------------------------------------------------
# generators
# ------------------------------------------------------------------------------------------------
_symc = [0]


def sym_vals(prefix, n):
    return [{"S": "%s%d" % (prefix, i)} for i in range(n)]


def leaf(kind, xs):
    return {"k": "iterable", "kind": kind, "xs": xs}


def stream_of(node, ctor="Stream"):
    return {"k": "stream1", "ctor": ctor, "a": node}


SUBCLASS_CTORS = ("ControlStream", "thub", "Sub")        # stream1 ctors whose value is an instance of a proper subclass of Stream
PLAIN_CTORS = ("Stream", "copy", "orig", "limit", "skip0", "altee", "thubcopy")


def pyclass(node):
    """ python class of the value of a Stream-valued node (ControlStream.map/append/abs return self) """
    k = node["k"]
    if k == "iterable":
        return "Stream" if fl.is_stream_valued(node) else None
    if k == "stream1":
        c = node.get("ctor", "Stream")
        return c if c in SUBCLASS_CTORS else "Stream"
    if k == "append" or (k == "meth" and (node["l"] == "abs" or node["l"].startswith("map:"))):
        # map / append / abs return `self`: an instance of a Stream subclass stays one (python then tries ITS reflected
        # method first, i.e. evaluates it as the first operand — visible as soon as element operations raise)
        return pyclass(node["s"]) if pyclass(node["s"]) in SUBCLASS_CTORS else "Stream"
    if k in ("stream2", "un", "bin", "meth"):
        return "Stream"
    return None


def fix_routes(node):
    """ `s < o` written with operator syntax reaches s.__lt__(o) unless type(o) is a proper subclass of type(s):
        then python tries o.__gt__(s) first (the mirrored comparison, a different term).  Such nodes are called
        directly instead. """
    if not isinstance(node, dict):
        return node
    q = dict(node)
    for ch in ("a", "b", "s", "o"):
        if ch in q and isinstance(q[ch], dict):
            q[ch] = fix_routes(q[ch])
    if q["k"] == "bin" and q.get("route") == "syntax" and base_of(q["d"])[0] in CMP:
        if pyclass(q["s"]) == "Stream" and pyclass(q["o"]) in SUBCLASS_CTORS:
            q["route"] = "direct"
    if q["k"] == "bin" and q.get("route", "direct") != "direct" and base_of(q["d"])[0] is not None:
        # (after a shrinking step changed an operand) a route python's dispatch does not take for these operands
        if q["route"] not in routes_for_nodes(q["d"], q["s"], q["o"]):
            q["route"] = "direct"
    return q


def expr_case(prog, finite=None, n=12, **kw):
    prog = fix_routes(prog)
    c = {"entry": "expr", "prog": prog}
    fin = is_finite(prog) if finite is None else finite
    if fin:
        c["finite"] = True
    else:
        c["n"] = n
    c.update(kw)
    return c


OTHER_KINDS = ["Stream", "list", "tuple", "gen", "scalar", "deque", "iter", "thub", "ControlStream", "cycle"]


def other_operand(kind, vals, scalar):
    """ the `other` operand of a binary dunder, of the given kind """
    if kind == "scalar":
        return {"k": "scalar", "c": scalar}
    if kind == "ControlStream":
        return stream_of({"k": "scalar", "c": scalar}, "ControlStream")
    if kind == "cycle":
        return {"k": "stream2", "a": {"k": "scalar", "c": scalar}, "b": {"k": "scalar", "c": vals[0] if vals else scalar}}
    if kind == "Stream":
        return stream_of(leaf("list", vals))
    if kind == "thub":
        return stream_of(stream_of(leaf("gen", vals)), "thub")
    return leaf(kind, vals)


NUM_FAMILIES = {
    # family -> (values for self, values for other, scalar, dunders it is meant for)
    "int": ([7, -3, 12, 5, 0, 9], [2, 3, 1, 4, 2, 5], 3,
            [d for d in ALL_DUNDERS if "matmul" not in d]),
    "bool": ([True, False, True, True], [False, True, True, False], True,
             ["__and__", "__rand__", "__or__", "__ror__", "__xor__", "__rxor__", "__invert__", "__eq__", "__ne__", "__lt__",
              "__add__", "__radd__", "__neg__"]),
    "frac": ([{"F": [1, 2]}, {"F": [-3, 4]}, {"F": [5, 3]}, {"F": [2, 1]}], [{"F": [2, 3]}, {"F": [1, 5]}, {"F": [-7, 2]}, {"F": [3, 1]}],
             {"F": [3, 7]},
             ["__%s__" % n for n in ["add", "radd", "sub", "rsub", "mul", "rmul", "truediv", "rtruediv", "floordiv", "rfloordiv",
                                    "mod", "rmod", "lt", "le", "eq", "ne", "gt", "ge", "neg", "pos"]]),
    "float": ([0.5, -1.25, 3.0, 2.5], [0.25, 4.0, -0.5, 1.5], 0.75,
              ["__%s__" % n for n in ["add", "radd", "sub", "rsub", "mul", "rmul", "truediv", "rtruediv", "floordiv", "rfloordiv",
                                     "mod", "rmod", "pow", "rpow", "lt", "le", "eq", "ne", "gt", "ge", "neg", "pos"]]),
    "complex": ([{"C": [1.0, 2.0]}, {"C": [0.5, -1.0]}, {"C": [-2.0, 0.25]}], [{"C": [0.0, 1.0]}, {"C": [2.0, 2.0]}, {"C": [1.5, -0.5]}],
                {"C": [0.5, 0.5]},
                ["__%s__" % n for n in ["add", "radd", "sub", "rsub", "mul", "rmul", "truediv", "rtruediv", "pow", "rpow",
                                       "eq", "ne", "neg", "pos"]]),
    "mat": ([{"M": [[1, 2], [3, 4]]}, {"M": [[0, 1], [1, 0]]}, {"M": [[2, 0], [1, 1]]}],
            [{"M": [[1, 1], [0, 1]]}, {"M": [[2, 3], [5, 7]]}, {"M": [[0, -1], [1, 0]]}], {"M": [[1, 2], [0, 1]]},
            ["__matmul__", "__rmatmul__", "__eq__", "__ne__"]),
}


def routes_for(d, other_kind):
    """ the ways the dunder can be reached: always directly; through operator syntax when python's
        dispatch ends in exactly this dunder """
    base, refl = base_of(d)
    rs = ["direct"]
    other_is_stream = other_kind in ("Stream", "thub", "ControlStream", "cycle")
    if base in UNARY:
        return rs + ["syntax"]
    if not refl:
        if not (base in CMP and other_kind in ("thub", "ControlStream")):
            # s <op> other : Stream.__op__ is tried first; when `other` is an instance of a Stream SUBCLASS python
            # tries other.__rop__(s) first, which is the same wiring for arithmetic, but the MIRRORED comparison
            # (other > s for s < other) for comparisons: a different term for the tracer, so not generated
            rs.append("syntax")
        if base in CMP and not other_is_stream and other_kind != "str":
            rs.append("swapped")            # other <cmp'> s
    else:
        if not other_is_stream and other_kind != "str":
            rs.append("syntax")             # other <op> s : other's type gives NotImplemented, then s.__rop__(other)
    return rs


def cross_cases(tier):
    cases = []
    length_pairs = [(3, 3), (2, 4), (4, 2), (0, 3), (3, 0)] if tier == "quick" else \
        [(a, b) for a in range(0, 5) for b in range(0, 5)]
    kinds = OTHER_KINDS + ["str"] if tier == "quick" else OTHER_KINDS + ["str", "dictkeys", "range"]
    for d in BIN_DUNDERS:
        for kind in kinds:
            for (ls, lo) in length_pairs:
                if kind in ("scalar", "ControlStream") and lo != 3 and not (tier != "quick" and lo == 0):
                    continue
                if kind == "cycle" and lo not in (3, 0):
                    continue
                if kind == "str":
                    ovals = [{"T": ch} for ch in "xyzw"[:lo]]
                elif kind == "dictkeys":
                    ovals = list(range(10, 10 + lo))
                elif kind == "range":
                    ovals = list(range(5, 5 + lo))
                else:
                    ovals = sym_vals("b", lo)
                for route in routes_for(d, kind):
                    if kind == "range" and lo == 0 and route != "direct":
                        continue
                    prog = {"k": "bin", "d": d, "route": route,
                            "s": stream_of(leaf("gen" if (ls + lo) % 2 else "list", sym_vals("a", ls))),
                            "o": other_operand(kind, ovals, {"S": "c"})}
                    cases.append(expr_case(prog, fam="sym", okind=kind))
    for d in UN_DUNDERS:
        for ls in (0, 1, 3):
            for route in ("direct", "syntax"):
                for skind in ("list", "gen"):
                    cases.append(expr_case({"k": "un", "d": d, "route": route, "s": stream_of(leaf(skind, sym_vals("a", ls)))},
                                           fam="sym", okind="-"))
        cases.append(expr_case({"k": "un", "d": d, "s": {"k": "stream2", "a": {"k": "scalar", "c": {"S": "p"}},
                                                          "b": {"k": "scalar", "c": {"S": "q"}}}}, fam="sym", okind="-", n=7))
    # numeric families
    for fam, (sv, ov, sc, ds) in NUM_FAMILIES.items():
        for d in ds:
            base, refl = base_of(d)
            if base in UNARY:
                cases.append(expr_case({"k": "un", "d": d, "route": "syntax", "s": stream_of(leaf("list", sv))}, fam=fam, okind="-"))
                continue
            for kind in ("Stream", "list", "gen", "scalar", "tuple"):
                for route in routes_for(d, kind):
                    if route == "direct" and kind in ("tuple",):
                        continue
                    prog = {"k": "bin", "d": d, "route": route, "s": stream_of(leaf("list", sv)),
                            "o": other_operand(kind, ov[:-1], sc)}
                    cases.append(expr_case(prog, fam=fam, okind=kind))
    return cases


# ------------------------------------------------------------------------------------------------
# operand OBJECTS between "iterable" and "scalar": indexable but no Iterable (iter() works through __getitem__)
# ------------------------------------------------------------------------------------------------
def operand_objects(fam="sym"):
    """ (name, element encoding, routes allowed) — objects whose own dunders could take a Stream are called directly """
    if fam == "sym":
        return [("Vec2", {"V": [{"S": "va"}, {"S": "vb"}]}, None),
                ("Vec2.num", {"V": [2, {"F": [1, 2]}]}, None),
                ("Indexable", {"G": [{"S": "g0"}, {"S": "g1"}]}, None),
                ("LenIndexable", {"LG": [{"S": "h0"}, {"S": "h1"}, {"S": "h2"}, {"S": "h3"}, {"S": "h4"}]}, None),
                ("LenIndexable.empty", {"LG": []}, None),
                ("Poly", {"P": [1, 2]}, ["direct"]),
                ("TableLookup", {"TL": [1, 2, 3, 4]}, ["direct"])]
    return [("Vec2.num", {"V": [2, {"F": [1, 2]}]}, None), ("Vec2.int", {"V": [3, -2]}, None)]


VEC_NUM = {
    # streams of numbers against an exact vector, streams of vectors against a vector (`@`, `==`, lexicographic order)
    "int": ([7, -3, 12, 5], ["add", "sub", "mul", "floordiv", "mod", "truediv", "pow", "and", "or", "xor", "lshift", "rshift", "eq", "ne", "lt"],
            {"V": [3, 2]}),
    "frac": ([{"F": [1, 2]}, {"F": [-2, 3]}, 3, 4, {"F": [5, 8]}], ["add", "sub", "mul", "truediv", "eq", "ne", "ge"], {"V": [{"F": [1, 2]}, 3]}),
    "vec": ([{"V": [1, 2]}, {"V": [{"F": [1, 2]}, 3]}, {"V": [0, -1]}, {"V": [1, 2]}],
            ["add", "sub", "mul", "matmul", "eq", "ne", "lt", "le", "gt", "ge"], {"V": [1, 2]}),
}


def operand_cases(rng, tier):
    cases = []
    # every binary dunder x object x route, Stream of tracer elements
    for d in BIN_DUNDERS:
        for (name, enc, allowed) in operand_objects("sym"):
            for route in routes_for(d, "scalar"):
                if allowed is not None and route not in allowed:
                    continue
                ls = rng.choice([1, 3, 3, 4])
                prog = {"k": "bin", "d": d, "route": route, "s": stream_of(leaf(rng.choice(["list", "gen"]), sym_vals("a", ls))),
                        "o": {"k": "scalar", "c": enc}}
                cases.append(expr_case(prog, fam="sym", okind="object:" + name))
    # real arithmetic
    for fam, (sv, names, vec) in VEC_NUM.items():
        for nme in names:
            ds = ["__%s__" % nme] + (["__r%s__" % nme] if nme in ARITH else [])
            for d in ds:
                for route in routes_for(d, "scalar"):
                    prog = {"k": "bin", "d": d, "route": route, "s": stream_of(leaf("list", sv)), "o": {"k": "scalar", "c": vec}}
                    cases.append(expr_case(prog, fam="vec." + fam, okind="object:Vec2.num"))
    # nested: the object on both sides of two levels, as the only argument of Stream(...), next to lists and endless operands
    objs = operand_objects("sym")
    for i in range(60 if tier == "quick" else 400):
        (n1, e1, a1), (n2, e2, a2) = rng.choice(objs), rng.choice(objs)
        d1, d2 = rng.choice(BIN_DUNDERS), rng.choice(BIN_DUNDERS)
        inner_s = stream_of(leaf("list", sym_vals("p%d_" % i, rng.choice([2, 3, 5]))))
        o1 = {"k": "scalar", "c": e1}
        inner = {"k": "bin", "d": d1, "s": inner_s, "o": o1,
                 "route": rng.choice([r for r in routes_for(d1, "scalar") if a1 is None or r in a1])}
        shape = rng.choice(["obj", "list", "streamobj", "cycle"])
        if shape == "obj":
            o2, ok2 = {"k": "scalar", "c": e2}, "scalar"
        elif shape == "list":
            o2, ok2 = leaf("list", sym_vals("q%d_" % i, rng.choice([1, 2, 4]))), "list"
        elif shape == "streamobj":
            o2, ok2 = stream_of({"k": "scalar", "c": e2}), "Stream"
        else:
            o2, ok2 = {"k": "stream2", "a": {"k": "scalar", "c": e2}, "b": {"k": "scalar", "c": {"S": "z"}}}, "cycle"
        rs = [r for r in routes_for(d2, ok2) if ok2 != "scalar" or a2 is None or r in a2]
        prog = {"k": "bin", "d": d2, "s": inner, "o": o2, "route": rng.choice(rs)}
        cases.append(expr_case(prog, fam="sym", okind="object:nested", n=6))
    return cases


# ------------------------------------------------------------------------------------------------
# operand flavours: every iterator kind the library hands out or accepts, on either side of every builder branch
# ------------------------------------------------------------------------------------------------
class _Probe(object):
    """ stands for a Stream in a question about PYTHON's dispatch only (never about the library): does
        `other <op> x` end in x's reflected method (resp. the mirrored comparison) when other's type refuses? """
    def __iter__(self):
        return iter(())


class _Hit(object):
    pass


for _n in ARITH:
    setattr(_Probe, "__r%s__" % _n, lambda self, other, *_: _Hit)
for _n in CMP:
    setattr(_Probe, "__%s__" % _n, lambda self, other: _Hit)

_dispatch_cache = {}


def syntax_reaches(node, base, swapped):
    """ `other <base> s` (reflected dunder) / `other <SWAP[base]> s` (swapped comparison) with `other` = this raw leaf:
        does python call the Stream's method?  (no: UserList.__add__ concatenates, bytes.__mod__ formats, ...) """
    key = (node.get("kind", "list"), node.get("inf"), base, swapped)
    if key not in _dispatch_cache:
        sample = dict(node)
        if not fl.is_endless(node):
            sample["xs"] = node["xs"][:1]
        try:
            o = fl.make(sample, [dec_val(x) for x in sample["xs"]], None)
            fn = getattr(operator, "__%s__" % (SWAP[base] if swapped else base))
            _dispatch_cache[key] = fn(o, _Probe()) is _Hit
        except Exception:
            _dispatch_cache[key] = False
    return _dispatch_cache[key]


def routes_for_nodes(d, s_node, o_node):
    """ routes_for, from the operand nodes themselves """
    base, refl = base_of(d)
    rs = ["direct"]
    if base in UNARY:
        return rs + ["syntax"]
    ocls = pyclass(o_node) if o_node["k"] != "scalar" else None
    o_raw = o_node["k"] == "iterable" and ocls is None
    if not refl:
        if not (base in CMP and ocls in SUBCLASS_CTORS and pyclass(s_node) == "Stream"):
            rs.append("syntax")
        if base in CMP and (o_node["k"] == "scalar" or (o_raw and syntax_reaches(o_node, base, True))):
            rs.append("swapped")
    elif o_node["k"] == "scalar" or (o_raw and syntax_reaches(o_node, base, False)):
        rs.append("syntax")
    return rs


OP_CLASSES = {}
for _d in BIN_DUNDERS:
    _b, _r = base_of(_d)
    OP_CLASSES.setdefault(("reflected-" if _r else "") + ("comparison" if _b in CMP else "bitwise-shift" if _b in
                          ("and", "or", "xor", "rshift", "lshift") else "arithmetic"), []).append(_d)
TUP_DUNDERS = {"arithmetic": ["__add__"], "reflected-arithmetic": ["__radd__"], "comparison": ["__%s__" % n for n in CMP]}
WRAP_CTORS = ["Stream", "thub", "Sub", "copy", "orig", "limit", "skip0", "altee", "thubcopy"]


def flavour_elems(con, m, p="b"):
    """ m elements obeying the flavour's constraint """
    if con == "same":
        return [{"S": p}] * m
    if con == "ints":
        return list(range(5, 5 + m))
    if con == "ap":
        return list(range(9, 9 - 2 * m, -2))
    if con == "bytes":
        return [7, 3, 12, 5, 9, 200][:m]
    if con == "text":
        return [{"T": ch} for ch in "xyzwvu"[:m]]
    if con == "hash":
        return list(range(10, 10 + m))
    if con == "tup":
        return [{"Z": [{"S": "%s%d" % (p, i)}]} for i in range(m)]
    if con == "enum":
        return [{"Z": [4 + i, {"S": "%s%d" % (p, i)}]} for i in range(m)]
    if con == "none":
        return []
    return sym_vals(p, m)


def all_flavours():
    """ (leaf template without elements, constraint) of every flavour """
    out = []
    for kind, con in fl.FINITE_KINDS.items():
        out.append(({"k": "iterable", "kind": kind}, con))
        if kind in fl.AL_FINITE:
            out.append(({"k": "iterable", "kind": kind, "al": True}, con))
    for base in fl.INF_BASES:
        con = {"repeat": "same", "count": "ints", "cycle": "any"}[base]
        for kind in fl.INF_KINDS:
            out.append(({"k": "iterable", "kind": kind, "inf": base}, con))
        for kind in fl.AL_INF:
            if kind == "streamN" and base == "count":
                continue
            out.append(({"k": "iterable", "kind": kind, "inf": base, "al": True}, con))
    return out


_FLAVOURS = all_flavours()


def inf_desc(base, rng):
    if base == "repeat":
        return [{"S": "r"}]
    if base == "count":
        return [rng.choice([0, 3, -2])] + ([rng.choice([2, -1, 3])] if rng.random() < 0.4 else [])
    return sym_vals("p", rng.choice([1, 2, 3]))


def as_stream(leaf_node, ctor="Stream"):
    """ a Stream-valued node over the leaf """
    if fl.is_stream_valued(leaf_node) and ctor == "Stream":
        return leaf_node
    return stream_of(leaf_node, ctor)


def flavour_cross(rng, tier):
    """ every flavour x position (other raw / other inside a Stream / self / self behind a wrapper ctor) x builder branch
        (binary|rbinary x iterable|scalar, unary) x length relation (the flavoured operand empty / shortest / equal /
        longer / endless against a finite, an empty and an endless partner) x one dunder of every operator class
        (thorough: three), routes chosen among those python's dispatch really takes """
    cases = []
    per_class = 1 if tier == "quick" else 3
    LEN_PAIRS = [(0, 3, "special-empty"), (1, 3, "special-shortest"), (2, 4, "special-shortest"), (3, 3, "equal"),
                 (4, 2, "partner-shortest"), (3, 0, "partner-empty"), (0, 0, "both-empty")]

    def dunders(con, classes=None):
        tbl = TUP_DUNDERS if con in ("tup", "enum") else OP_CLASSES
        out = []
        for cl in sorted(tbl):
            if classes is None or cl in classes:
                out += rng.sample(tbl[cl], min(per_class, len(tbl[cl])))
        return out

    def partner_elems(con, m, p="a"):
        return flavour_elems("tup", m, p) if con in ("tup", "enum") else sym_vals(p, m)

    def partner_scalar(con):
        return 2 if con in ("tup", "enum") else {"S": "c"}        # (a tuple would be an iterable operand)

    def endless_partner(con):
        """ an endless Stream of elements the flavour's elements can be combined with """
        if con in ("tup", "enum"):
            return stream_of({"k": "iterable", "kind": "raw", "inf": "repeat", "xs": [{"Z": [{"S": "c"}]}]})
        return stream_of({"k": "scalar", "c": {"S": "c"}})

    def emit(prog, flav, pos, rel, n=None):
        # the route: any of those that reach this dunder
        if prog["k"] == "bin":
            prog = dict(prog, route=rng.choice(routes_for_nodes(prog["d"], prog["s"], prog["o"])))
        else:
            prog = dict(prog, route=rng.choice(["direct", "syntax"]))
        kw = {"n": n} if n is not None else {}
        cases.append(expr_case(prog, fam="flavour", okind=flav, pos=pos, rel=rel, **kw))

    for tmpl, con in all_flavours():
        endless = fl.is_endless(tmpl)
        streamy = fl.is_stream_valued(tmpl)

        def F(m, p="b"):
            q = dict(tmpl)
            if endless:
                q["xs"] = inf_desc(tmpl["inf"], rng)
            else:
                q["xs"] = flavour_elems(con, m, p)
            return q
        flav = fl.flavour_name(tmpl)
        if con == "none":
            pairs = [(0, 3, "special-empty"), (0, 0, "both-empty")]
        elif endless:
            pairs = [(None, 0, "partner-empty"), (None, 1, "partner-shortest"), (None, 3, "partner-shortest")]
        else:
            pairs = LEN_PAIRS
        wrap = [c for c in WRAP_CTORS if c != "Stream"]
        rng.shuffle(wrap)
        wi = [0]

        def next_wrap():
            wi[0] += 1
            return wrap[wi[0] % len(wrap)]
        # --- the flavour is the OTHER operand --------------------------------------------------------------
        for (mf, mp, rel) in pairs:
            for d in dunders(con):
                s = stream_of(leaf(rng.choice(["list", "gen"]), partner_elems(con, mp)))
                emit({"k": "bin", "d": d, "s": s, "o": F(mf)}, flav, "other:stream" if streamy else "other:raw", rel)
                c = next_wrap() if rng.random() < 0.5 or streamy else "Stream"
                emit({"k": "bin", "d": d, "s": s, "o": stream_of(F(mf), c)}, flav, "other:" + c + "(..)", rel)
        # an endless self against it (bounded take): the flavoured operand alone decides where the result ends
        for mf in ([None] if endless else [0] if con == "none" else [0, 1, 2]):
            for d in dunders(con):
                e = rng.choice(["rep", "cycle", "count"]) if con not in ("tup", "enum") else "rep"
                s = {"rep": endless_partner(con),
                     "cycle": {"k": "stream2", "a": {"k": "scalar", "c": {"S": "c"}}, "b": {"k": "scalar", "c": {"S": "e"}}},
                     "count": stream_of({"k": "iterable", "kind": "raw", "inf": "count", "xs": [2]})}[e]
                rel = "both-endless" if endless else "special-empty" if mf == 0 else "special-shortest"
                o = F(mf) if rng.random() < 0.5 else stream_of(F(mf), rng.choice(["Stream", next_wrap()]))
                pos = "other:raw" if o["k"] == "iterable" and not streamy else "other:stream"
                emit({"k": "bin", "d": d, "s": s, "o": o}, flav, pos + "/self-endless", rel, n=rng.choice([3, 6]))
        # --- the flavour is SELF ----------------------------------------------------------------------------
        for (mf, mp, rel) in pairs:
            for d in dunders(con):
                ctor = "Stream" if rng.random() < 0.6 else next_wrap()
                s = as_stream(F(mf, "a"), ctor)
                okind = rng.choice(["list", "tuple", "gen", "Stream", "Stream", "thub"])
                o = other_operand(okind, partner_elems(con, mp, "b"), None)
                emit({"k": "bin", "d": d, "s": s, "o": o}, flav, "self:" + ctor, rel)
        for mf in ([None] if endless else [0] if con == "none" else [0, 1, 3]):
            ctor = "Stream" if rng.random() < 0.6 else next_wrap()
            rel = "n/a"
            # scalar branches
            for d in (rng.sample(["__mul__", "__rmul__", "__eq__", "__ne__"], 2 * per_class if per_class == 1 else 4)
                      if con in ("tup", "enum") else dunders(con)):
                emit({"k": "bin", "d": d, "s": as_stream(F(mf, "a"), ctor), "o": {"k": "scalar", "c": partner_scalar(con)}},
                     flav, "self:" + ctor, rel, n=5 if endless else None)
            # an endless iterable partner: the flavoured self decides where the result ends
            for d in dunders(con):
                o = rng.choice([endless_partner(con),
                                {"k": "iterable", "kind": "raw", "inf": "repeat", "xs": [partner_elems(con, 1, "c")[0]]},
                                {"k": "iterable", "kind": "raw", "inf": "cycle", "xs": partner_elems(con, 2, "q"), "al": True}])
                emit({"k": "bin", "d": d, "s": as_stream(F(mf, "a"), ctor), "o": o}, flav, "self:" + ctor + "/other-endless",
                     "both-endless" if endless else "special-empty" if mf == 0 else "special-shortest", n=rng.choice([4, 7]))
            # unary
            if con not in ("tup", "enum", "text"):
                for d in rng.sample(UN_DUNDERS, per_class):
                    emit({"k": "un", "d": d, "s": as_stream(F(mf, "a"), ctor)}, flav, "self:" + ctor, rel, n=5 if endless else None)
        # --- the same flavour on both sides ---------------------------------------------------------------
        if con != "none":
            for (ma, mb) in ([(None, None)] if endless else [(1, 3), (3, 1), (2, 2)]):
                for d in dunders(con, ("arithmetic", "reflected-arithmetic", "comparison")):
                    o = F(mb, "b") if rng.random() < 0.5 else as_stream(F(mb, "b"))
                    emit({"k": "bin", "d": d, "s": as_stream(F(ma, "a")), "o": o}, flav, "both",
                         "both-endless" if endless else "special-shortest" if ma != mb else "equal", n=4 if endless else None)
    return cases


PRIMARY_FLAVOURS = [
    {"kind": "repeat_n"}, {"kind": "range"}, {"kind": "range_step"}, {"kind": "map"}, {"kind": "filter"}, {"kind": "chain"}, {"kind": "islice"}, {"kind": "tee"},
    {"kind": "iterclass"}, {"kind": "bytes"}, {"kind": "genexp"}, {"kind": "reversed"}, {"kind": "sizedclass"},
    {"kind": "raw", "inf": "repeat"}, {"kind": "raw", "inf": "count"}, {"kind": "raw", "inf": "cycle"}, {"kind": "map", "inf": "count"},
    {"kind": "gen", "inf": "cycle"}, {"kind": "streamN", "inf": "cycle", "al": True},
    {"kind": "repeat_n", "al": True}, {"kind": "raw", "inf": "repeat", "al": True}, {"kind": "raw", "inf": "count", "al": True},
    {"kind": "raw", "inf": "cycle", "al": True}, {"kind": "chain", "al": True}, {"kind": "islice", "al": True}, {"kind": "map", "al": True},
    {"kind": "tee", "al": True},
]


def primary_cross(rng):
    """ the flavours a fast path is most likely written for x EVERY dunder x (other raw, other in a Stream, self with an
        iterable partner, self with a scalar) — a special case may be tied to one operator function (count() + k) """
    cases = []
    for t in PRIMARY_FLAVOURS:
        tmpl = dict(t, k="iterable")
        con = fl.constraint(tmpl)
        endless = fl.is_endless(tmpl)
        flav = fl.flavour_name(tmpl)

        def F(p):
            q = dict(tmpl)
            q["xs"] = ({"repeat": [{"S": p}], "count": [3, 2], "cycle": sym_vals(p, 2)}[tmpl["inf"]] if endless
                       else flavour_elems(con, 2, p))
            return q

        def emit(prog, pos, rel):
            if prog["k"] == "bin":
                prog = dict(prog, route=rng.choice(routes_for_nodes(prog["d"], prog["s"], prog["o"])))
            cases.append(expr_case(prog, fam="flavour", okind=flav, pos=pos, rel=rel, n=4))
        rel = "partner-shortest" if endless else "special-shortest"
        for d in BIN_DUNDERS:
            part = stream_of(leaf("list", sym_vals("a", 3)))
            emit({"k": "bin", "d": d, "s": part, "o": F("b")}, "other:stream" if tmpl.get("al") else "other:raw", rel)
            c = rng.choice(WRAP_CTORS)
            emit({"k": "bin", "d": d, "s": part, "o": stream_of(F("b"), c)}, "other:" + c + "(..)", rel)
            emit({"k": "bin", "d": d, "s": as_stream(F("a")), "o": rng.choice([leaf("list", sym_vals("b", 3)), part])}, "self:Stream", rel)
            emit({"k": "bin", "d": d, "s": as_stream(F("a")), "o": {"k": "scalar", "c": {"S": "c"}}}, "self:Stream", "n/a")
            if con in ("ints", "bytes", "ap") and base_of(d)[0] not in ("pow", "lshift", "matmul"):
                emit({"k": "bin", "d": d, "s": as_stream(F("a")), "o": {"k": "scalar", "c": 3}}, "self:Stream", "n/a")
        for d in UN_DUNDERS:
            emit({"k": "un", "d": d, "route": rng.choice(["direct", "syntax"]), "s": as_stream(F("a"))}, "self:Stream", "n/a")
    return cases


def malformed_cases():
    cs = []
    s = lambda: stream_of(leaf("list", sym_vals("a", 2)))
    for d in ["__rlt__", "__rle__", "__req__", "__rne__", "__rgt__", "__rge__", "__divmod__", "__rdivmod__", "__div__", "__rdiv__",
              "__rpos__", "__rneg__", "__rinvert__", "__rrrshift__", "__iadd__", "__cmp__", "__add", "add", "__rshift", "__matmul"]:
        cs.append(expr_case({"k": "bin", "d": d, "s": s(), "o": {"k": "scalar", "c": {"S": "c"}}}, fam="sym", okind="scalar", bad="unknown-dunder"))
    for d in ["__abs__x", "__rneg__", "__not__"]:
        cs.append(expr_case({"k": "un", "d": d, "s": s()}, fam="sym", okind="-", bad="unknown-dunder"))
    for d in UN_DUNDERS:       # unary dunder called with an operand
        cs.append(expr_case({"k": "bin", "d": d, "s": s(), "o": {"k": "scalar", "c": {"S": "c"}}}, fam="sym", okind="scalar", bad="arity"))
    for d in ["__add__", "__radd__", "__lt__", "__rmatmul__"]:   # binary dunder called without operand
        cs.append(expr_case({"k": "un", "d": d, "s": s()}, fam="sym", okind="-", bad="arity"))
    for d in ["__add__", "__rsub__", "__eq__", "__rmatmul__", "__rshift__", "__ge__"]:
        cs.append(expr_case({"k": "bin", "d": d, "s": s(), "o": {"k": "ignored", "c": 1}}, fam="sym", okind="ignored", bad="ignored"))
    # Stream(a, b) mixing iterables and non-iterables
    cs.append(expr_case({"k": "un", "d": "__neg__", "s": {"k": "stream2", "a": leaf("list", sym_vals("a", 2)), "b": {"k": "scalar", "c": {"S": "c"}}}},
                        fam="sym", okind="-", bad="ctor-mix", finite=False))
    cs.append(expr_case({"k": "un", "d": "__neg__", "s": {"k": "stream2", "a": {"k": "scalar", "c": {"S": "c"}}, "b": leaf("tuple", sym_vals("a", 2))}},
                        fam="sym", okind="-", bad="ctor-mix", finite=False))
    for lf in ("list", "gen"):
        cs.append(expr_case({"k": "meth", "l": "attr:__next__", "s": stream_of(leaf(lf, sym_vals("a", 2)))}, fam="sym", okind="-", bad="next-attr"))
    cs.append(expr_case({"k": "un", "d": "__neg__", "s": {"k": "meth", "l": "attr:__next__", "s": stream_of(leaf("list", [1, 2]))}},
                        fam="int", okind="-", bad="next-attr"))
    # an operator method of something that is not a Stream
    cs.append(expr_case({"k": "meth", "l": "abs", "s": stream_of(leaf("list", sym_vals("a", 3)))}, fam="sym", okind="-"))
    return cs


def rand_tree(rng, d, fam):
    """ random Stream-valued expression of depth <= d """
    def vals(n, p):
        if fam == "sym":
            _symc[0] += 1
            return sym_vals("%s%d_" % (p, _symc[0] % 97), n)
        return [rng.choice([-4, -3, -2, -1, 0, 1, 2, 3, 4, 5, 7]) for _ in range(n)]

    def scalar():
        if rng.random() < 0.2:      # an indexable object that is no Iterable
            return rng.choice([e for (_, e, a) in operand_objects(fam) if a is None])
        return {"S": "k%d" % rng.randint(0, 9)} if fam == "sym" else rng.choice([-2, -1, 0, 1, 2, 3])

    def flavoured(m, p, want_stream):
        """ a leaf of a random flavour (finite with m elements, or endless) """
        while True:
            tmpl, con = rng.choice(_FLAVOURS)
            if con in ("any", "same", "none") or (con == "ints" and (fam == "int" or rng.random() < 0.3)):
                break
        q = dict(tmpl)
        if fl.is_endless(q):
            q["xs"] = inf_desc(q["inf"], rng)
            if fam != "sym" and q["inf"] != "count":
                q["xs"] = [rng.choice([-3, -1, 0, 2, 5]) for _ in q["xs"]]
        elif con == "same":
            q["xs"] = vals(1, p) * m
        elif con == "ints":
            a = rng.randint(-2, 6)
            q["xs"] = list(range(a, a + m))
        elif con == "none":
            q["xs"] = []
        else:
            q["xs"] = vals(m, p)
        if want_stream:
            return as_stream(q, rng.choice(["Stream", "Stream"] + WRAP_CTORS))
        return q

    def stream_leaf():
        r = rng.random()
        n = rng.choice([0, 1, 2, 3, 4, 5, 6, 2, 3, 4, 5, 6, 3, 4, 5, 6])
        if rng.random() < 0.3:
            return flavoured(n, "f", True)
        if r < 0.55:
            return stream_of(leaf(rng.choice(["list", "gen", "tuple", "iter", "deque"]), vals(n, "s")))
        if r < 0.65:
            return stream_of({"k": "scalar", "c": scalar()}, rng.choice(["Stream", "ControlStream"]))
        if r < 0.78:
            return {"k": "stream2", "a": {"k": "scalar", "c": scalar()}, "b": {"k": "scalar", "c": scalar()}}
        if r < 0.9:
            return {"k": "stream2", "a": leaf(rng.choice(["list", "gen"]), vals(rng.randint(0, 3), "u")),
                    "b": leaf(rng.choice(["list", "tuple", "gen"]), vals(rng.randint(0, 3), "v"))}
        return stream_of(stream_of(leaf("gen", vals(n, "h"))), "thub")
    if d <= 1 or rng.random() < 0.15:
        return stream_leaf()
    r = rng.random()
    if fam == "sym":
        bins, uns = BIN_DUNDERS, UN_DUNDERS
    else:
        ok = ["add", "sub", "mul", "floordiv", "mod", "truediv", "and", "or", "xor"]
        bins = ["__%s__" % n for n in ok] + ["__r%s__" % n for n in ok] + ["__%s__" % n for n in CMP]
        uns = UN_DUNDERS
    if r < 0.12:
        return {"k": "un", "d": rng.choice(uns), "route": rng.choice(["direct", "syntax"]), "s": rand_tree(rng, d - 1, fam)}
    if r < 0.2:
        ls = ["abs"] + (["attr:real", "attr:imag", "call", "map:pair"] if fam == "sym" else ["attr:real", "map:neg", "map:float", "attr:numerator"])
        return {"k": "meth", "l": rng.choice(ls), "s": rand_tree(rng, d - 1, fam)}
    if r < 0.26:
        o = rng.choice([rand_tree(rng, d - 1, fam), leaf(rng.choice(["list", "gen"]), vals(rng.randint(0, 3), "w")),
                        {"k": "scalar", "c": scalar()}])
        return {"k": "append", "s": rand_tree(rng, d - 1, fam), "o": o}
    dn = rng.choice(bins)
    q = rng.random()
    if q < 0.4:
        o, okind = rand_tree(rng, d - 1, fam), "Stream"
        if o["k"] == "stream1" and o.get("ctor", "Stream") != "Stream":
            okind = o["ctor"]
    elif q < 0.7:
        o, okind = {"k": "scalar", "c": scalar()}, "scalar"
    elif q < 0.85:
        okind = rng.choice(["list", "tuple", "gen", "deque", "iter"])
        o = leaf(okind, vals(rng.choice([0, 1, 2, 3, 4, 5]), "o"))
    else:
        o = flavoured(rng.choice([0, 1, 2, 3, 4, 5]), "g", False)
    s_ = rand_tree(rng, d - 1, fam)
    return {"k": "bin", "d": dn, "route": rng.choice(routes_for_nodes(dn, s_, o)), "s": s_, "o": o}


def generate(rng, tier, scale=1):
    cases = []
    if scale == 1:
        cases.append({"entry": "optable"})
        cases += cross_cases(tier)
        cases += malformed_cases()
        cases += flavour_cross(rng, tier)
        cases += primary_cross(rng)
        cases += operand_cases(rng, tier)
    ntree = (300 if tier == "quick" else 5000) * scale
    maxd = 4 if tier == "quick" else 6
    for i in range(ntree):
        fam = "sym" if rng.random() < 0.7 else "int"
        prog = rand_tree(rng, rng.randint(2, maxd), fam)
        cases.append(expr_case(prog, fam=fam, okind="tree", n=rng.choice([1, 5, 9, 14])))
    if scale != 1:
        # the search's fresh batch: every dunder on small operands, both operand sorts, direct route
        for d in BIN_DUNDERS:
            for kind in ("Stream", "scalar", "list"):
                cases.append(expr_case({"k": "bin", "d": d, "route": "direct", "s": stream_of(leaf("list", sym_vals("a", 2))),
                                        "o": other_operand(kind, sym_vals("b", 2), {"S": "c"})}, fam="sym", okind=kind))
        for d in UN_DUNDERS:
            cases.append(expr_case({"k": "un", "d": d, "s": stream_of(leaf("list", sym_vals("a", 2)))}, fam="sym", okind="-"))
    cases += generate_bcast(rng, tier, scale)
    cases += xc.generate(rng, tier, scale)
    return cases


# ------------------------------------------------------------------------------------------------
# evidence histograms, shrinking, neighbours, signatures
# ------------------------------------------------------------------------------------------------
def tally(eng, c, io):
    eng.count("entry", c["entry"])
    if c["entry"] == "expr":
        p = c["prog"]
        eng.count("root", p.get("d", p["k"]))
        eng.count("element_family", c.get("fam", "?"))
        eng.count("other_kind", c.get("okind", "?"))
        eng.count("depth", depth(p))
        eng.count("finite", bool(c.get("finite")))
        for nd in nodes(p):
            if nd["k"] in ("bin", "un"):
                eng.count("dunder_anywhere", nd["d"])
                eng.count("route", nd.get("route", "direct"))
                if nd["k"] == "bin":
                    base, refl = base_of(nd["d"])
                    osort = "scalar" if nd["o"]["k"] in ("scalar", "ignored") else "iterable"
                    if nd["o"]["k"] == "scalar" and is_object_enc(nd["o"]["c"]):
                        ob = observe_operand(dec_val(nd["o"]["c"]))
                        eng.count("operand_object", "%s | %s | %s | Iterable=%s iter()=%s len=%s" % (
                            [k_ for k_ in OBJECT_KEYS if k_ in nd["o"]["c"]][0], "rbinary" if refl else "binary",
                            nd.get("route", "direct"), ob["abc"], ob["iter"], ob["len"]))
                        eng.count("operand_object_dunder", nd["d"])
                    eng.count("builder_branch", ("rbinary" if refl else "binary") + "/" + osort)
                else:
                    eng.count("builder_branch", "unary")
            if nd["k"] == "iterable":
                eng.count("leaf_kind", fl.flavour_name(nd))
                eng.count("leaf_len", "endless" if fl.is_endless(nd) else len(nd["xs"]))
            if nd["k"] == "stream1":
                eng.count("stream_ctor", nd.get("ctor", "Stream"))
            if nd["k"] in ("stream2", "meth", "append"):
                eng.count("other_nodes", nd["k"] + (":" + nd["l"] if nd["k"] == "meth" else ""))
        if c.get("fam") == "flavour":
            root = p
            if root["k"] == "bin":
                base, refl = base_of(root["d"])
                branch = ("rbinary" if refl else "binary") + "/" + ("scalar" if root["o"]["k"] == "scalar" else "iterable")
            else:
                branch = "unary"
            c = dict({"okind": "?", "pos": "?", "rel": "?"}, **c)
            eng.count("flavour_x_branch_x_shortest", "%s | %s | %s | %s" % (
                c["okind"], "self" if c["pos"].startswith("self") else "both" if c["pos"] == "both" else "other", branch, c["rel"]))
            eng.count("flavour", c["okind"])
            eng.count("flavour_position_x_branch", "%s | %s" % (c["pos"].split("(")[0].split("/")[0].split(":")[0] + (
                ":wrapped" if c["pos"].split("/")[0] not in ("other:raw", "other:stream", "self:Stream", "both") else
                ":" + c["pos"].split("/")[0].split(":")[-1] if ":" in c["pos"] else ""), branch))
            eng.count("flavour_shortest_x_branch", "%s | %s" % (c["rel"], branch))
            eng.count("flavour_opclass_x_shortest", "%s | %s" % (_op_class(root["d"]), c["rel"]))
        else:
            for nd in nodes(p):
                if nd["k"] == "bin":
                    for side in ("s", "o"):
                        lf = nd[side]
                        while lf["k"] == "stream1":
                            lf = lf["a"]
                        if lf["k"] == "iterable" and lf.get("kind", "list") not in ("list", "gen", "tuple", "iter", "deque"):
                            base, refl = base_of(nd["d"])
                            eng.count("tree_flavoured_operand", "%s | %s | %s" % (
                                fl.flavour_name(lf), "self" if side == "s" else "other", "rbinary" if refl else "binary"))
        if "err" in io:
            eng.count("impl_refusal", io["err"] + ("/" + c["bad"] if "bad" in c else ""))
        else:
            eng.count("n_items", min(len(io["items"]), 15))
            eng.count("end", io["end"])
            if io.get("reads"):
                eng.count("counting_sources_checked", len(io["reads"]))
            if p["k"] == "bin" and p["s"]["k"] == "stream1" and p["s"]["a"]["k"] == "iterable" and \
                    (p["o"]["k"] == "iterable" or (p["o"]["k"] == "stream1" and p["o"]["a"]["k"] == "iterable")):
                inf_ = float("inf")
                ls = inf_ if fl.is_endless(p["s"]["a"]) else len(p["s"]["a"]["xs"])
                on = p["o"] if p["o"]["k"] == "iterable" else p["o"]["a"]
                lo = inf_ if fl.is_endless(on) else len(on["xs"])
                eng.count("length_relation", "self<other" if ls < lo else "self>other" if ls > lo else "equal" if ls else "both-empty")
    elif c["entry"] == "bcast":
        tally_bcast(eng, c, io)
    elif c["entry"] in ("exprE", "bcastE"):
        xc.tally(eng, c, io)
    elif c["entry"] == "meta":
        xc.tally_meta(eng, c, io)
    elif c["entry"] == "opget":
        xc.tally_opget(eng, c, io)


def shrink(c):
    if c["entry"] == "opget":
        for k in ("keys", "without"):
            for i in range(len(c[k])):
                yield dict(c, **{k: c[k][:i] + c[k][i + 1:]})
        if c.get("form", "list") != "list" or c.get("wform", "list") != "list":
            yield dict(c, form="list", wform="list")
        return
    if c["entry"] == "meta":
        for k in ("ops", "without", "ns", "have"):
            if c[k]:
                yield dict(c, **{k: c[k][:-1]})
        return
    if c["entry"] in ("exprE", "bcastE"):
        for x in xc.shrink(c):
            yield x
        return
    if c["entry"] == "bcast":
        for x in shrink_bcast(c):
            yield x
        return
    if c["entry"] != "expr":
        return
    p = c["prog"]
    keep = dict((k, v) for k, v in c.items() if k not in ("prog", "finite", "n", "pos", "rel"))
    if c.get("fam") == "flavour":
        keep["fam"], keep["okind"] = "flavour-shrunk", "shrunk:" + str(c.get("okind", "?")).split(":")[-1]

    def mk(q):
        return expr_case(q, n=c.get("n", 12), **keep)
    # a sub-expression in place of the whole
    for ch in ("s", "o", "a", "b"):
        if ch in p and isinstance(p[ch], dict) and p[ch]["k"] in ("stream1", "stream2", "un", "bin", "meth", "append"):
            yield mk(p[ch])
    # rebuild with one child replaced by each of its shrinks
    for ch in ("s", "o", "a", "b"):
        if ch in p and isinstance(p[ch], dict):
            for sub in _shrink_node(p[ch]):
                q = dict(p)
                q[ch] = sub
                yield mk(q)
    if p.get("route", "direct") != "direct":
        q = dict(p)
        q["route"] = "direct"
        yield mk(q)
    if "n" in c and c["n"] > 1:
        yield dict(c, n=c["n"] - 1)


def _shrink_node(nd):
    k = nd["k"]
    if k == "iterable":
        plain = dict((a, b) for a, b in nd.items() if a != "al")
        if fl.is_endless(nd):
            # a simpler description, a simpler wrapper, no lazy_itertools wrapper, a finite operand instead
            if nd["inf"] == "cycle" and len(nd["xs"]) > (2 if nd.get("kind") == "streamN" else 1):
                yield dict(nd, xs=nd["xs"][:-1])
            if nd["inf"] == "count" and len(nd["xs"]) > 1:
                yield dict(nd, xs=nd["xs"][:1])
            if nd["inf"] == "count" and nd["xs"][0] != 0:
                yield dict(nd, xs=[0] + nd["xs"][1:])
            if nd.get("kind") not in ("raw", "streamN"):
                yield dict(nd, kind="raw")
            if nd.get("al") and nd.get("kind") != "streamN":
                yield {"k": "stream1", "ctor": "Stream", "a": plain}
            fin = {"k": "iterable", "kind": "list", "xs": fl.items(nd, 1)}
            yield {"k": "stream1", "ctor": "Stream", "a": fin} if nd.get("al") else fin
            return
        if nd["xs"] and not (nd.get("kind") == "range_step" and len(nd["xs"]) == 2):    # (one element does not tell the step)
            yield dict(nd, xs=nd["xs"][:-1])
            yield dict(nd, xs=nd["xs"][1:])
        if nd.get("al"):
            yield {"k": "stream1", "ctor": "Stream", "a": plain}
            yield {"k": "stream1", "ctor": "Stream", "a": dict(plain, kind="list")}
        elif nd.get("kind", "list") != "list":
            yield dict(nd, kind="list")
        return
    if k == "stream1" and nd.get("ctor", "Stream") == "thub":
        yield nd["a"]
    if k == "stream1" and nd.get("ctor", "Stream") != "Stream":
        yield dict(nd, ctor="Stream")
    if k == "stream1" and nd.get("ctor", "Stream") == "Stream" and pyclass(nd["a"]) == "Stream":
        yield nd["a"]                       # Stream(Stream(x)) -> Stream(x)
    for ch in ("s", "o", "a", "b"):
        if ch in nd and isinstance(nd[ch], dict):
            if nd[ch]["k"] in ("stream1", "stream2", "un", "bin", "meth", "append") and k in ("un", "bin", "meth", "append") and ch == "s":
                yield nd[ch]
            for sub in _shrink_node(nd[ch]):
                q = dict(nd)
                q[ch] = sub
                yield q
    if nd.get("route", "direct") != "direct":
        yield dict(nd, route="direct")


def neighbours(c):
    if c["entry"] in ("exprE", "bcastE", "meta", "opget"):
        return
    if c["entry"] == "bcast":
        for x in neighbours_bcast(c):
            yield x
        return
    if c["entry"] != "expr":
        # the table disagrees: exercise every dunder
        for d in BIN_DUNDERS:
            for kind in ("Stream", "scalar"):
                yield expr_case({"k": "bin", "d": d, "s": stream_of(leaf("list", sym_vals("a", 2))),
                                 "o": other_operand(kind, sym_vals("b", 2), {"S": "c"})}, fam="sym", okind=kind)
        for d in UN_DUNDERS:
            yield expr_case({"k": "un", "d": d, "s": stream_of(leaf("list", sym_vals("a", 2)))}, fam="sym", okind="-")
        return
    p = c["prog"]
    if p["k"] == "bin":
        for d in BIN_DUNDERS:
            yield expr_case(dict(p, d=d, route="direct"), fam=c.get("fam"), okind=c.get("okind"))
        for o in (leaf("list", sym_vals("n", 2)), {"k": "scalar", "c": {"S": "n"}}, stream_of(leaf("list", sym_vals("n", 3)))):
            yield expr_case(dict(p, o=o, route="direct"), fam="sym", okind="nb")
    if p["k"] == "un":
        for d in UN_DUNDERS:
            yield expr_case(dict(p, d=d, route="direct"), fam=c.get("fam"), okind=c.get("okind"))


def _op_class(d):
    base, refl = base_of(d)
    if base is None:
        return "unknown-dunder"
    cls = "unary" if base in UNARY else "comparison" if base in CMP else \
        "bitwise-shift" if base in ("and", "or", "xor", "rshift", "lshift") else "arithmetic"
    return ("reflected-" if refl else "") + cls


def classify(c, io, drv):
    """ signature = operation class + operand sort + failing condition (+ error); the concrete dunder and
        operands are in the replay.  Coarse on purpose: one broken builder shows as one signature. """
    if c["entry"] == "optable":
        return "optable"
    if c["entry"] == "meta":
        return "metaclass-user"
    if c["entry"] == "opget":
        return "opmethod-get:" + ("raises" if "err" in io else "entries")
    if c["entry"] == "bcast":
        return classify_bcast(c, io, drv)
    if c["entry"] in ("exprE", "bcastE"):
        return xc.classify(c, io, drv)
    p = c["prog"]
    what = _op_class(p["d"]) if p["k"] in ("bin", "un") else p["k"] + (":" + p["l"].split(":")[0] if p["k"] == "meth" else "")
    osort = ""
    if p["k"] == "bin":
        osort = "/scalar" if p["o"]["k"] in ("scalar", "ignored") else "/iterable"
    if "err" in io:
        return "expr:%s%s:refused:%s" % (what, osort, io["err"])
    spec = drv.get("spec", {})
    if spec.get("sort") != "stream":
        return "expr:%s%s:accepted-ill-typed" % (what, osort)
    if io.get("end", "").startswith("err"):
        return "expr:%s%s:%s" % (what, osort, io["end"])
    n = take_n(c)
    want = n if spec.get("len") == "inf" else min(n, spec.get("len", 0))
    if len(io.get("items", [])) != want:
        return "expr:%s%s:wrong-length" % (what, osort)
    return "expr:%s%s:wrong-element" % (what, osort)


TRANSLATED = {
    "under_translator": {
        "OpMethod._initialize / OpMethod._insert / AbstractOperatorOverloaderMeta.__new__ (lazy_core.py)":
            "T1 c01_t1.py -> Gen/OpTable.lean (table + constants of the insertion logic + builder dict; `decide` theorems optable_*, opget_*)",
        "StreamMeta.__binary__ (lazy_stream.py)": "c01_tr.py -> Gen/C01Src.lean `binary` (deep: Src.Closure program); src_binary_is_model",
        "StreamMeta.__rbinary__ (lazy_stream.py)": "c01_tr.py -> Gen/C01Src.lean `rbinary` (deep); src_rbinary_is_model",
        "StreamMeta.__unary__ (lazy_stream.py)": "c01_tr.py -> Gen/C01Src.lean `unary` (deep); src_unary_is_model",
        "Stream.__getattr__ (lazy_stream.py)": "c01_tr.py -> Gen/C01Src.lean `getattr` (deep); src_getattr_is_model, src_getattr_next",
        "Stream.__call__ (lazy_stream.py)": "c01_tr.py -> Gen/C01Src.lean `call` (deep); src_call_is_model",
        "elementwise (lazy_misc.py)": "c01_tr.py -> Gen/C01Src.lean `elementwise` (deep: Src.EwProg decision tree, wrapper executed "
                                      "symbolically); src_elementwise_is_model",
    },
    "not_translated": {
        "lazy_math / lazy_midi: which functions are wrapped with elementwise, with which (name, pos)":
            "a loop over `math.__dict__` plus hand-decorated functions: the set is discovered at run time by the harness "
            "(discover_bcast) and each function is run differentially; element functions are python numbers (not modelled)",
        "Stream.__init__, Stream.map, Stream.__abs__, Stream.append": "hand-written model only (streamInit1/2, evalPy): tied by the "
            "differential run; not in this round's time box",
        "CPython map / zip / itertools (Iter.step, Iter.stepE)": "C code of the interpreter, not library source: modelled, checked differentially",
    },
}


def regenerate(eng):
    """ both translators run; a failure of one does not stop the other (its last good file stays) """
    info, errs = {}, []
    for name, fn in (("T1 operator table", c01_t1.regenerate), ("closure bodies", c01_tr.regenerate)):
        try:
            info[name] = fn(common.REPO, common.LEAN)
        except Exception as e:
            info[name] = "FAILED"
            errs.append("%s: %s: %s" % (name, type(e).__name__, e))
    eng.extra["translated"] = dict(TRANSLATED, regenerate=info)
    if errs:
        raise c01_tr.TranslationError("; ".join(errs))
    return info


def extra_checks(eng):
    for x in xc.extra_checks(eng):
        yield x
    try:
        ok, detail, seen, same = c01_tr.selftest(common.REPO, common.LEAN)
    except Exception as e:
        ok, detail, seen, same = False, "self-test could not run: %r" % (e,), [], False
    eng.extra.setdefault("translated", dict(TRANSLATED))["selftest"] = {
        "edits": [list(x) for x in seen], "source_translates_like_the_pinned_copy": same}
    yield ("translator-selftest (%d edited copies seen, pinned source reproduces the committed Gen/C01Src.lean)" % len(seen), ok, detail)


# ------------------------------------------------------------------------------------------------
# broadcast family
#   case = {"entry": "bcast", "func": name, "kind": container kind, "xs": [element encodings],
#           "route": "pos" | "kw", "before": [...], "after": [...], "kwargs": [[name, value], ...], "n": N}
# ------------------------------------------------------------------------------------------------
MATH_NAMES = ["acos", "acosh", "asin", "asinh", "atan", "atanh", "ceil", "cos", "cosh", "degrees", "erf", "erfc", "exp", "expm1",
              "fabs", "floor", "frexp", "gamma", "isinf", "isnan", "lgamma", "modf", "radians", "sin", "sinh", "sqrt", "tan",
              "tanh", "trunc"]
INF, NAN = float("inf"), float("nan")
POOLS = {
    "default": [0.5, 0.25, -0.75, 0.0, 0.125], "ge1": [1.0, 1.5, 2.0, 4.0, 8.0], "pos": [0.5, 1.0, 2.5, 4.0, 3.0],
    "unit": [0.5, 0.25, -0.75, 0.0, -0.5], "fact": [0, 1, 5, 3.0, 7], "note": [{"T": "C4"}, {"T": "A4"}, {"T": "Bb3"}, {"T": "F#2"}, {"T": "?"}],
    "midi": [69, 60, 61.5, 0, 127], "freq": [440.0, 220.0, 261.5, 1000.0, 55.0], "erb": [1000.0, 440.0, 20.0, 8000.0, 100.0],
    "infnan": [0.5, INF, -2.0, NAN], "cplx": [{"C": [0.0, 1.0]}, {"C": [1.0, -0.5]}, 0.5, -1.0],
    "log": [1.0, 0.0, -1.0, 8.0, 0.5], "log1p": [0.0, -1.0, 1.0, -3.0], "db": [1.0, 0.0, 10.0, -0.5, 100.0],
    "sign": [2, -3, 0, 0.5, -0.25], "abs": [-2, 3, -0.5, {"C": [3.0, 4.0]}], "sym": [{"S": "u0"}, {"S": "u1"}, {"S": "u2"}],
}
# name -> (decorator name, decorator pos, value pool, first int of a `range` argument, composite?)
BFUNCS = dict((n, ("x", 0, "default", 0, False)) for n in MATH_NAMES)
BFUNCS.update({
    "acosh": ("x", 0, "ge1", 1, False), "acos": ("x", 0, "unit", 0, False), "asin": ("x", 0, "unit", 0, False),
    "atanh": ("x", 0, "unit", 0, False), "sqrt": ("x", 0, "pos", 0, False), "gamma": ("x", 0, "pos", 1, False),
    "lgamma": ("x", 0, "pos", 1, False), "isinf": ("x", 0, "infnan", 0, False), "isnan": ("x", 0, "infnan", 0, False),
    "log": ("x", 0, "log", 1, False), "ln": ("x", 0, "log", 1, False), "log1p": ("x", 0, "log1p", 0, False),
    "log10": ("x", 0, "log", 1, True), "log2": ("x", 0, "log", 1, True),
    "absolute": ("number", 0, "abs", -2, False), "cexp": ("x", 0, "cplx", 0, False), "phase": ("z", 0, "cplx", 0, False),
    "factorial": ("n", 0, "fact", 0, False), "dB10": ("data", 0, "db", 0, False), "dB20": ("data", 0, "db", 0, False),
    "sign": ("x", 0, "sign", -1, False),
    "midi2freq": ("midi_number", 0, "midi", 60, False), "str2midi": ("note_string", 0, "note", 0, False),
    "freq2midi": ("freq", 0, "freq", 440, False), "midi2str": ("midi_number", 0, "midi", 60, False),
    "str2freq": ("note_string", 0, "note", 0, True), "freq2str": ("freq", 0, "freq", 440, True),
    "erb.gm90": ("freq", 0, "erb", 100, False), "erb.mg83": ("freq", 0, "erb", 100, False),
})
# the harness' own tracer behind the public decorator, for decorator parameters the library does not use itself
TRACE_DECOS = {"trace.x0": ("x", 0), "trace.default": ("", None), "trace.xnone": ("x", None), "trace.pos1": ("", 1),
               "trace.y1": ("y", 1), "trace.z2": ("z", 2)}
for _k, (_dn, _dp) in TRACE_DECOS.items():
    BFUNCS[_k] = (_dn, _dp, "sym", 0, False)

SIZED = ["list", "tuple", "deque", "set", "frozenset"]
INF_LAZY = ["generator_inf", "map_inf", "filter_inf"]      # the same lazy kinds over an ENDLESS source (itertools.repeat)
LAZY = ["generator", "range", "map", "filter", "zip", "zip_longest", "enumerate"] + INF_LAZY
STREAMS = ["stream", "thub", "ControlStream"]
ALL_KINDS = ["scalar", "str"] + SIZED + LAZY + STREAMS
TUPLE_ITEM_KINDS = ("zip", "zip_longest", "enumerate")


# user SUBCLASSES of the sized containers: the class identity is part of the kind ("sub:<base>:<number>"); the result of a
# broadcast function must be of that very class (`type(res) is type(arg)`), whatever `isinstance` sees behind it
import collections.abc as _abc


class Vector(tuple):
    """ the ordinary tuple subclass with domain methods """
    def norm(self):
        return sum(v * v for v in self) ** 0.5


class Vector3(Vector):
    """ a subclass of a subclass, with an attribute-less __slots__ """
    __slots__ = ()


class PlainTuple(tuple):
    pass


class Samples(list):
    def rms(self):
        return (sum(v * v for v in self) / max(len(self), 1)) ** 0.5


class PlainList(list):
    pass


class TagSet(set):
    def tags(self):
        return sorted(self, key=repr)


class FrozenBag(frozenset):
    pass


class Ring(deque):
    def head(self):
        return self[0]


class UserSeq(_abc.Sequence):
    """ a user Sequence that derives from no builtin container; constructor takes one iterable """
    def __init__(self, data=()):
        self._d = list(data)

    def __getitem__(self, i):
        return self._d[i]

    def __len__(self):
        return len(self._d)


SUBCLASSES = [("tuple", Vector), ("tuple", PlainTuple), ("tuple", Vector3), ("list", Samples), ("list", PlainList),
              ("set", TagSet), ("frozenset", FrozenBag), ("deque", Ring), ("sequence", UserSeq)]
SUB_KINDS = ["sub:%s:%d" % (b, i) for i, (b, _c) in enumerate(SUBCLASSES)]
BUILTIN_OF = {"list": list, "tuple": tuple, "set": set, "frozenset": frozenset, "deque": deque}


def kind_base(k):
    """ the builtin behaviour class of a container kind """
    return k.split(":")[1] if k.startswith("sub:") else k


def kind_class(k):
    return SUBCLASSES[int(k.split(":")[2])][1] if k.startswith("sub:") else BUILTIN_OF[k]


def is_setlike(k):
    return kind_base(k) in ("set", "frozenset")


def is_sized_kind(k):
    return k in SIZED or k.startswith("sub:")


class KW(object):
    def __init__(self, name):
        self.name = name


def _trace_raw(*a, **k):
    return Sym("f(%s)" % ",".join([repr(x) for x in a] + ["%s=%r" % kv for kv in sorted(k.items())]))


_bfun_cache = {}


def bfun(name):
    """ the public broadcast function of the library """
    if name in _bfun_cache:
        return _bfun_cache[name]
    audiolazy = AL()
    if name.startswith("trace."):
        dn, dp = TRACE_DECOS[name]
        f = audiolazy.elementwise(dn, dp)(_trace_raw)
    elif name.startswith("erb."):
        f = audiolazy.erb[name[4:]]
    else:
        f = getattr(audiolazy, name)
    _bfun_cache[name] = f
    return f


def bfun_scalar(name):
    """ the function "applied to one element": the undecorated function where the decorator kept it """
    f = bfun(name)
    return getattr(f, "__wrapped__", f)


def apply_bcast_label(f, args):
    pos, kw, i = [], {}, 0
    while i < len(args):
        if isinstance(args[i], KW):
            kw[args[i].name] = args[i + 1]
            i += 2
        else:
            pos.append(args[i])
            i += 1
    return bfun_scalar(f)(*pos, **kw)


_apply_label_expr = apply_label


def apply_label(f, args):        # noqa: F811  (extends the evaluator of the expression part)
    if f.startswith("fn:"):
        return apply_bcast_label(f[3:], args)
    if f.startswith("kw:"):
        return KW(f[3:])
    return _apply_label_expr(f, args)


def bcast_items(c):
    """ the elements of the argument in iteration order, as the function sees them """
    vals = [dec_val(x) for x in c["xs"]]
    k = c["kind"]
    if is_setlike(k):
        # iteration order of the very same construction (deterministic: PYTHONHASHSEED is fixed by ./check)
        return vals, list(kind_class(k)(vals))
    if k == "range":
        a = BFUNCS.get(c["func"], ("", 0, "", 0, False))[3]
        vals = list(range(a, a + len(vals)))
    if k in ("zip", "zip_longest"):
        return vals, [(v,) for v in vals]
    if k == "enumerate":
        return vals, list(enumerate(vals))
    if k in ("scalar", "str", "ControlStream") or k in INF_LAZY:
        vals = vals[:1]
    return vals, vals


def bcast_layout(c):
    """ ids: before..., [placeholder], after..., kwargs values..., then the items.  -> (request, env) """
    dn, dp = BFUNCS[c["func"]][0], BFUNCS[c["func"]][1]
    env, nxt = {}, [0]

    def fresh(v):
        i = nxt[0]
        nxt[0] += 1
        env[i] = v
        return i
    placeholder = object()
    args = [fresh(dec_val(x)) for x in c.get("before", [])]
    kwargs = []
    if c.get("route", "pos") == "pos":
        args.append(fresh(placeholder))
        args += [fresh(dec_val(x)) for x in c.get("after", [])]
    elif c["route"] == "kw":
        kwargs.append([dn, fresh(placeholder)])
    for kname, v in c.get("kwargs", []):
        kwargs.append([kname, fresh(dec_val(v))])
    _raw, items = bcast_items(c)
    ids = [fresh(v) for v in items]
    k = c["kind"]
    lean_kind = {"thub": "streamSub", "ControlStream": "streamSub"}.get(k, k[:-4] if k in INF_LAZY else k)
    if k in ("scalar", "str"):
        arg = {"c": "obj", "kind": lean_kind, "self": ids[0]}
    elif is_sized_kind(k):
        arg = {"c": "sized", "kind": lean_kind, "tag": 0, "xs": ids}
    elif k == "ControlStream" or k in INF_LAZY:
        arg = {"c": "lazy", "kind": lean_kind, "rep": ids[0]}
    else:
        arg = {"c": "lazy", "kind": lean_kind, "tag": 0, "xs": ids}
    req = {"entry": "bcast", "f": "fn:" + c["func"], "dname": dn, "args": args, "kwargs": kwargs, "arg": arg, "n": c.get("n", 8)}
    if dp is not None:
        req["dpos"] = dp
    return req, env


def request_bcast(c):
    return bcast_layout(c)[0]


def impl_bcast(c):
    import types
    Stream, ControlStream, thub = AL().Stream, AL().ControlStream, AL().thub
    raw, items = bcast_items(c)
    k = c["kind"]
    reads = [0]

    def src():
        for x in raw:
            reads[0] += 1
            yield x
    counting = True
    if k == "scalar":
        arg, counting = raw[0], False
    elif k == "str":
        arg, counting = raw[0], False
    elif k == "list":
        arg, counting = list(raw), False
    elif k == "tuple":
        arg, counting = tuple(raw), False
    elif k == "deque":
        arg, counting = deque(raw), False
    elif k == "set":
        arg, counting = set(raw), False
    elif k == "frozenset":
        arg, counting = frozenset(raw), False
    elif k.startswith("sub:"):
        arg, counting = kind_class(k)(raw), False
    elif k == "generator":
        arg = src()
    elif k == "range":
        arg, counting = (range(raw[0], raw[0] + len(raw)) if raw else range(0)), False
    elif k == "map":
        arg = map(lambda v: v, src())
    elif k == "filter":
        arg = filter(lambda v: True, src())
    elif k == "zip":
        arg = zip(src())
    elif k == "zip_longest":
        arg = it.zip_longest(src())
    elif k == "enumerate":
        arg = enumerate(src())
    elif k == "stream":
        arg = Stream(src())
    elif k == "thub":
        arg = thub(Stream(src()), 1)
    elif k == "ControlStream":
        arg, counting = ControlStream(raw[0]), False
    elif k == "generator_inf":
        arg, counting = (v for v in it.repeat(raw[0])), False
    elif k == "map_inf":
        arg, counting = map(lambda v: v, it.repeat(raw[0])), False
    elif k == "filter_inf":
        arg, counting = filter(lambda v: True, it.repeat(raw[0])), False
    else:
        raise ValueError(k)
    if is_setlike(k) and list(arg) != items:
        return {"err": "UNSUPPORTED:set order"}
    f = bfun(c["func"])
    dn = BFUNCS[c["func"]][0]
    a = [dec_val(x) for x in c.get("before", [])]
    kw = dict((kn, dec_val(v)) for kn, v in c.get("kwargs", []))
    if c.get("route", "pos") == "pos":
        a = a + [arg] + [dec_val(x) for x in c.get("after", [])]
    elif c["route"] == "kw":
        kw[dn] = arg
    try:
        res = f(*a, **kw)
    except Exception as e:
        return {"err": err_kind(e), "reads0": reads[0] if counting else None, "applied": 0}
    obs = {"reads0": reads[0] if counting else None}
    if isinstance(res, types.GeneratorType):
        out = "generator"
    elif isinstance(res, Stream):
        out = "stream"
    elif is_sized_kind(k):
        # the observation is the class identity: `type(res) is type(arg)` (an `==` against a tuple would not see a downcast)
        out = ("same:" + k) if type(res) is type(arg) else "other:" + type(res).__name__
    elif k in ("scalar", "str"):
        out = "value"
    else:
        out = "other:" + type(res).__name__
    obs["out"] = out
    n = c.get("n", 8)
    vals, end, per_next = [], "stop", []
    if out in ("generator", "stream"):
        try:
            itr = iter(res)
            for _ in range(n):
                try:
                    x = next(itr)
                except StopIteration:
                    break
                vals.append(x)
                per_next.append(reads[0])
            else:
                end = "limit"
        except Exception as e:
            end = "err:" + err_kind(e)
            per_next.append(reads[0])
    elif out.startswith("same:") or out.startswith("other:"):
        try:
            vals = list(res)
        except Exception as e:
            end = "err:" + err_kind(e)
    else:
        vals = [res]
    if is_setlike(k):
        obs["items"] = sorted(canon(v) for v in vals)
    else:
        obs["items"] = [canon(v) for v in vals]
    obs["end"] = end
    obs["per_next"] = per_next if counting else None
    obs["reads"] = reads[0] if counting else None
    obs["applied"] = len(vals)
    return obs


def _bcast_expect(c, side, env):
    """ what the terms of one side say the real call must show """
    out = side["out"]
    n = c.get("n", 8)
    vals = []
    err = None
    for t in side.get("items", []):
        try:
            vals.append(eval_term(t, env))
        except Exception as e:
            err = err_kind(e)
            break
    return out, vals, err, n


def _cmp_bcast_side(c, io, side, label, env, with_reads):
    out = []
    k = c["kind"]
    exp_out, vals, err, n = _bcast_expect(c, side, env)
    if exp_out == "keyError":
        if io.get("err") != "KeyError":
            out.append("%s: the call does not supply the argument (KeyError), impl: %r" % (label, io.get("err", io.get("out"))))
        return out
    eager = exp_out == "value" or exp_out.startswith("same:")
    if eager and err is not None:
        # the function raises on an element while the call itself runs
        if io.get("err") != err:
            out.append("%s: element function raises %s during the call, impl: %r" % (label, err, io.get("err", io.get("out"))))
        return out
    if "err" in io:
        out.append("impl raised %s at call time, %s predicts %s" % (io["err"], label, exp_out))
        return out
    if io["out"] != exp_out:
        out.append("kind of the result: impl %s, %s %s (argument: %s)" % (io["out"], label, exp_out, k))
        return out
    if is_setlike(k):
        try:
            want = sorted(canon(v) for v in type(set())(vals))
        except TypeError:
            want = None
        if want is not None and want != io["items"]:
            out.append("%s: elements differ: impl %r vs %r" % (label, io["items"][:6], want[:6]))
        return out
    want = [canon(v) for v in vals]
    if eager:
        want_end = "stop"
    else:
        want_end = ("err:" + err) if err is not None else ("limit" if len(side["items"]) >= n else "stop")
    if want != io["items"] or want_end != io["end"]:
        j = next((i for i, (a, b) in enumerate(zip(want, io["items"])) if a != b), min(len(want), len(io["items"])))
        out.append("%s differs at index %d: impl %s (%d items, end=%s) vs %s (%d items, end=%s)" % (
            label, j, io["items"][j:j + 1], len(io["items"]), io["end"], want[j:j + 1], len(want), want_end))
    if with_reads and not eager and io.get("reads0") is not None:
        if io["reads0"] != 0:
            out.append("the source was read %d times before the first next() (lazy kinds must stay lazy)" % io["reads0"])
        if err is None and not io["end"].startswith("err"):
            ok_steps = io["per_next"] == list(range(1, len(io["items"]) + 1))
            if not ok_steps:
                out.append("reads per next: %r (one read per next expected)" % (io["per_next"][:8],))
            total = len(bcast_items(c)[1])
            unread = dict((t, u) for t, u in side.get("unread", []))
            if 0 in unread and total - unread[0] != io["reads"]:
                out.append("read count: impl %d, model %d" % (io["reads"], total - unread[0]))
    return out


def compare_bcast(c, io, drv):
    if str(io.get("err", "")).startswith(("UNSUPPORTED", "UNMAPPED")):
        return [("model", "harness problem: " + io["err"] + " " + io.get("trace", ""))]
    _req, env = bcast_layout(c)
    out = [("model", d) for d in _cmp_bcast_side(c, io, drv["model"], "model", env, True)]
    out += [("spec", d) for d in _cmp_bcast_side(c, io, drv["spec"], "spec", env, False)]
    return out


def bcast_case(func, kind, xs, route="pos", n=8, **kw):
    c = {"entry": "bcast", "func": func, "kind": kind, "xs": xs, "route": route, "n": n}
    c.update(kw)
    return c


def discover_bcast():
    """ broadcast functions of lazy_math this module has no entry for (added later): take the decorator
        parameters from the wrapper's closure and the default value pool """
    try:
        lm = AL().lazy_math
    except BaseException:
        return []
    new = []
    for name in getattr(lm, "__all__", []):
        f = getattr(lm, name, None)
        if callable(f) and name not in BFUNCS and getattr(f, "__closure__", None):
            cells = dict(zip(f.__code__.co_freevars, [cl.cell_contents for cl in f.__closure__]))
            if isinstance(cells.get("name"), str) and (cells.get("pos") is None or isinstance(cells.get("pos"), int)):
                BFUNCS[name] = (cells["name"], cells["pos"], "default", 0, False)
                new.append(name)
    return new


def generate_bcast(rng, tier, scale):
    cases = []
    discover_bcast()
    names = sorted(BFUNCS)
    if scale == 1:
        for fn in names:
            dn, dp, pool, _r0, composite = BFUNCS[fn]
            xs = POOLS[pool]
            for kind in ALL_KINDS:
                if composite and kind in TUPLE_ITEM_KINDS:
                    continue       # a composite (log10 = log(x, 10)) applied to a tuple item would broadcast again
                if kind == "str" and pool != "note":
                    vals = [{"T": "abc"}]
                elif kind in ("set", "frozenset"):
                    vals = [v for v in xs if not (isinstance(v, float) and v != v)]
                else:
                    vals = xs
                if fn.startswith("trace.") and dp not in (None, 0):
                    before = [{"S": "p%d" % i} for i in range(dp)]
                    cases.append(bcast_case(fn, kind, vals, "pos", before=before, after=[{"S": "q"}], kwargs=[["w", {"S": "kw"}]]))
                    if dn:
                        cases.append(bcast_case(fn, kind, vals, "kw", before=before[:-1], kwargs=[["w", {"S": "kw"}]]))
                    continue
                cases.append(bcast_case(fn, kind, vals, "pos"))
                if dn and not composite and kind in ("scalar", "list", "tuple", "generator", "stream", "set", "map"):
                    cases.append(bcast_case(fn, kind, vals, "kw"))
            # user subclasses of the sized containers (class identity), by position and by keyword
            if not fn.startswith("trace.") or dp in (None, 0):
                for kind in SUB_KINDS:
                    vals = [v for v in xs if not (isinstance(v, float) and v != v)] if is_setlike(kind) else xs
                    cases.append(bcast_case(fn, kind, vals, "pos"))
                    if dn and not composite:
                        cases.append(bcast_case(fn, kind, vals, "kw"))
            # fewer items than asked for / more items than asked for / empty
            for kind in ("generator", "stream", "list", "filter", "tuple", "deque", "set"):
                cases.append(bcast_case(fn, kind, [], "pos"))
                cases.append(bcast_case(fn, kind, xs, "pos", n=2))
        # secondary arguments stay the same in every call
        for kind in ALL_KINDS:
            if kind == "str":
                continue
            lv = POOLS["log"] if kind not in ("set", "frozenset") else [1.0, 8.0, 0.5]
            cases.append(bcast_case("log", kind, lv, "pos", after=[2]))
            cases.append(bcast_case("log", kind, lv, "pos", kwargs=[["base", 10]]))
            cases.append(bcast_case("log", kind, lv, "kw", kwargs=[["base", 2]]))
            cases.append(bcast_case("midi2str", kind, POOLS["midi"], "pos", kwargs=[["sharp", False]]))
            cases.append(bcast_case("midi2str", kind, POOLS["midi"], "pos", after=[False]))
            cases.append(bcast_case("erb.gm90", kind, POOLS["erb"], "pos", after=[2.0]))
            cases.append(bcast_case("erb.mg83", kind, POOLS["erb"], "kw", kwargs=[["Hz", 0.5]]))
            for tn in sorted(TRACE_DECOS):
                dn, dp = TRACE_DECOS[tn]
                p = dp or 0
                before = [{"S": "p%d" % i} for i in range(p)]
                cases.append(bcast_case(tn, kind, POOLS["sym"], "pos", before=before, after=[{"S": "q0"}, {"S": "q1"}],
                                        kwargs=[["k1", {"S": "v1"}], ["k2", {"S": "v2"}]]))
                if dn:
                    for nb in range(0, p + 1):
                        if dp is not None and nb > dp:
                            continue
                        if dp is not None and nb == dp + 1:
                            continue
                        # keyword route needs fewer than pos+1 positional arguments
                        if dp is None or nb <= dp:
                            cases.append(bcast_case(tn, kind, POOLS["sym"], "kw", before=before[:nb],
                                                    kwargs=[["k1", {"S": "v1"}], ["k2", {"S": "v2"}]]))
        # the argument is not supplied at all
        cases.append(bcast_case("trace.y1", "list", POOLS["sym"], "none", before=[{"S": "only"}]))
        cases.append(bcast_case("trace.pos1", "list", POOLS["sym"], "none", before=[{"S": "only"}]))
        cases.append(bcast_case("sin", "list", POOLS["default"], "none"))
    nrand = (150 if tier == "quick" else 3000) * scale
    for _ in range(nrand):
        fn = rng.choice(names)
        dn, dp, pool, _r0, composite = BFUNCS[fn]
        kind = rng.choice([k for k in ALL_KINDS if not (composite and k in TUPLE_ITEM_KINDS)])
        if rng.random() < 0.25:
            kind = rng.choice(SUB_KINDS)
        base = POOLS[pool]
        m = rng.choice([0, 1, 2, 3, 5, 8])
        vals = [rng.choice(base) for _ in range(m)] or ([] if kind not in ("scalar", "str", "ControlStream") + tuple(INF_LAZY) else base[:1])
        if kind == "str" and pool != "note":
            vals = [{"T": rng.choice(["abc", "", "x"])}]
        if is_setlike(kind):
            vals = [v for v in vals if not (isinstance(v, float) and v != v)]
        route = "pos"
        before = []
        if fn.startswith("trace.") and dp:
            before = [{"S": "p%d" % i} for i in range(dp)]
        elif dn and not composite and rng.random() < 0.3 and not (dp and dp > 0):
            route = "kw"
        cases.append(bcast_case(fn, kind, vals, route, n=rng.choice([1, 2, 4, 8, 12]), before=before))
    return cases


def tally_bcast(eng, c, io):
    eng.count("bcast_func", c["func"])
    eng.count("bcast_kind", c["kind"])
    if c["kind"].startswith("sub:"):
        eng.count("bcast_subclass", "%s(%s) | %s" % (kind_class(c["kind"]).__name__, kind_base(c["kind"]), c.get("route", "pos")))
        eng.count("bcast_subclass_func", c["func"])
    eng.count("bcast_route", c.get("route", "pos") + ("+extra" if c.get("before") or c.get("after") or c.get("kwargs") else ""))
    eng.count("bcast_out", io.get("out", "raised:" + str(io.get("err"))))
    if "err" not in io:
        eng.count("bcast_end", io["end"])
        eng.count("bcast_items", min(len(io["items"]), 10))
        if io.get("reads0") is not None and io.get("out") in ("generator", "stream"):
            eng.count("bcast_laziness_checked", "reads0=%d" % io["reads0"])


def shrink_bcast(c):
    if len(c["xs"]) > 1 and c["kind"] in INF_LAZY:
        yield dict(c, xs=c["xs"][:1])
    if c["xs"] and c["kind"] not in ("scalar", "str", "ControlStream") + tuple(INF_LAZY):
        yield dict(c, xs=c["xs"][:-1])
        yield dict(c, xs=c["xs"][1:])
    for k in ("before", "after", "kwargs"):
        if c.get(k) and not c["func"].startswith("trace."):
            yield dict(c, **{k: []})
    if c.get("n", 8) > 1:
        yield dict(c, n=c.get("n", 8) - 1)


def neighbours_bcast(c):
    for kind in ALL_KINDS + SUB_KINDS:
        if kind != c["kind"] and not (BFUNCS[c["func"]][4] and kind in TUPLE_ITEM_KINDS):
            xs = c["xs"] if kind != "str" or BFUNCS[c["func"]][2] == "note" else [{"T": "abc"}]
            if (kind in ("scalar", "ControlStream") or kind in INF_LAZY) and not xs:
                continue
            yield dict(c, kind=kind, xs=xs)
    for fn in ("sin", "trace.x0", "log", "midi2str"):
        if fn != c["func"] and not c.get("before") and not c.get("after") and not c.get("kwargs") and c.get("route", "pos") == "pos":
            yield bcast_case(fn, c["kind"], POOLS[BFUNCS[fn][2]] if c["kind"] != "str" else [{"T": "A4"}], "pos")


def _kind_class(k):
    return "scalar" if k in ("scalar", "str") else "sized-subclass" if k.startswith("sub:") else "sized" if k in SIZED else "stream" if k in STREAMS else "lazy"


def classify_bcast(c, io, drv):
    spec = drv.get("spec", {})
    fam = "trace" if c["func"].startswith("trace.") else "library"
    route = c.get("route", "pos") + ("+extra" if c.get("before") or c.get("after") or c.get("kwargs") else "")
    head = "bcast:%s/%s/%s" % (fam, _kind_class(c["kind"]), route)
    if "err" in io:
        return head + ":raised:" + io["err"]
    if io.get("out") != spec.get("out"):
        return head + ":kind:%s-instead-of-%s" % (io.get("out"), spec.get("out"))
    if io.get("reads0"):
        return head + ":read-at-call-time"
    if io.get("per_next") and io["per_next"] != list(range(1, len(io["per_next"]) + 1)):
        return head + ":reads-per-next"
    return head + ":wrong-element"
