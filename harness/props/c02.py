"""C02 — everything is lazy.

Tie: every public stage constructor of the registry below is built on a *counting* source.
Observed on the real code: items pulled at construction (must be 0) and after every `next()`
on the stage output, at the source AND at every boundary inside a chain (counting taps between
the stages) AND at every auxiliary source (coefficient streams, zip partners).  The Lean side
runs the generator protocol on the composed `Stage` model (`model`) and evaluates the closed
forms of the property (`spec`); the theorems of Props/C02 say these agree.

Source modes: `finite` (need(K)+slack items), `trip` (exactly need(K) items, then a trip-wire
that raises when touched), `endless`.  need(K) comes from the Lean spec (driver query made by
the generator), never from Python.
"""
import itertools as it
import json
import warnings
from fractions import Fraction as F

import common
from common import err_kind

ID = "C02"
RULE = ("every registry stage x >=3 parameter sets x 3 source modes (finite+slack, exact+trip-wire, endless), "
        "K=12 consecutive next() per case (so k=0..12 each), plus random chains of compatible stages "
        "(depth<=3 quick, <=5 thorough) with counting taps at every boundary, plus take/peek consumers; "
        "a case is non-trivial when at least one output was demanded and delivered; distinct = distinct JSON case")
TRUSTED = [
    "hand-written Lean models ALV/Model/C02.lean of the READ DISCIPLINE of each stage (prologue / one read per loop "
    "iteration / epilogue); data paths are abstracted (values are Unit) - they belong to C04/C06/C08/C09/C16/C19",
    "Python generator protocol, itertools (tee, chain, islice, map, filter, zip, takewhile, dropwhile, accumulate, "
    "compress, cycle) and collections.deque are trusted; the tostream wrappers around them are measured",
    "documented look-ahead that is modelled exactly: resample reads rint((order+1)/2) items on the first demand and "
    "then one item per unit of interpolation position; a Streamix event is read once per output from the output at "
    "which it starts (ceil(delta - 1/2)); skip(n) reads n+1 items for the first output; blocks needs size items for "
    "the first block and hop per further block; overlap_add/stft release hop outputs per block; "
    "Stream.peek(n)/take(n) are consumers (they read n items when called, never n+1)",
    "filter `memory=` iterables are parameters, not sources: they are read when the filter is called (lm+1 items "
    "through takewhile); not covered by the property",
]
ASSUMPTIONS = [
    "count/trip/endless modes: sources are long enough for the K demanded outputs; the `drain` mode (finite source consumed "
    "to its end, pull counter at every output incl. the epilogue) is run only for stages whose end-of-source behaviour is "
    "not a defect owned by C03/C09/C19/C20 (D1, D6, D7, D11)",
    "auxiliary sources (zip partners, coefficient streams, modulo_counter arguments) are lock-step: their pull counter must "
    "equal the pull counter of the stage's main input (pair-source model, theorem lockstep_two_sources); resample with a "
    "time-varying step stream is not covered",
    "size>=1, hop>=1, hop<=size for overlap-add/STFT, resample order>=1 and old/new>0 (exact Fractions), Streamix delta>=0",
    "Stream.filter has no bound (the property gives none): its reads are compared with the position of the k-th passing item",
]
MANIFEST = {"technique": "Lean 4 proof (generic transducer theory + per-stage need theorems) tied to /repo by "
                         "differential pull counting with counting / trip-wire / endless sources"}

warnings.simplefilter("ignore")


# ----------------------------------------------------------------------------------------------
# counting sources
# ----------------------------------------------------------------------------------------------
class TripWire(Exception):
    pass


class Src(object):
    """Counting source iterator.  n=None: endless.  trip: raise TripWire instead of ending."""

    def __init__(self, n=None, trip=False, vals="signed", salt=0, cap=None):
        self.n, self.trip, self.vals, self.salt = n, trip, vals, salt
        self.cap = cap          # endless sources: a stage draining them must not hang the check
        self.count = 0
        self.tripped = False

    def __iter__(self):
        return self

    def value(self, i):
        h = (i * 7 + 3 + self.salt * 5) % 11
        if self.vals == "pos":
            return h + 1
        if self.vals == "block":
            return [h + 1, h, h + 2]
        return h - 5

    def __next__(self):
        if self.n is not None and self.count >= self.n:
            if self.trip:
                self.tripped = True
                raise TripWire("source read past item %d" % self.n)
            raise StopIteration
        if self.cap is not None and self.count >= self.cap:
            self.tripped = True
            raise TripWire("runaway: endless source drained (%d items read)" % self.count)
        v = self.value(self.count)
        self.count += 1
        return v

    next = __next__


class Tap(object):
    """Counting pass-through placed between two stages of a chain (lazy: no iter() before use)."""

    def __init__(self, inner, cap=None):
        self.inner = inner
        self.itr = None
        self.count = 0
        self.cap = cap

    def __iter__(self):
        return self

    def __next__(self):
        if self.itr is None:
            self.itr = iter(self.inner)
        if self.cap is not None and self.count >= self.cap:
            raise TripWire("runaway: %d items pulled at an inner boundary" % self.count)
        v = next(self.itr)
        self.count += 1
        return v

    next = __next__


class Ctx(object):
    """Per-case build context: auxiliary counting sources created by the builders."""

    def __init__(self):
        self.aux = []          # (stage index, rule, Src)
        self.stage = 0
        self.cap = None

    def mk_aux(self, rule="lockstep", vals="pos"):
        s = Src(None, vals=vals, salt=len(self.aux) + 1, cap=self.cap)
        self.aux.append((self.stage, rule, s))
        return s


def _fr(x):
    return F(x) if isinstance(x, str) else x


def _pat_pred(pat, invert=False):
    """Predicate following a fixed pass pattern by call number (True beyond its end)."""
    state = {"i": 0}

    def pred(_x):
        i = state["i"]
        state["i"] = i + 1
        r = bool(pat[i]) if i < len(pat) else True
        return (not r) if invert else r
    return pred


def _first_n_pred(n):
    state = {"i": 0}

    def pred(_x):
        state["i"] += 1
        return state["i"] <= n
    return pred


# ----------------------------------------------------------------------------------------------
# registry: name -> dict(kin, kout, gen(rng, cx) -> params, build(src, p, ctx) -> iterable,
#                        model(p) -> Lean stage descriptor)
# kinds: "s" samples (numbers), "b" blocks, "any"; kout "same" keeps the kind
# ----------------------------------------------------------------------------------------------
REG = {}


def reg(name, kin, kout, gen, build, model, head_only=False):
    REG[name] = dict(name=name, kin=kin, kout=kout, gen=gen, build=build, model=model, head_only=head_only)


def _al():
    import audiolazy
    return audiolazy


SAMPLE = lambda p: {"m": "sample"}
SCAN = lambda p: {"m": "scan"}
NOP = lambda rng, cx: {}

_BIN = {
    "add": lambda s, c: s + c, "sub": lambda s, c: s - c, "mul": lambda s, c: s * c,
    "radd": lambda s, c: c + s, "rsub": lambda s, c: c - s, "rmul": lambda s, c: c * s,
    "truediv": lambda s, c: s / c, "pow": lambda s, c: s ** 2, "lt": lambda s, c: s < c,
    "ge": lambda s, c: s >= c, "eq": lambda s, c: s == c, "ne": lambda s, c: s != c,
}
_UN = {"neg": lambda s: -s, "pos": lambda s: +s, "abs": lambda s: abs(s)}


def _install():
    al = _al()
    Stream, z, thub = al.Stream, al.z, al.thub
    ident = lambda x: x

    # --- Stream basics (kind agnostic) ---------------------------------------------------------
    reg("Stream", "any", "same", NOP, lambda s, p, c: Stream(s), SAMPLE)
    reg("Stream.map", "any", "same", NOP, lambda s, p, c: Stream(s).map(ident), SAMPLE)
    reg("imap", "any", "same", NOP, lambda s, p, c: al.imap(ident, s), SAMPLE)
    reg("Stream.__call__", "any", "same", NOP,
        lambda s, p, c: Stream(s).map(lambda v: (lambda: v))(), lambda p: {"m": "cascade", "n": 2})
    reg("takewhile", "any", "same", NOP, lambda s, p, c: al.takewhile(lambda v: True, s), SAMPLE)
    reg("cycle", "any", "same", NOP, lambda s, p, c: al.cycle(s), SAMPLE)
    reg("izip", "any", "same", NOP,
        lambda s, p, c: al.imap(lambda t: t[0], al.izip(s, c.mk_aux())), lambda p: {"m": "cascade", "n": 2})
    reg("izip.longest", "any", "same", NOP,
        lambda s, p, c: al.imap(lambda t: t[1], al.izip.longest(c.mk_aux(), s)), lambda p: {"m": "cascade", "n": 2})

    def g_pat(rng, cx):
        n = rng.randint(0, 8)
        return {"pat": [rng.random() < 0.55 for _ in range(n)]}
    FILT = lambda p: {"m": "filt", "pat": p["pat"]}
    reg("Stream.filter", "any", "same", g_pat, lambda s, p, c: Stream(s).filter(_pat_pred(p["pat"])), FILT)
    reg("ifilter", "any", "same", g_pat, lambda s, p, c: al.ifilter(_pat_pred(p["pat"]), s), FILT)
    reg("ifilterfalse", "any", "same", g_pat,
        lambda s, p, c: al.ifilterfalse(_pat_pred(p["pat"], invert=True), s), FILT)
    reg("compress", "any", "same", g_pat,
        lambda s, p, c: al.compress(s, it.chain([int(b) for b in p["pat"]], it.repeat(1))), FILT)

    def g_skip(rng, cx):
        n = rng.choice([0, 1, 2, 3, 5, rng.randint(0, 12)])
        form = rng.choice(["int", "int", "float"])
        return {"n": n, "form": form}
    reg("Stream.skip", "any", "same", g_skip,
        lambda s, p, c: Stream(s).skip(p["n"] if p["form"] == "int" else p["n"] + 0.25),
        lambda p: {"m": "skip", "n": p["n"]})
    reg("dropwhile", "any", "same", lambda rng, cx: {"n": rng.randint(0, 6)},
        lambda s, p, c: al.dropwhile(_first_n_pred(p["n"]), s), lambda p: {"m": "skip", "n": p["n"]})
    reg("Stream.limit", "any", "same", lambda rng, cx: {"extra": rng.randint(0, 5)},
        lambda s, p, c: Stream(s).limit(10 ** 5 + p["extra"]), SAMPLE)

    def g_items(rng, cx):
        return {"n": rng.randint(0, 6)}

    def items(p, c):
        return [[1] * (c.bsize or 3)] * p["n"] if c.kind == "b" else list(range(1, p["n"] + 1))
    PRE = lambda p: {"m": "pad", "pre": p["n"], "post": 0}
    POST = lambda p: {"m": "pad", "pre": 0, "post": p["n"]}
    reg("Stream.append", "any", "same", g_items, lambda s, p, c: Stream(s).append(items(p, c)), POST)
    reg("prepend", "any", "same", g_items, lambda s, p, c: Stream(items(p, c)).append(s), PRE)
    reg("chain", "any", "same", g_items, lambda s, p, c: al.chain(items(p, c), s), PRE)
    reg("chain.star", "any", "same", g_items,
        lambda s, p, c: al.chain.from_iterable(iter([items(p, c), s])), PRE)
    reg("Stream(a,b)", "any", "same", g_items, lambda s, p, c: Stream(items(p, c), s), PRE)

    def b_copy(s, p, c):
        st = Stream(s)
        cp = st.copy()
        if p["use"] == "copy":
            return cp
        if p["use"] == "orig":
            return st
        return al.imap(lambda t: t[0], al.izip(st, cp))
    reg("Stream.copy", "any", "same", lambda rng, cx: {"use": rng.choice(["copy", "orig", "both"])}, b_copy,
        lambda p: {"m": "sample"} if p["use"] != "both" else {"m": "par", "n": 2})

    def b_tee(s, p, c):
        ts = al.tee(s if p["raw"] else Stream(s), p["n"])
        if p["use"] == "one":
            return ts[p["n"] - 1]
        return al.imap(lambda t: t[0], al.izip(*ts))
    reg("tee", "any", "same",
        lambda rng, cx: {"n": rng.randint(1, 4), "use": rng.choice(["one", "all"]), "raw": rng.random() < .5},
        b_tee, lambda p: {"m": "sample"} if p["use"] == "one" else {"m": "par", "n": p["n"]})

    def g_islice(rng, cx):
        return {"start": rng.randint(0, 5), "step": rng.randint(1, 4)}
    reg("islice", "any", "same", g_islice, lambda s, p, c: al.islice(s, p["start"], None, p["step"]),
        lambda p: {"m": "islice", "start": p["start"], "step": p["step"]})

    # --- operators (samples) ----------------------------------------------------------------------
    def g_bin(rng, cx):
        return {"op": rng.choice(sorted(_BIN)), "c": rng.choice([1, 2, 3, -2, "1/2", 0.5])}
    reg("op.scalar", "s", "s", g_bin, lambda s, p, c: _BIN[p["op"]](Stream(s), _fr(p["c"])), SAMPLE)
    reg("op.unary", "s", "s", lambda rng, cx: {"op": rng.choice(sorted(_UN))},
        lambda s, p, c: _UN[p["op"]](Stream(s)), SAMPLE)

    def b_biniter(s, p, c):
        a = c.mk_aux()
        other = {"src": a, "stream": Stream(a), "gen": (v for v in a)}[p["other"]]
        return _BIN[p["op"]](Stream(s), other)
    reg("op.iter", "s", "s",
        lambda rng, cx: {"op": rng.choice(["add", "sub", "mul", "radd", "rsub", "rmul", "lt", "truediv"]),
                         "other": rng.choice(["src", "stream", "gen"])},
        b_biniter, SCAN)
    reg("Stream.real", "s", "s", NOP, lambda s, p, c: Stream(s).real, SAMPLE)

    def b_thub(s, p, c):
        x = thub(s, p["n"])
        acc = None
        for i in range(p["n"]):
            term = x * (i + 1) if i % 2 == 0 else (i + 1) - x
            acc = term if acc is None else acc + term
        return acc
    reg("thub", "s", "s", lambda rng, cx: {"n": rng.randint(1, 4)}, b_thub, lambda p: {"m": "par", "n": p["n"]})

    def b_poly(s, p, c):
        x = al.x
        poly = sum(_fr(cf) * x ** pw for pw, cf in p["terms"])
        return poly(Stream(s), horner=p["horner"])
    reg("Poly.__call__", "s", "s",
        lambda rng, cx: {"terms": [[pw, rng.choice([1, 2, -1, "1/2"])] for pw in sorted(rng.sample(range(0, 6), rng.randint(1, 4)))],
                         "horner": rng.choice(["auto", True, False])},
        b_poly, lambda p: {"m": "par", "n": len(p["terms"])})
    reg("gammatone", "s", "s", lambda rng, cx: {"kind": rng.choice(["sampled", "slaney", "klapuri"])},
        lambda s, p, c: al.gammatone[p["kind"]](.3, .1)(s), lambda p: {"m": "cascade", "n": 4})
    reg("elementwise", "s", "s", lambda rng, cx: {"f": rng.choice(["sin", "cos", "exp", "sqrt", "dB20", "log2", "sign", "midi2freq", "absolute"])},
        lambda s, p, c: getattr(al, p["f"])(Stream(s)), SAMPLE, head_only=True)

    # --- filters -------------------------------------------------------------------------------------
    def g_coefs(rng, cx, maxb=4, maxa=3):
        num = lambda: rng.choice([0, 1, -1, 2, "1/2", "-3/4", 0.5, 3])
        b = [num() for _ in range(rng.randint(1, maxb))]
        a = [rng.choice([1, 1, -1, 2, "1/2"])] + [num() for _ in range(rng.randint(0, maxa - 1))]
        if rng.random() < 0.1:
            b = [0] * len(b)
        return {"b": b, "a": a, "mem": rng.choice([None, None, "list", "short"]), "zero": rng.choice([0, 0.0])}

    def mk_filter(p):
        return al.ZFilter([_fr(v) for v in p["b"]], [_fr(v) for v in p["a"]])

    def b_lti(s, p, c):
        f = mk_filter(p)
        lm = len(p["a"]) - 1
        mem = None if p["mem"] is None else ([1] * lm if p["mem"] == "list" else [1] * max(lm - 1, 0))
        return f(s, memory=mem, zero=p["zero"])
    reg("ZFilter.__call__", "s", "s", g_coefs, b_lti, SCAN)

    def b_tv(s, p, c):
        where = p["where"]
        if where == "b0":
            f = Stream(c.mk_aux()) + z ** -1
        elif where == "b1":
            f = 1 + Stream(c.mk_aux()) * z ** -1
        elif where == "a1":
            f = 1 / (1 + Stream(c.mk_aux()) * z ** -1)
        elif where == "a0":          # variable output gain branch
            f = (1 + z ** -1) / (Stream(c.mk_aux()) + F(1, 2) * z ** -1)
        elif where == "a0a1":
            f = 1 / (Stream(c.mk_aux()) + Stream(c.mk_aux()) * z ** -2)
        else:
            f = (Stream(c.mk_aux()) + Stream(c.mk_aux()) * z ** -2) / (1 - Stream(c.mk_aux()) * z ** -1)
        return f(s, zero=0)
    reg("ZFilter.timevarying", "s", "s",
        lambda rng, cx: {"where": rng.choice(["b0", "b1", "a1", "a0", "a0a1", "b0b2a1"])}, b_tv, SCAN)

    def b_design(s, p, c):
        k = p["kind"]
        tv = p["tv"]
        par = lambda: (Stream(c.mk_aux()) * .1) if tv else .3
        if k.startswith("lowpass") or k.startswith("highpass"):
            fam, strat = k.split(".")
            f = getattr(al, fam)[strat](par())
        elif k.startswith("resonator"):
            f = al.resonator[k.split(".")[1]](par(), .1)
        elif k == "comb.fb":
            f = al.comb.fb(3, (Stream(c.mk_aux()) * .1) if tv else .5)
        elif k == "comb.tau":
            f = al.comb.tau(3, (Stream(c.mk_aux()) * 10) if tv else 20)
        else:
            f = al.comb.ff(2, (Stream(c.mk_aux()) * .1) if tv else .5)
        return f(s)
    DESIGNS = ["lowpass.pole", "lowpass.z", "lowpass.pole_exp", "lowpass.z_exp", "highpass.pole", "highpass.z",
               "highpass.pole_exp", "highpass.z_exp", "resonator.poles_exp", "resonator.freq_poles_exp",
               "resonator.z_exp", "resonator.freq_z_exp", "comb.fb", "comb.tau", "comb.ff"]
    reg("filter.design", "s", "s", lambda rng, cx: {"kind": rng.choice(DESIGNS), "tv": rng.random() < .4},
        b_design, SCAN)

    def g_flist(rng, cx):
        n = rng.choice([0, 1, 2, 2, 3])
        return {"filters": [dict(g_coefs(rng, cx, 3, 2), nl=rng.random() < .2) for _ in range(n)]}

    def mk_flist(p):
        return [(al.maverage.deque(2) if q.get("nl") else mk_filter(q)) for q in p["filters"]]
    reg("CascadeFilter", "s", "s", g_flist, lambda s, p, c: al.CascadeFilter(*mk_flist(p))(s),
        lambda p: {"m": "cascade", "n": len(p["filters"])})
    reg("ParallelFilter", "s", "s", g_flist, lambda s, p, c: al.ParallelFilter(*mk_flist(p))(s),
        lambda p: {"m": "par", "n": len(p["filters"])})
    reg("accumulate.z", "s", "s", NOP, lambda s, p, c: al.accumulate.z(s), SCAN)
    reg("accumulate.itertools", "s", "s", NOP, lambda s, p, c: al.accumulate(s), SCAN)
    reg("accumulate.func", "s", "s", NOP, lambda s, p, c: al.accumulate.func(s), lambda p: {"m": "first"})

    # --- analysis --------------------------------------------------------------------------------------
    g_size = lambda rng, cx: {"size": rng.randint(1, 6)}
    for strat in ("deque", "recursive", "fir"):
        reg("maverage." + strat, "s", "s", g_size,
            (lambda st: lambda s, p, c: al.maverage[st](p["size"])(s))(strat), SCAN)
    for strat, nst in (("rms", 3), ("abs", 2), ("squared", 2)):
        # rms ends with `** .5`, which may yield complex numbers: only kind-agnostic stages may follow
        reg("envelope." + strat, "s", "c" if strat == "rms" else "s", NOP,
            (lambda st: lambda s, p, c: al.envelope[st](s, cutoff=.2))(strat),
            (lambda n: lambda p: {"m": "cascade", "n": n})(nst))
    reg("amdf", "s", "s", lambda rng, cx: {"lag": rng.choice([1, 2, 3, 1.5]), "size": rng.randint(1, 4)},
        lambda s, p, c: al.amdf(p["lag"], p["size"])(s), lambda p: {"m": "cascade", "n": 3})
    reg("clip", "s", "s", lambda rng, cx: {"low": rng.choice([None, -2, -1]), "high": rng.choice([None, 1, 3])},
        lambda s, p, c: al.clip(s, p["low"], p["high"]), SAMPLE)
    reg("zcross", "s", "s",
        lambda rng, cx: {"hyst": rng.choice([0, 1, 2, 20]), "first": rng.choice([0, 0, 1, -1])},
        lambda s, p, c: al.zcross(s, hysteresis=p["hyst"], first_sign=p["first"]),
        lambda p: {"m": "zcross", "known": p["first"] != 0})
    reg("unwrap", "s", "s", NOP, lambda s, p, c: al.unwrap(s), lambda p: {"m": "first"})

    # --- synth with stream arguments ---------------------------------------------------------------------
    def b_modc(s, p, c):
        w = p["which"]
        aux = lambda: c.mk_aux()
        other = lambda flag, const: aux() if flag else const
        if w == "start":
            return al.modulo_counter(s, other(p["a1"], 7), other(p["a2"], p["step"]))
        if w == "modulo":
            return al.modulo_counter(other(p["a1"], 0), Stream(s).map(lambda v: abs(v) + 2), other(p["a2"], p["step"]))
        return al.modulo_counter(other(p["a1"], 0), other(p["a2"], 7), s)
    reg("modulo_counter", "s", "s",
        lambda rng, cx: {"which": rng.choice(["start", "modulo", "step"]), "a1": rng.random() < .4,
                         "a2": rng.random() < .4, "step": rng.choice([0, 1, 2, 5, 9])},
        b_modc, lambda p: {"m": "scan"} if p["which"] != "modulo" else {"m": "cascade", "n": 2})
    reg("sinusoid", "s", "s", lambda rng, cx: {"phase": rng.random() < .3},
        lambda s, p, c: al.sinusoid(Stream(s) * .1, phase=Stream(c.mk_aux()) if p["phase"] else 0.),
        lambda p: {"m": "cascade", "n": 3})
    reg("TableLookup.__call__", "s", "s", NOP,
        lambda s, p, c: al.sin_table(Stream(s) * .01), lambda p: {"m": "cascade", "n": 4})

    # --- blocks / overlap-add / stft --------------------------------------------------------------------
    def g_blocks(rng, cx):
        size = rng.choice([1, 2, 3, 4, rng.randint(1, 9)])
        hop = rng.choice([None, 1, size, size + 1, max(1, size - 1), rng.randint(1, 12)])
        return {"size": size, "hop": hop, "route": rng.choice(["func", "method", "method_kw"])}

    def b_blocks(s, p, c):
        if p["route"] == "func":
            return al.blocks(s, p["size"], p["hop"])
        if p["route"] == "method":
            return Stream(s).blocks(p["size"], p["hop"])
        return Stream(s).blocks(size=p["size"], hop=p["hop"], padval=0)
    reg("blocks", "s", "b", g_blocks, b_blocks,
        lambda p: {"m": "blocks", "size": p["size"], "hop": p["hop"] or p["size"]})
    reg("zero_pad", "any", "same", lambda rng, cx: {"left": rng.randint(0, 6), "right": rng.randint(0, 3)},
        lambda s, p, c: al.zero_pad(s, left=p["left"], right=p["right"], zero=([0] * (c.bsize or 3) if c.kind == "b" else 0)),
        lambda p: {"m": "pad", "pre": p["left"], "post": p["right"]})

    def g_ola(rng, cx):
        size = cx.get("bsize") or 3
        hop = rng.choice([None, size, rng.randint(1, size), 1])
        return {"size": size, "hop": hop, "detect": rng.random() < .4, "wnd": rng.choice([None, None, "list", "call"]),
                "norm": rng.random() < .7}

    def b_ola(s, p, c):
        size = p["size"]
        wnd = None if p["wnd"] is None else ([1.] * size if p["wnd"] == "list" else (lambda n: [.5] * n))
        return al.overlap_add.list(s, size=None if p["detect"] else size, hop=p["hop"], wnd=wnd, normalize=p["norm"])
    reg("overlap_add.list", "b", "s", g_ola, b_ola,
        lambda p: {"m": "ola", "size": p["size"], "hop": p["hop"] or p["size"]})

    def g_stft(rng, cx):
        size = rng.randint(1, 8)
        hop = rng.choice([None, size, rng.randint(1, size), 1])
        return {"size": size, "hop": hop, "ola": rng.random() < .7, "wnd": rng.choice([None, "list", "call"]),
                "deco": rng.random() < .5}

    def b_stft(s, p, c):
        size = p["size"]
        kw = dict(size=size, transform=None, inverse_transform=None, before=None, after=None)
        if p["hop"] is not None:
            kw["hop"] = p["hop"]
        if p["wnd"] is not None:
            kw["wnd"] = [1.] * size if p["wnd"] == "list" else (lambda n: [.5] * n)
        kw["ola"] = al.overlap_add.list if p["ola"] else None
        func = (lambda blk: list(blk))
        if p["deco"]:
            return al.stft(**kw)(func)(s)
        return al.stft(func, **kw)(s)
    reg("stft", "s", "stft", g_stft, b_stft,
        lambda p: {"m": "stft", "size": p["size"], "hop": p["hop"] or p["size"], "ola": p["ola"]})

    # --- resample / Streamix ---------------------------------------------------------------------------
    def g_rs(rng, cx):
        old, new = rng.choice([(1, 2), (2, 1), (1, 1), (3, 2), (2, 3), (5, 2), (1, 4), (7, 3), (3, 7),
                               (rng.randint(1, 9), rng.randint(1, 9))])
        return {"old": old, "new": new, "order": rng.randint(1, 6)}
    reg("resample", "s", "s", g_rs,
        lambda s, p, c: al.resample(s, old=F(p["old"]), new=F(p["new"]), order=p["order"], zero=0),
        lambda p: {"m": "resample", "order": p["order"], "step": str(F(p["old"], p["new"]))})

    def g_smix(rng, cx):
        d = rng.choice([0, 1, 2, 3, "1/2", "5/2", "3/2", "7/4", "9/4", 0.5, 2.5, 4.49, rng.randint(0, 9)])
        return {"delta": d if not isinstance(d, float) else str(F(d)), "float": isinstance(d, float),
                "bg": rng.random() < .5, "keep": rng.random() < .3}

    def b_smix(s, p, c):
        m = al.Streamix(keep=p["keep"], zero=0)
        d = _fr(p["delta"])
        if p["float"]:
            d = float(d)
        if p["bg"]:
            m.add(0, it.repeat(0))
        m.add(d, s)
        return m
    reg("Streamix", "s", "s", g_smix, b_smix, lambda p: {"m": "smix", "delta": p["delta"]})


_INSTALLED = False


def registry():
    global _INSTALLED
    if not _INSTALLED:
        _install()
        _INSTALLED = True
    return REG


# ----------------------------------------------------------------------------------------------
# cases
# ----------------------------------------------------------------------------------------------
def _out_kind(e, p, kind):
    if e["kout"] == "same":
        return kind
    if e["kout"] == "stft":
        return "s" if p["ola"] else "b"
    return e["kout"]


def _gen_chain(rng, depth, only=None):
    R = registry()
    names = sorted(R)
    chain, kind, bsize = [], "s", None
    for pos in range(depth):
        if only is not None and pos == 0:
            cand = [only]
        else:
            cand = [n for n in names if R[n]["kin"] in (kind, "any") and not (R[n]["head_only"] and pos > 0)]
        name = rng.choice(cand)
        e = R[name]
        if e["kin"] not in (kind, "any"):
            # `only` needs blocks in front
            size = rng.randint(1, 5)
            chain.append({"st": "blocks", "p": {"size": size, "hop": rng.randint(1, size), "route": "method"}})
            kind, bsize = "b", size
        p = e["gen"](rng, {"kind": kind, "bsize": bsize, "pos": pos})
        chain.append({"st": name, "p": p})
        nk = _out_kind(e, p, kind)
        if name == "blocks" or (name == "stft" and not p["ola"]):
            bsize = p["size"]
        kind = nk
    return chain


def _kinds(chain):
    """(kind, block size) in front of every stage"""
    R = registry()
    kind, bsize, out = "s", None, []
    for el in chain:
        out.append((kind, bsize))
        nk = _out_kind(R[el["st"]], el["p"], kind)
        if el["st"] == "blocks" or (el["st"] == "stft" and not el["p"]["ola"]):
            bsize = el["p"]["size"]
        kind = nk
    return out


def _well_kinded(chain):
    R = registry()
    kind, bsize = "s", None
    for i, el in enumerate(chain):
        e = R[el["st"]]
        if e["kin"] not in (kind, "any") or (e["head_only"] and i > 0):
            return False
        if el["st"] == "overlap_add.list" and el["p"]["size"] != bsize:
            return False
        nk = _out_kind(e, el["p"], kind)
        if el["st"] == "blocks" or (el["st"] == "stft" and not el["p"]["ola"]):
            bsize = el["p"]["size"]
        kind = nk
    return True


def _model_chain(c):
    R = registry()
    return [R[el["st"]]["model"](el["p"]) for el in c["chain"]]


def _attach(cases):
    """Ask the Lean spec how many source items K outputs need; size the sources accordingly."""
    for c in cases:
        if c.get("entry") == "reads" and c.get("mode") == "drain":
            c.setdefault("need", 0)
            c.setdefault("cap", c["n"] + 3000)
    todo = [c for c in cases if c.get("entry") == "reads" and "need" not in c]
    if not todo:
        return cases
    reqs = [{"id": ID, "entry": "reads", "chain": _model_chain(c), "n": 0, "k": c["k"]} for c in todo]
    outs = common.Driver().batch(reqs)
    for c, o in zip(todo, outs):
        if "ok" not in o:
            raise common.InfraError("C02 spec query rejected: %s for %s" % (o, json.dumps(c)[:300]))
        c["need"] = o["ok"]["need"]
        # no boundary legitimately carries more items than this (runaway guard for eager mutants)
        c["cap"] = max([c["need"]] + [lv[-1] for lv in o["ok"]["spec"] if lv]) + 3000
    return cases


MODES = ("finite", "trip", "endless")
# stages whose end-of-source behaviour is modelled here (epilogue `onEnd`) and is not one of the
# defects owned by other properties (D1 skip/limit/take past the end, D6 resample, D7, D11)
DRAIN_OK = {"Stream", "Stream.map", "imap", "Stream.__call__", "takewhile", "Stream.filter", "ifilter",
            "ifilterfalse", "compress", "dropwhile", "Stream.append", "prepend", "chain", "chain.star",
            "Stream(a,b)", "Stream.copy", "tee", "islice", "op.scalar", "op.unary", "Stream.real", "thub",
            "ZFilter.__call__", "CascadeFilter", "ParallelFilter", "accumulate.z", "accumulate.itertools",
            "maverage.deque", "maverage.recursive", "maverage.fir", "envelope.abs", "envelope.squared", "amdf",
            "clip", "zcross", "blocks", "zero_pad", "overlap_add.list", "stft", "Poly.__call__", "gammatone"}


def _drainable(chain):
    for el in chain:
        if el["st"] not in DRAIN_OK:
            return False
        if el["st"] == "overlap_add.list" and el["p"]["detect"]:
            return False      # size detection peeks one block: D7 on an empty block stream
    return True


def generate(rng, tier, scale=1):
    R = registry()
    cases = []
    quick = tier == "quick"
    nsets = (8 if quick else 60) * scale
    for name in sorted(R):
        for i in range(nsets):
            chain = _gen_chain(rng, 1, only=name)
            K = 12 if i % 4 else rng.choice([0, 1, 40] if quick else [0, 1, 40, 200])
            for mode in MODES:
                cases.append({"entry": "reads", "chain": [dict(el) for el in chain], "k": K, "mode": mode,
                              "slack": rng.choice([1, 2, 7, 30]), "vals": "pos" if R[name]["head_only"] or rng.random() < .3 else "signed"})
    nchains = (1500 if quick else 12000) * scale
    maxd = 3 if quick else 5
    for _ in range(nchains):
        chain = _gen_chain(rng, rng.randint(2, maxd))
        head_pos = R[chain[0]["st"]]["head_only"]
        cases.append({"entry": "reads", "chain": chain, "k": rng.choice([1, 2, 3, 5, 8, 12] if quick else [1, 3, 8, 12, 30]),
                      "mode": rng.choice(MODES), "slack": rng.choice([1, 3, 20]),
                      "vals": "pos" if head_pos or rng.random() < .3 else "signed"})
    ndrain = (1000 if quick else 8000) * scale
    made = 0
    for _ in range(ndrain * 6):
        if made >= ndrain:
            break
        chain = _gen_chain(rng, rng.choice([1, 1, 2, 3]), only=rng.choice(sorted(DRAIN_OK)))
        if not _drainable(chain):
            continue
        made += 1
        cases.append({"entry": "reads", "chain": chain, "k": 400, "mode": "drain", "n": rng.choice([0, 1, 2, 3, 5, 8, 13, rng.randint(0, 40)]),
                      "vals": "signed"})
    if scale == 1:
        for n in range(0, 9):
            for ln in (n, n + 1, n + 5):
                cases.append({"entry": "take", "n": n, "len": ln, "form": ("int", "float")[n % 2]})
            cases.append({"entry": "peek", "n": n, "k": 8, "hub": n % 3 == 0})
    return _attach(cases)


# ----------------------------------------------------------------------------------------------
# impl
# ----------------------------------------------------------------------------------------------
def _run_reads(c):
    R = registry()
    K = c["k"]
    mode = c["mode"]
    if mode == "drain":
        n = c["n"]
    else:
        n = None if mode == "endless" else c["need"] + (0 if mode == "trip" else c["slack"])
    RUNAWAY = c.get("cap", c["need"] + 3000)
    src = Src(n, trip=(mode == "trip"), vals=c.get("vals", "signed"), cap=RUNAWAY)
    ctx = Ctx()
    ctx.cap = RUNAWAY
    ctx.K = K
    taps = [src]
    kinds = _kinds(c["chain"])
    cur = src
    stage_objs = []
    for i, el in enumerate(c["chain"]):
        ctx.stage = i
        ctx.kind, ctx.bsize = kinds[i]
        out = R[el["st"]]["build"](cur, el["p"], ctx)
        stage_objs.append(out)
        if i + 1 < len(c["chain"]):
            cur = Tap(out, cap=RUNAWAY)
            taps.append(cur)
        else:
            cur = out
    counts = lambda: [t.count for t in taps]
    auxc = lambda: [a.count for (_i, _r, a) in ctx.aux]
    obs = {"c0": counts() + auxc(), "levels": [[] for _ in taps], "aux": [[i, r, []] for (i, r, _a) in ctx.aux],
           "outs": 0}
    try:
        itr = iter(cur)
        obs["c1"] = counts() + auxc()
        for _ in range(K):
            next(itr)
            obs["outs"] += 1
            for lv, v in zip(obs["levels"], counts()):
                lv.append(v)
            for a, v in zip(obs["aux"], auxc()):
                a[2].append(v)
    except StopIteration:
        obs["ended"] = True
    except CaseTimeout:
        raise
    except Exception as e:  # TripWire, RuntimeError, ...
        obs["err"] = "OTHER:TripWire" if isinstance(e, TripWire) else err_kind(e)
        obs["errmsg"] = str(e)[:200]
    obs["tripped"] = src.tripped
    return obs


class CaseTimeout(Exception):
    pass


def _alarm(_sig, _frm):
    raise CaseTimeout("case did not finish within %d s" % CASE_TIMEOUT)


CASE_TIMEOUT = 4


def impl(c):
    al = _al()
    if c["entry"] == "reads":
        if "need" not in c:
            _attach([c])
        import signal
        old = signal.signal(signal.SIGALRM, _alarm)
        signal.setitimer(signal.ITIMER_REAL, CASE_TIMEOUT)
        try:
            return _run_reads(c)
        except CaseTimeout as e:
            return {"err": "OTHER:Timeout", "errmsg": str(e)}
        except Exception as e:
            return {"err": "build:" + err_kind(e), "errmsg": str(e)[:300]}
        finally:
            signal.setitimer(signal.ITIMER_REAL, 0)
            signal.signal(signal.SIGALRM, old)
    if c["entry"] == "take":
        src = Src(c["len"], trip=True)
        s = al.Stream(src)
        try:
            got = s.take(c["n"] if c["form"] == "int" else c["n"] + 0.25)
            return {"pulled": src.count, "got": len(got)}
        except Exception as e:
            return {"err": "OTHER:TripWire" if isinstance(e, TripWire) else err_kind(e), "pulled": src.count}
    if c["entry"] == "peek":
        src = Src(None, cap=5000)
        s = al.thub(src, 1) if c["hub"] else al.Stream(src)
        try:
            got = s.peek(c["n"])
            after_peek = src.count
            pulls = []
            itr = iter(s)
            for _ in range(c["k"]):
                next(itr)
                pulls.append(src.count)
            return {"after_peek": after_peek, "got": len(got), "pulls": pulls}
        except Exception as e:
            return {"err": err_kind(e)}
    raise ValueError(c["entry"])


def request(c):
    if c["entry"] == "reads":
        if c["mode"] == "drain":
            return {"entry": "reads", "chain": _model_chain(c), "n": c["n"], "k": c["k"]}
        n = c["need"] + (64 if c["mode"] == "endless" else (0 if c["mode"] == "trip" else c["slack"]))
        return {"entry": "reads", "chain": _model_chain(c), "n": n, "k": c["k"]}
    return {k: v for k, v in c.items() if k in ("entry", "n", "len", "k")}


def _diff(c, io, drv, which):
    """list of human readable disagreements between impl observation and drv[which]"""
    out = []
    if "err" in io:
        out.append("impl raised %s (%s) after %d outputs" % (io["err"], io.get("errmsg", ""), io.get("outs", 0)))
        return out
    if any(io["c0"]):
        out.append("construction pulled items: counts=%r (taps then aux)" % (io["c0"],))
    if any(io.get("c1", [])):
        out.append("iter() on the output pulled items: counts=%r" % (io["c1"],))
    drain = c["mode"] == "drain"
    if drain:
        # finite source consumed to its end: the model predicts every pull count and where the output ends;
        # the closed forms (spec) speak only about outputs the source is long enough for
        if which == "model" and io["outs"] != drv["outs"]:
            out.append("finite source of %d items: impl delivered %d outputs, model %d" % (c["n"], io["outs"], drv["outs"]))
    elif io.get("ended") or io["outs"] != c["k"]:
        out.append("only %d of %d outputs delivered" % (io["outs"], c["k"]))
    want = drv[which]
    if drain and which == "spec":
        want = [[v for v in want[0] if v <= c["n"]]]
    for i, (got, exp) in enumerate(zip(io["levels"], want)):
        if drain and which == "spec":
            got = got[:len(exp)]
        exp = exp[:len(got)]
        if got != exp:
            j = next(k for k in range(len(got)) if k >= len(exp) or got[k] != exp[k])
            out.append("stage %d (%s): pulls in front of it after next #%d: impl=%d %s=%s" % (
                i, c["chain"][i]["st"], j + 1, got[j], which, exp[j] if j < len(exp) else "none"))
    for (i, rule, got) in io["aux"]:
        if drain:
            break
        exp = want[i][:len(got)]
        if got != exp:
            j = next(k for k in range(len(got)) if k >= len(exp) or got[k] != exp[k])
            out.append("stage %d (%s): auxiliary source pulls after next #%d: impl=%d %s=%s" % (
                i, c["chain"][i]["st"], j + 1, got[j], which, exp[j] if j < len(exp) else "none"))
    if io.get("tripped"):
        out.append("trip-wire touched")
    return out


def compare(c, io, drv):
    out = []
    if c["entry"] == "reads":
        if drv["construct"] != 0 or drv["spec0"] != 0:
            out.append(("model", "model reads at construction"))
        for which in ("model", "spec"):
            for d in _diff(c, io, drv, which):
                out.append((which, d))
        return out
    if c["entry"] == "take":
        for which in ("model", "spec"):
            if "err" in io or io["pulled"] != drv[which] or io["got"] != drv[which]:
                out.append((which, "take(%s) on %d items: impl=%r %s=%r" % (c["n"], c["len"], io, which, drv[which])))
        return out
    for which in ("model", "spec"):
        if "err" in io or io["after_peek"] != c["n"] or io["pulls"] != drv[which]:
            out.append((which, "peek(%d) then next: impl=%r %s=%r" % (c["n"], io, which, drv[which])))
    return out


def nontrivial(c, io):
    if c["entry"] == "reads":
        return io.get("outs", 0) > 0
    return "err" not in io


def tally(eng, c, io):
    eng.count("entry", c["entry"])
    if c["entry"] != "reads":
        return
    eng.count("mode", c["mode"])
    eng.count("depth", len(c["chain"]))
    eng.count("k", c["k"] if c["k"] <= 12 else ">12")
    for el in c["chain"]:
        eng.count("stage", el["st"])
    for d in _model_chain(c):
        eng.count("model", d["m"])
    eng.count("aux_sources", len(io.get("aux", [])))
    if "err" in io:
        eng.count("impl_error", io["err"])
    if io.get("levels") and io["levels"][0]:
        last = io["levels"][0][-1]
        eng.count("source_vs_outputs", "pulls<k" if last < io["outs"] else ("pulls=k" if last == io["outs"] else "pulls>k"))


def _strip(c):
    d = {k: v for k, v in c.items() if k not in ("need", "cap")}
    d["chain"] = [dict(el) for el in c["chain"]]
    return d


_SHRINK_CALLS = [0]
SHRINK_BUDGET = 90     # shrink rounds per run (every round costs two driver calls)


def shrink(c):
    """Few, strongly smaller candidates per round: single stages first, then k, then parameters."""
    if c["entry"] != "reads":
        return
    _SHRINK_CALLS[0] += 1
    if _SHRINK_CALLS[0] > SHRINK_BUDGET:
        return
    cands = []
    ch = c["chain"]
    if len(ch) > 1:
        for i in range(len(ch)):
            if _well_kinded([ch[i]]):
                cands.append(dict(_strip(c), chain=[ch[i]]))
        for i in range(len(ch)):
            sub = ch[:i] + ch[i + 1:]
            if _well_kinded(sub):
                cands.append(dict(_strip(c), chain=sub))
    if c["mode"] == "drain":
        if c["n"] > 0:
            cands += [dict(_strip(c), n=v) for v in sorted({0, c["n"] // 2, c["n"] - 1})]
        cands = [x for x in cands if _drainable(x["chain"])]
    elif c["k"] > 1:
        cands += [dict(_strip(c), k=v) for v in sorted({1, c["k"] // 2, c["k"] - 1})]
    if c["mode"] not in ("finite", "drain"):
        cands.append(dict(_strip(c), mode="finite", slack=5))
    for i, el in enumerate(ch):
        for key, val in el["p"].items():
            if isinstance(val, int) and not isinstance(val, bool) and val > 1 and key not in ("order",):
                for v in sorted({1, val // 2, val - 1}):
                    nc = _strip(c)
                    nc["chain"][i] = {"st": el["st"], "p": dict(el["p"], **{key: v})}
                    if _well_kinded(nc["chain"]):
                        cands.append(nc)
            elif isinstance(val, list) and len(val) > 1 and key in ("pat", "filters", "terms"):
                nc = _strip(c)
                nc["chain"][i] = {"st": el["st"], "p": dict(el["p"], **{key: val[:len(val) // 2]})}
                cands.append(nc)
    try:
        _attach(cands)
    except Exception:
        return
    for x in cands:
        yield x


def neighbours(c):
    if c["entry"] != "reads":
        return
    cands = []
    if c["mode"] == "drain":
        for n in range(max(0, c["n"] - 2), c["n"] + 3):
            cands.append(dict(_strip(c), n=n))
    for k in range(0, min(c["k"] + 3, 16)):
        cands.append(dict(_strip(c), k=k, mode="finite", slack=3))
    for mode in MODES:
        cands.append(dict(_strip(c), mode=mode, slack=3, k=min(c["k"], 12)))
    for el in c["chain"]:
        if _well_kinded([el]):
            cands.append(dict(_strip(c), chain=[el], k=8, mode="finite", slack=3))
    _attach(cands)
    for x in cands:
        yield x


def classify(c, io, drv):
    """<blamed stage>:<what fails> - coarse on purpose: one signature per stage and failure kind."""
    if c["entry"] != "reads":
        return c["entry"] + ":" + ("err:" + io["err"] if "err" in io else "over-read")
    names = [el["st"] for el in c["chain"]]
    if "err" in io:
        return "%s:err:%s" % (names[0] if len(names) == 1 else "chain", io["err"])
    for vec in (io["c0"], io.get("c1", [])):
        if any(vec):
            i = next(k for k, v in enumerate(vec) if v)
            return "%s:reads-at-construction" % (names[i] if i < len(names) else names[vec_stage(io, i, len(names))])
    want = drv["spec"] if c["mode"] != "drain" else drv["model"]
    if c["mode"] == "drain" and io["outs"] != drv["outs"] and \
            all(g == e[:len(g)] or g[:len(e)] == e for g, e in zip(io["levels"], want)):
        return "%s:finite-source-output-count" % (names[0] if len(names) == 1 else "chain")
    for i in reversed(range(len(io["levels"]))):      # blame the most downstream stage that misbehaves
        got, exp = io["levels"][i], want[i]
        exp = exp[:len(got)]
        if got != exp:
            j = next(k for k in range(len(got)) if k >= len(exp) or got[k] != exp[k])
            if j >= len(exp):
                return "%s:extra-outputs" % names[i]
            return "%s:%s" % (names[i], "over-read" if got[j] > exp[j] else "under-read")
    for (i, rule, got) in io["aux"]:
        if got != want[i][:len(got)]:
            return "%s:aux-source" % names[i]
    return "%s:other" % names[0]


def vec_stage(io, i, nst):
    """index of the stage owning auxiliary source number i - nst"""
    k = i - nst
    return io["aux"][k][0] if 0 <= k < len(io["aux"]) else 0
