"""C02 — everything is lazy.

Tie: every public stage constructor of the registry below is built on a *counting* source.
Observed on the real code: items pulled at construction (must be 0) and after every `next()`
on the stage output, at the source AND at every boundary inside a chain (counting taps between
the stages) AND at every auxiliary source (coefficient streams, zip partners).  The Lean side
runs the generator protocol on the composed `Stage` model (`model`) and evaluates the closed
forms of the property (`spec`); the theorems of Props/C02 say these agree.

Source modes: `finite` (need(K)+slack items), `trip` (exactly need(K) items, then a trip-wire
that raises when touched), `endless`.  need(K) comes from the Lean spec (driver query made by
the generator), never from Python.

Auxiliary sources.  Every registry entry DECLARES its stream-valued arguments (`aux=`): name and
read rule.  The harness wraps each of them in its own counting source — again finite / trip-wire
/ endless, sized from the Lean spec (`aux_need`) — and compares its pull counter at construction
(0), after iter() (0) and after every next() with the Lean model (generator protocol on the
auxiliary-source view of the stage) and the Lean spec (closed form):
  lockstep  = pulls of the stage's main input   (operands, zip partners, coefficient / cut-off /
              frequency / phase / modulo / step streams: the stage is a stage over the pair source)
  lag1      = outputs of the stage - 1          (`resample` old/new streams: the step is read after
              the yield; two-source model `rsStepS`, theorems need_resample_step, resample_two_source)
  event     = outputs - ceil(delta - 1/2)       (data of every Streamix event)
  never     = 0 while the main source lasts     (streams appended after it: append / chain / Stream(a, b))
Stopping stages (`probe` entry).  `Stream.limit`, `Stream.skip`, `islice` with a stop, `takewhile` - alone and inside
chains of plain stages - are asked K times INCLUDING requests past their end (StopIteration): observed are reads at
construction, at iter(), and the pull counter at every tap after every request; the Lean side runs the protocol with
an exit test (`StopStage.probe`, Model/C02Stop.lean; theorems stop_truncates, asked_past_the_end, limit_probe, ...).
Count parameters travel in their Python SPELLING (int / float / Fraction / bool / inf / nan, ties and negatives
included); the rounding (`max(int(round(n)), 0)` half-to-even, `rint` half-away for take / peek, `int(dur + .5)` for
attack) is done by the Lean model.  Drained plain stages are asked twice more after their end as well.

Registry completeness (`extra_checks`): every public name of audiolazy.__all__, every strategy, every public method
of Stream / StreamTeeHub / Streamix / TableLookup is covered by a registry entry, probed as an elementwise function,
or excluded with a written reason; every parameter of the covered callables is classified (source / aux / scalar /
callable / container).  Call shapes (positional / keyword / all keywords / defaults omitted) and the kind of source
object (iterator / Stream / generator / non-iterator iterable) are case dimensions.

`ctl` cases replay a ControlStream history (value set before every next()) against the same stage
fed with plain streams holding, read by read, the values that read discipline makes visible: the
outputs must be identical, i.e. a change made between two next() reaches exactly the reads made
afterwards.
"""
import itertools as it
import json
import warnings
from fractions import Fraction as F

import common
from common import err_kind
import props.c02_tr as tr
import props.c02_hist as hist

ID = "C02"
RULE = ("every registry stage x >=3 parameter sets x 3 source modes (finite+slack, exact+trip-wire, endless), "
        "K=12 consecutive next() per case (so k=0..12 each), plus every stage with stream-valued arguments x "
        "3 kinds of auxiliary source (finite+slack, exact+trip-wire, endless) with a counter on each declared "
        "argument, plus random chains of compatible stages "
        "(depth<=3 quick, <=5 thorough; every fifth with an auxiliary-source stage at a random position) with "
        "counting taps at every boundary, plus ControlStream histories, plus take/peek consumers (spelled counts: int / float "
        "/ Fraction / bool / inf / nan, ties, negatives), plus stopping stages (limit / skip / islice-stop / takewhile, alone and "
        "in chains <=3 quick, <=4 thorough) x 3 source modes asked up to 14 times incl. past their end, plus call shapes "
        "(positional / keyword / defaults) and 4 kinds of head source object, drained stages asked twice past the end, plus 13 "
        "two-source constructors (map / zip / chain / zip_longest objects) over all source lengths 0..2 x 0..2 and random 0..9, "
        "asked up to 14 times with a counter on both sources; "
        "plus HISTORIES (`hist` entry, harness/props/c02_hist.py): 14 scenarios of stages that are handed a new source / asked for "
        "a new copy WHILE they are consumed (Streamix.add before, during and after playback with delta 0 / inside / beyond the samples "
        "taken, int / float / Fraction deltas, keep or not; Stream.append on a partially consumed stream; filters and maverage called "
        "again; Stream.copy / StreamTeeHub.copy / thub over a partially consumed stream; ControlStream assignments between reads), "
        "3-20 events, counting / raising (allowance from the Lean spec, raised before every event) / endless / empty sources, the pull "
        "counter of EVERY source recorded after EVERY event, plus the small universe add-after-a-outputs x delta x length x keep; "
        "plus, outside the cases, the source translator: regenerated Gen/C02Src.lean must equal the committed text and 13 "
        "edited source texts (swapped comparison, changed constant, reordered loops, dropped loop, eager list(), extra read) must "
        "each change the translation or fail to translate; "
        "a case is non-trivial when at least one output was demanded and delivered; distinct = distinct JSON case")
TRUSTED = [
    "hand-written Lean models ALV/Model/C02.lean of the READ DISCIPLINE of each stage (prologue / one read per loop "
    "iteration / epilogue); data paths are abstracted (values are Unit) - they belong to C04/C06/C08/C09/C16/C19",
    "Python generator protocol, itertools (tee, chain, islice, map, filter, zip, takewhile, dropwhile, accumulate, "
    "compress, cycle) and collections.deque are trusted; the tostream wrappers around them are measured",
    "documented look-ahead that is modelled exactly: resample reads rint((order+1)/2) items on the first demand and "
    "then one item per unit of interpolation position; a Streamix event is read once per output from the output at "
    "which it starts (ceil(delta - 1/2)); skip(n) reads n+1 items for the first output; blocks needs size items for "
    "the first block and hop per further block; overlap_add/stft release hop outputs per block; "
    "Stream.peek(n)/take(n) are consumers (they read n items when called, never n+1)",
    "filter `memory=` iterables are parameters, not sources: they are read when the filter is called (lm+1 items "
    "through takewhile); not covered by the property",
    "read rules of auxiliary (stream-valued) arguments as declared in the registry: lock-step with the main input "
    "(documented: `modulo_counter`/`sinusoid`/`TableLookup` zip their arguments, the generated filter loop does one "
    "next(coefficient) per input sample), `resample` step = outputs-1 (code: `idx += next(step)` after the yield), "
    "Streamix event = outputs - ceil(T - 1/2) for the absolute event time T; modulo_counter/sinusoid read the step "
    "value together with the start value (BEFORE the yield) - that is the library's documented zip discipline, so a "
    "ControlStream frequency change reaches the output after the next one",
    "stopping stages: the exit test is evaluated before a read (StopStage, Model/C02Stop.lean); chains with a stopping "
    "stage are built as `cap` (hand on at most c outputs) followed by the plain loop - justified by the truncation theorem "
    "stop_truncates; CPython's islice (reads `max(start, stop)` items when drained) and takewhile (reads the failing item) "
    "are modelled from their C source and trusted as such; the chain-level closed forms needOfXChain are compared on every "
    "case and proved equal to the protocol run for every valid chain (probe_chain_eq_spec, probe_chain_eq_spec_any_source)",
    "two counted sources behind one C-level object when one of them ENDS (`two` entry, Model/C02Two.lean): CPython's map / zip "
    "objects (next(a) then next(b), nothing remembered after a StopIteration: the first source is read again at every request "
    "past the end), itertools.chain and zip_longest are modelled from their C source; Stream binary operators on two streams, "
    "imap, izip, xzip, append, chain, chain.star, Stream(a, b), izip.longest are measured against them",
    "histories (`hist` entry, Model/C02Hist.lean): stage-level machines written from the code - the mixer as an abstraction of the "
    "generator of lazy_stream.py:689-733 with ABSOLUTE event times (sum of the deltas; the harness sends dyadic deltas so that the "
    "float `count` of the code is exact), `itertools.chain` nesting for append, `itertools.tee` for copy / StreamTeeHub (a copy starts "
    "where the branch it is taken from stands; every StreamTeeHub copy starts where the hub was made); that `_iters.pop()` / "
    "`_iters[0]` are untouched branches is read from the code, not proved; a failed `next` on an exhausted source is not a pull",
    "count spellings: Python's round (half to even) for limit / skip, audiolazy's rint (half away from zero) for take / peek, "
    "int(dur + .5) for attack are re-implemented on exact rationals in Lean (pyRound / rintPos / durLen); floats are sent as "
    "their exact rational value, inf / nan as tags with the predicted exception",
    "translator harness/props/c02_tr.py (ast -> lean/ALV/Gen/C02Src.lean, rewritten on every run; theorems src_*_is_model): "
    "it trusts (a) the Python subset semantics it assumes - a generator body made of `for _ in xrange(c): yield x` (no read), "
    "`for _ in xrange(c): try: next(src) except StopIteration: return`, `try: v = next(it) except StopIteration: return`, "
    "`for el in src: yield el` runs these loops in order, one source item per turn of a reading loop, and a method body "
    "`self._data = <wrap>(self._data); return self` replaces the data iterator by that wrap; straight-line `if c: return r` / "
    "`if c: n = e` / `return r` statements; (b) the vocabulary mapping - it.islice(data, stop) -> isliceStop (CPython's "
    "two-argument islice: exit test before a read), xrange(c) / islice stop accept ints only (Sink.accept), round / int / max / "
    "isinf / isinstance(., float) / `+` / `>` / `and` / conditional expression on int, bool, Fraction, finite float, inf, nan as "
    "re-implemented in ALV/Model/C02Src.lean (PE.eval; math.isinf of an int beyond float range is not modelled), audiolazy's "
    "rint as half-away-from-zero (its body is not translated); (c) the three phase-shape -> Stage templates of the translator "
    "(emit* pass emit*, drop pass, first emit* pass). The selftest runs the translator on 13 edited source texts on every run; "
    "the translated functions stay under the differential pull counting as well, so a translator that mis-reads a body shows "
    "there",
    "API completeness tables COVER / EXCLUDE / PARAMS in harness/props/c02.py are hand-written; the check enforces that they "
    "are total and current with respect to audiolazy.__all__, the strategy dictionaries and the public methods, and that "
    "parameter names match the signatures - not that a role (`scalar`) is right",
    "ControlStream histories compare the real code with itself (ControlStream arguments vs. plain streams scheduled "
    "from the Lean spec's read counters); outputs are compared by repr",
]
ASSUMPTIONS = [
    "count/trip/endless modes: sources are long enough for the K demanded outputs; the `drain` mode (finite source consumed "
    "to its end, pull counter at every output incl. the epilogue) is run only for stages whose end-of-source behaviour is "
    "not a defect owned by C03/C09/C19/C20 (D1, D6, D7, D11)",
    "auxiliary sources of `reads` / `ctl` cases are long enough for the K demanded outputs (finite: needed+slack, trip: exactly "
    "the needed items); in `drain` mode they are endless and not compared; a partner / tail source that ENDS is covered by the "
    "`two` entry for map / zip / chain / zip_longest objects only - coefficient streams ending inside a generated filter loop "
    "belong to C06/C19 (D13)",
    "resample step streams: exact non-negative rational values (old/new cyclic patterns), at most one time-varying "
    "resample per chain (its step list for the model is sized from the demand of the chain behind it, <= 1500 values)",
    "size>=1, hop>=1, hop<=size for overlap-add/STFT, resample order>=1 and old/new>0 (exact Fractions), Streamix delta>=0",
    "stopping stages: plain stages placed BEHIND a stopping stage come from DRAIN_OK (their end-of-source behaviour is "
    "modelled); resample with float old/new only for dyadic ratios (a float step like 3./7. accumulates rounding error and "
    "reads one item more after 7 steps - float arithmetic, outside the exact model)",
    "attack(a, d, s): a, d >= 0 numbers (int / float), s iterable; an EMPTY sustain is the known finding D22",
    "Stream.filter has no bound (the property gives none): its reads are compared with the position of the k-th passing item",
]
MANIFEST = {"technique": "Lean 4 proof (generic transducer theory, per-stage need theorems, stages with an exit test: "
                         "truncation / past-the-end / limit and takewhile closed forms, rounding of spelled counts) tied to "
                         "/repo (1) by a TRANSLATOR (harness/props/c02_tr.py: the bodies of Stream.limit / skip / take / peek, "
                         "zero_pad and attack are read with ast on every run and regenerated as Lean definitions - count "
                         "expressions and take's statements as interpreted program values, generator bodies as Stage literals "
                         "- which theorems src_*_is_model prove equal to the model functions the other theorems are about) "
                         "and (2) for every stage by differential pull counting with counting / trip-wire / endless sources, requests past the "
                         "end, and a registry proved complete against the public API at run time",
            "note": "68 stage constructors in the registry (incl. attack, chunks, groupby, pairwise, batched, starmap), 4 stopping "
                    "stages; 46 elementwise functions probed; 111 public names excluded with a written reason; D22 "
                    "(attack with an empty sustain raises RuntimeError) recorded as known finding with a proposed fix"}

warnings.simplefilter("ignore")


# ----------------------------------------------------------------------------------------------
# counting sources
# ----------------------------------------------------------------------------------------------
class TripWire(Exception):
    pass


class Src(object):
    """Counting source iterator.  n=None: endless.  trip: raise TripWire instead of ending."""

    def __init__(self, n=None, trip=False, vals="signed", salt=0, cap=None, seq=None):
        self.n, self.trip, self.vals, self.salt = n, trip, vals, salt
        self.seq = seq          # explicit value pattern (cycled), e.g. exact step values
        self.cap = cap          # endless sources: a stage draining them must not hang the check
        self.count = 0
        self.tripped = False

    def __iter__(self):
        return self

    def value(self, i):
        if self.seq is not None:
            return self.seq[i % len(self.seq)]
        h = (i * 7 + 3 + self.salt * 5) % 11
        if self.vals == "pos":
            return h + 1
        if self.vals == "block":
            return [h + 1, h, h + 2]
        return h - 5

    def __next__(self):
        if self.n is not None and self.count >= self.n:
            if self.trip:
                self.tripped = True
                raise TripWire("source read past item %d" % self.n)
            raise StopIteration
        if self.cap is not None and self.count >= self.cap:
            self.tripped = True
            raise TripWire("runaway: endless source drained (%d items read)" % self.count)
        v = self.value(self.count)
        self.count += 1
        return v

    next = __next__


class Tap(object):
    """Counting pass-through placed between two stages of a chain (lazy: no iter() before use)."""

    def __init__(self, inner, cap=None):
        self.inner = inner
        self.itr = None
        self.count = 0
        self.cap = cap

    def __iter__(self):
        return self

    def __next__(self):
        if self.itr is None:
            self.itr = iter(self.inner)
        if self.cap is not None and self.count >= self.cap:
            raise TripWire("runaway: %d items pulled at an inner boundary" % self.count)
        v = next(self.itr)
        self.count += 1
        return v

    next = __next__


class Once(object):
    """An iterable that is NOT an iterator (like a list): `iter()` hands out the counting source.  A stage that
    calls iter() on its input more than once (or len() / indexing) is told apart from one that does not."""

    def __init__(self, src):
        self.src = src
        self.iters = 0

    def __iter__(self):
        self.iters += 1
        return self.src


def wrap_source(kind, src):
    """the KIND of object handed to the head stage: the raw iterator, a Stream, a generator, a non-iterator iterable"""
    if kind == "stream":
        return _al().Stream(src)
    if kind == "gen":
        return (v for v in src)
    if kind == "iterable":
        return Once(src)
    return src


# head stages that take a non-iterator iterable as a CONTAINER (documented): tee() returns the object n times,
# resample / Streamix.add / operators cast with Stream() - all fine - but these iterate it more than once
NO_ITERABLE_WRAP = {"tee"}
WRAPS = ("raw", "raw", "stream", "gen", "iterable")


class Ctx(object):
    """Per-case build context: the counting sources of the DECLARED auxiliary arguments."""

    def __init__(self):
        self.aux = []          # (stage index, rule, name, source) in declaration order
        self.stage = 0
        self.cap = None
        self.pending = {}      # name -> source, for the stage being built
        self.maker = None      # callable(stage index, declaration, running index) -> source

    def declare(self, stage, decls):
        self.stage = stage
        if self.pending:
            raise common.InfraError("C02 registry: auxiliary sources %r declared but not used" % sorted(self.pending))
        for d in decls:
            src = self.maker(stage, d, len(self.aux))
            self.aux.append((stage, d["rule"], d["name"], src))
            self.pending[d["name"]] = src

    def get(self, name):
        """the counting source standing for the declared auxiliary argument `name`"""
        if name not in self.pending:
            raise common.InfraError("C02 registry: auxiliary source %r is not declared for this stage" % name)
        return self.pending.pop(name)


def _fr(x):
    return F(x) if isinstance(x, str) else x


# ----------------------------------------------------------------------------------------------
# numeric spelling of count parameters: the exact value and its Python type go to the Lean model,
# which does the rounding (`roundCount` / `takeCount` / `durLen` of Model/C02Stop.lean)
# ----------------------------------------------------------------------------------------------
def spell_count(rng, n, kinds=("int", "int", "float", "float", "frac", "bool")):
    """a Python spelling of (about) the count n: {"kind": int|float|frac|bool, "v": exact value}"""
    kind = rng.choice(kinds)
    if kind == "bool":
        return {"kind": "bool", "v": bool(n % 2)}
    if kind == "int":
        return {"kind": "int", "v": n if rng.random() < .9 else -rng.randint(1, 3)}
    # floats / Fractions around n: exact, ties (half to even!), just below / above a tie, negative
    off = rng.choice(["0", "0", "1/4", "-1/4", "1/2", "1/2", "-1/2", "3/8", "-3/8", "5/8"])
    q = F(n) + F(off)
    if rng.random() < .08:
        q = -q
    return {"kind": kind, "v": common.enc(q)}


def unspell(num):
    k = num["kind"]
    if k == "int":
        return int(num["v"])
    if k == "bool":
        return bool(num["v"])
    if k == "frac":
        return F(num["v"])
    if k == "float":
        return float(F(num["v"]))
    return float(k)          # "inf", "-inf", "nan"


def spell_tag(num):
    if num["kind"] in ("float", "frac"):
        q = F(num["v"])
        return "%s:%s" % (num["kind"], "neg" if q < 0 else "integral" if q.denominator == 1 else
                          "tie" if q.denominator == 2 else "other")
    if num["kind"] == "int":
        return "int:neg" if int(num["v"]) < 0 else "int"
    return num["kind"]


def _pat_pred(pat, invert=False):
    """Predicate following a fixed pass pattern by call number (True beyond its end)."""
    state = {"i": 0}

    def pred(_x):
        i = state["i"]
        state["i"] = i + 1
        r = bool(pat[i]) if i < len(pat) else True
        return (not r) if invert else r
    return pred


def _first_n_pred(n):
    state = {"i": 0}

    def pred(_x):
        state["i"] += 1
        return state["i"] <= n
    return pred


# ----------------------------------------------------------------------------------------------
# registry: name -> dict(kin, kout, gen(rng, cx) -> params, build(src, p, ctx) -> iterable,
#                        model(p) -> Lean stage descriptor)
# kinds: "s" samples (numbers), "b" blocks, "any"; kout "same" keeps the kind
# ----------------------------------------------------------------------------------------------
REG = {}


NOAUX = lambda p: []


def A(name, rule="lockstep", **kw):
    """declaration of one auxiliary source: parameter name, read rule, optional value pattern
    (`seq`), Streamix event time (`delta`), `ctl=False` when a control value cannot show in the output"""
    return dict(dict(name=name, rule=rule), **kw)


def reg(name, kin, kout, gen, build, model, head_only=False, aux=NOAUX):
    """aux(p) -> declarations of the auxiliary (stream-valued) arguments the builder wraps in
    counting sources; rule = expected pull count after each next():
      lockstep  the pull counter of the stage's main input        (0 at construction and at iter())
      lag1      outputs delivered by the stage - 1                 (resample step stream)
      event     outputs delivered - ceil(delta - 1/2), at least 0  (data of a Streamix event)
      never     0 while the main source lasts                      (a stream appended after it)"""
    REG[name] = dict(name=name, kin=kin, kout=kout, gen=gen, build=build, model=model, head_only=head_only, aux=aux)


def _al():
    import audiolazy
    return audiolazy


SAMPLE = lambda p: {"m": "sample"}
SCAN = lambda p: {"m": "scan"}
NOP = lambda rng, cx: {}

_BIN = {
    "add": lambda s, c: s + c, "sub": lambda s, c: s - c, "mul": lambda s, c: s * c,
    "radd": lambda s, c: c + s, "rsub": lambda s, c: c - s, "rmul": lambda s, c: c * s,
    "truediv": lambda s, c: s / c, "pow": lambda s, c: s ** 2, "lt": lambda s, c: s < c,
    "ge": lambda s, c: s >= c, "eq": lambda s, c: s == c, "ne": lambda s, c: s != c,
}
_UN = {"neg": lambda s: -s, "pos": lambda s: +s, "abs": lambda s: abs(s)}


def _install():
    al = _al()
    Stream, z, thub = al.Stream, al.z, al.thub
    ident = lambda x: x

    # --- Stream basics (kind agnostic) ---------------------------------------------------------
    reg("Stream", "any", "same", NOP, lambda s, p, c: Stream(s), SAMPLE)
    reg("Stream.map", "any", "same", NOP, lambda s, p, c: Stream(s).map(ident), SAMPLE)
    reg("imap", "any", "same", NOP, lambda s, p, c: al.imap(ident, s), SAMPLE)
    reg("Stream.__call__", "any", "same", NOP,
        lambda s, p, c: Stream(s).map(lambda v: (lambda: v))(), lambda p: {"m": "cascade", "n": 2})
    reg("takewhile", "any", "same", NOP, lambda s, p, c: al.takewhile(lambda v: True, s), SAMPLE)
    reg("cycle", "any", "same", NOP, lambda s, p, c: al.cycle(s), SAMPLE)
    reg("izip", "any", "same", NOP,
        lambda s, p, c: al.imap(lambda t: t[0], al.izip(s, c.get("partner"))), lambda p: {"m": "cascade", "n": 2},
        aux=lambda p: [A("partner", ctl=False)])
    reg("izip.longest", "any", "same", NOP,
        lambda s, p, c: al.imap(lambda t: t[1], al.izip.longest(c.get("partner"), s)), lambda p: {"m": "cascade", "n": 2},
        aux=lambda p: [A("partner", ctl=False)])

    def g_pat(rng, cx):
        n = rng.randint(0, 8)
        return {"pat": [rng.random() < 0.55 for _ in range(n)]}
    FILT = lambda p: {"m": "filt", "pat": p["pat"]}
    reg("Stream.filter", "any", "same", g_pat, lambda s, p, c: Stream(s).filter(_pat_pred(p["pat"])), FILT)
    reg("ifilter", "any", "same", g_pat, lambda s, p, c: al.ifilter(_pat_pred(p["pat"]), s), FILT)
    reg("ifilterfalse", "any", "same", g_pat,
        lambda s, p, c: al.ifilterfalse(_pat_pred(p["pat"], invert=True), s), FILT)
    reg("compress", "any", "same", g_pat,
        lambda s, p, c: al.compress(s, it.chain([int(b) for b in p["pat"]], it.repeat(1))), FILT)

    def via(s, p):
        """the object the method is called on: a Stream, or a StreamTeeHub (whose limit / skip / append /
        map / filter wrappers cast one of its copies to a Stream first)"""
        return thub(s, 1) if p.get("route") == "thub" else Stream(s)
    ROUTE = lambda rng: rng.choice(["stream", "stream", "thub"])

    def g_skip(rng, cx):
        n = rng.choice([0, 1, 2, 3, 5, rng.randint(0, 12)])
        return {"n": spell_count(rng, n), "route": ROUTE(rng)}
    def skip_num(p):
        """(older corpus cases: n is an int and "form" says how it was spelled)"""
        if isinstance(p["n"], dict):
            return p["n"]
        return {"kind": "int", "v": p["n"]} if p.get("form", "int") == "int" else {"kind": "float", "v": common.enc(F(p["n"]) + F(1, 4))}
    reg("Stream.skip", "any", "same", g_skip,
        lambda s, p, c: via(s, p).skip(unspell(skip_num(p))),
        lambda p: {"m": "skipn", "n": skip_num(p)})
    reg("dropwhile", "any", "same", lambda rng, cx: {"n": rng.randint(0, 6)},
        lambda s, p, c: al.dropwhile(_first_n_pred(p["n"]), s), lambda p: {"m": "skip", "n": p["n"]})
    # (a limit that is never reached: the stopping behaviour of limit is the `probe` entry below)
    reg("Stream.limit", "any", "same", lambda rng, cx: {"extra": rng.randint(0, 5), "route": ROUTE(rng)},
        lambda s, p, c: via(s, p).limit(10 ** 5 + p["extra"]), SAMPLE)
    reg("pairwise", "any", "c", NOP, lambda s, p, c: al.pairwise(s), lambda p: {"m": "skip", "n": 1})
    reg("starmap", "any", "same", NOP,
        lambda s, p, c: al.starmap(lambda v: v, al.imap(lambda v: (v,), s)), lambda p: {"m": "cascade", "n": 2})
    reg("batched", "any", "c", lambda rng, cx: {"n": rng.randint(1, 5)},
        lambda s, p, c: al.batched(s, p["n"]), lambda p: {"m": "blocks", "size": p["n"], "hop": p["n"]})

    def b_groupby(s, p, c):
        # the key changes exactly where the pattern says so (a new group starts at a passing item)
        state = {"i": 0, "key": 0}

        def key(_v):
            i = state["i"]
            state["i"] = i + 1
            if i == 0 or (p["pat"][i] if i < len(p["pat"]) else True):
                state["key"] += 1
            return state["key"]
        return al.groupby(s, key)
    reg("groupby", "any", "c", g_pat, b_groupby,
        lambda p: {"m": "filt", "pat": [True] + list(p["pat"][1:])})

    def g_items(rng, cx):
        return {"n": rng.randint(0, 6)}

    def items(p, c):
        return [[1] * (c.bsize or 3)] * p["n"] if c.kind == "b" else list(range(1, p["n"] + 1))
    PRE = lambda p: {"m": "pad", "pre": p["n"], "post": 0}
    POST = lambda p: {"m": "pad", "pre": 0, "post": p["n"]}
    reg("Stream.append", "any", "same", g_items, lambda s, p, c: Stream(s).append(items(p, c)), POST)
    reg("prepend", "any", "same", g_items, lambda s, p, c: Stream(items(p, c)).append(s), PRE)
    reg("chain", "any", "same", g_items, lambda s, p, c: al.chain(items(p, c), s), PRE)
    reg("chain.star", "any", "same", g_items,
        lambda s, p, c: al.chain.from_iterable(iter([items(p, c), s])), PRE)
    reg("Stream(a,b)", "any", "same", g_items, lambda s, p, c: Stream(items(p, c), s), PRE)

    # a STREAM appended after the main source: must not be touched while the main source lasts
    def b_tail(s, p, c):
        t = c.get("tail")
        t = {"src": t, "stream": Stream(t), "gen": (v for v in t)}[p["other"]]
        return {"append": lambda: Stream(s).append(t), "chain": lambda: al.chain(s, t),
                "Stream": lambda: Stream(s, t), "star": lambda: al.chain.from_iterable(iter([s, t]))}[p["how"]]()
    reg("append.stream", "any", "same",
        lambda rng, cx: {"how": rng.choice(["append", "chain", "Stream", "star"]), "other": rng.choice(["src", "stream", "gen"])},
        b_tail, SAMPLE, aux=lambda p: [A("tail", "never", ctl=False)])
    reg("imap2", "any", "same", NOP, lambda s, p, c: al.imap(lambda a, b: a, s, c.get("partner")), SAMPLE,
        aux=lambda p: [A("partner", ctl=False)])

    def b_copy(s, p, c):
        st = Stream(s)
        cp = st.copy()
        if p["use"] == "copy":
            return cp
        if p["use"] == "orig":
            return st
        return al.imap(lambda t: t[0], al.izip(st, cp))
    reg("Stream.copy", "any", "same", lambda rng, cx: {"use": rng.choice(["copy", "orig", "both"])}, b_copy,
        lambda p: {"m": "sample"} if p["use"] != "both" else {"m": "par", "n": 2})

    def b_tee(s, p, c):
        ts = al.tee(s if p["raw"] else Stream(s), p["n"])
        if p["use"] == "one":
            return ts[p["n"] - 1]
        return al.imap(lambda t: t[0], al.izip(*ts))
    reg("tee", "any", "same",
        lambda rng, cx: {"n": rng.randint(1, 4), "use": rng.choice(["one", "all"]), "raw": rng.random() < .5},
        b_tee, lambda p: {"m": "sample"} if p["use"] == "one" else {"m": "par", "n": p["n"]})

    def g_islice(rng, cx):
        return {"start": rng.randint(0, 5), "step": rng.randint(1, 4)}
    reg("islice", "any", "same", g_islice, lambda s, p, c: al.islice(s, p["start"], None, p["step"]),
        lambda p: {"m": "islice", "start": p["start"], "step": p["step"]})

    # --- operators (samples) ----------------------------------------------------------------------
    def g_bin(rng, cx):
        return {"op": rng.choice(sorted(_BIN)), "c": rng.choice([1, 2, 3, -2, "1/2", 0.5])}
    reg("op.scalar", "s", "s", g_bin, lambda s, p, c: _BIN[p["op"]](Stream(s), _fr(p["c"])), SAMPLE)
    reg("op.unary", "s", "s", lambda rng, cx: {"op": rng.choice(sorted(_UN))},
        lambda s, p, c: _UN[p["op"]](Stream(s)), SAMPLE)

    def b_biniter(s, p, c):
        a = c.get("other")
        other = {"src": a, "stream": Stream(a), "gen": (v for v in a)}[p["other"]]
        return _BIN[p["op"]](Stream(s), other)
    reg("op.iter", "s", "s",
        lambda rng, cx: {"op": rng.choice(["add", "sub", "mul", "radd", "rsub", "rmul", "lt", "truediv"]),
                         "other": rng.choice(["src", "stream", "gen"])},
        b_biniter, SCAN, aux=lambda p: [A("other")])
    reg("Stream.real", "s", "s", NOP, lambda s, p, c: Stream(s).real, SAMPLE)

    def b_thub(s, p, c):
        x = thub(s, p["n"])
        acc = None
        for i in range(p["n"]):
            term = x * (i + 1) if i % 2 == 0 else (i + 1) - x
            acc = term if acc is None else acc + term
        return acc
    reg("thub", "s", "s", lambda rng, cx: {"n": rng.randint(1, 4)}, b_thub, lambda p: {"m": "par", "n": p["n"]})

    def b_poly(s, p, c):
        x = al.x
        poly = sum(_fr(cf) * x ** pw for pw, cf in p["terms"])
        return poly(Stream(s), horner=p["horner"])
    reg("Poly.__call__", "s", "s",
        lambda rng, cx: {"terms": [[pw, rng.choice([1, 2, -1, "1/2"])] for pw in sorted(rng.sample(range(0, 6), rng.randint(1, 4)))],
                         "horner": rng.choice(["auto", True, False])},
        b_poly, lambda p: {"m": "par", "n": len(p["terms"])})
    reg("gammatone", "s", "s", lambda rng, cx: {"kind": rng.choice(["sampled", "slaney", "klapuri"])},
        lambda s, p, c: al.gammatone[p["kind"]](.3, .1)(s), lambda p: {"m": "cascade", "n": 4})
    reg("elementwise", "s", "s", lambda rng, cx: {"f": rng.choice(["sin", "cos", "exp", "sqrt", "dB20", "log2", "sign", "midi2freq", "absolute"])},
        lambda s, p, c: getattr(al, p["f"])(Stream(s)), SAMPLE, head_only=True)

    # --- filters -------------------------------------------------------------------------------------
    def g_coefs(rng, cx, maxb=4, maxa=3):
        num = lambda: rng.choice([0, 1, -1, 2, "1/2", "-3/4", 0.5, 3])
        b = [num() for _ in range(rng.randint(1, maxb))]
        a = [rng.choice([1, 1, -1, 2, "1/2"])] + [num() for _ in range(rng.randint(0, maxa - 1))]
        if rng.random() < 0.1:
            b = [0] * len(b)
        return {"b": b, "a": a, "mem": rng.choice([None, None, "list", "short"]), "zero": rng.choice([0, 0.0])}

    def mk_filter(p):
        return al.ZFilter([_fr(v) for v in p["b"]], [_fr(v) for v in p["a"]])

    def b_lti(s, p, c):
        f = mk_filter(p)
        lm = len(p["a"]) - 1
        mem = None if p["mem"] is None else ([1] * lm if p["mem"] == "list" else [1] * max(lm - 1, 0))
        return f(s, memory=mem, zero=p["zero"])
    reg("ZFilter.__call__", "s", "s", g_coefs, b_lti, SCAN)

    TV_COEFS = {"b0": ["b0"], "b1": ["b1"], "a1": ["a1"], "a0": ["a0"], "a0a1": ["a0", "a2"],
                "b0b2a1": ["b0", "b2", "a1"], "gain": ["g"]}

    def b_tv(s, p, c):
        where = p["where"]
        cf = lambda name: Stream(c.get(name))
        if where == "b0":
            f = cf("b0") + z ** -1
        elif where == "b1":
            f = 1 + cf("b1") * z ** -1
        elif where == "a1":
            f = 1 / (1 + cf("a1") * z ** -1)
        elif where == "a0":          # variable output gain branch
            f = (1 + z ** -1) / (cf("a0") + F(1, 2) * z ** -1)
        elif where == "a0a1":
            f = 1 / (cf("a0") + cf("a2") * z ** -2)
        elif where == "gain":        # a gain stream multiplying a whole LTI filter
            f = (1 + F(1, 2) * z ** -1) * thub(c.get("g"), 2)
        else:
            f = (cf("b0") + cf("b2") * z ** -2) / (1 - cf("a1") * z ** -1)
        return f(s, zero=0)
    reg("ZFilter.timevarying", "s", "s",
        lambda rng, cx: {"where": rng.choice(sorted(TV_COEFS))}, b_tv, SCAN,
        aux=lambda p: [A(n) for n in TV_COEFS[p["where"]]])

    def b_design(s, p, c):
        k = p["kind"]
        tv = p["tv"]
        if k.startswith("lowpass") or k.startswith("highpass"):
            fam, strat = k.split(".")
            f = getattr(al, fam)[strat]((Stream(c.get("cutoff")) * .1) if tv else .3)
        elif k.startswith("resonator"):
            f = al.resonator[k.split(".")[1]]((Stream(c.get("freq")) * .1) if tv else .3,
                                              (Stream(c.get("bandwidth")) * .02) if p.get("bw") else .1)
        elif k == "comb.fb":
            f = al.comb.fb(3, (Stream(c.get("alpha")) * .1) if tv else .5)
        elif k == "comb.tau":
            f = al.comb.tau(3, (Stream(c.get("tau")) * 10) if tv else 20)
        else:
            f = al.comb.ff(2, (Stream(c.get("alpha")) * .1) if tv else .5)
        return f(s)
    DESIGNS = ["lowpass.pole", "lowpass.z", "lowpass.pole_exp", "lowpass.z_exp", "highpass.pole", "highpass.z",
               "highpass.pole_exp", "highpass.z_exp", "resonator.poles_exp", "resonator.freq_poles_exp",
               "resonator.z_exp", "resonator.freq_z_exp", "comb.fb", "comb.tau", "comb.ff"]

    def a_design(p):
        k = p["kind"]
        out = []
        if p["tv"]:
            out.append(A("cutoff" if k.startswith(("lowpass", "highpass")) else
                         "freq" if k.startswith("resonator") else "tau" if k == "comb.tau" else "alpha"))
        if p.get("bw") and k.startswith("resonator"):
            out.append(A("bandwidth"))
        return out
    reg("filter.design", "s", "s",
        lambda rng, cx: {"kind": rng.choice(DESIGNS), "tv": rng.random() < .5, "bw": rng.random() < .3},
        b_design, SCAN, aux=a_design)

    def g_flist(rng, cx):
        n = rng.choice([0, 1, 2, 2, 3])
        return {"filters": [dict(g_coefs(rng, cx, 3, 2), nl=rng.random() < .2) for _ in range(n)]}

    def mk_flist(p):
        return [(al.maverage.deque(2) if q.get("nl") else mk_filter(q)) for q in p["filters"]]
    reg("CascadeFilter", "s", "s", g_flist, lambda s, p, c: al.CascadeFilter(*mk_flist(p))(s),
        lambda p: {"m": "cascade", "n": len(p["filters"])})
    reg("ParallelFilter", "s", "s", g_flist, lambda s, p, c: al.ParallelFilter(*mk_flist(p))(s),
        lambda p: {"m": "par", "n": len(p["filters"])})
    reg("accumulate.z", "s", "s", NOP, lambda s, p, c: al.accumulate.z(s), SCAN)
    reg("accumulate.itertools", "s", "s", NOP, lambda s, p, c: al.accumulate(s), SCAN)
    reg("accumulate.func", "s", "s", NOP, lambda s, p, c: al.accumulate.func(s), lambda p: {"m": "first"})

    # --- analysis --------------------------------------------------------------------------------------
    g_size = lambda rng, cx: {"size": rng.randint(1, 6)}
    for strat in ("deque", "recursive", "fir"):
        reg("maverage." + strat, "s", "s", g_size,
            (lambda st: lambda s, p, c: al.maverage[st](p["size"])(s))(strat), SCAN)
    for strat, nst in (("rms", 3), ("abs", 2), ("squared", 2)):
        # rms ends with `** .5`, which may yield complex numbers: only kind-agnostic stages may follow
        reg("envelope." + strat, "s", "c" if strat == "rms" else "s", NOP,
            (lambda st: lambda s, p, c: al.envelope[st](s, cutoff=.2))(strat),
            (lambda n: lambda p: {"m": "cascade", "n": n})(nst))
    reg("amdf", "s", "s", lambda rng, cx: {"lag": rng.choice([1, 2, 3, 1.5]), "size": rng.randint(1, 4)},
        lambda s, p, c: al.amdf(p["lag"], p["size"])(s), lambda p: {"m": "cascade", "n": 3})
    # call SHAPES: positional / keyword / the source by keyword too / parameters omitted (their documented defaults)
    SHAPES = ["pos", "kw", "allkw", "default"]

    def b_clip(s, p, c):
        sh = p.get("shape", "pos")
        if sh == "default":
            return al.clip(s)                                   # low=-1., high=1.
        if sh == "kw":
            return al.clip(s, low=p["low"], high=p["high"])
        if sh == "allkw":
            return al.clip(high=p["high"], sig=s, low=p["low"])
        return al.clip(s, p["low"], p["high"])
    reg("clip", "s", "s", lambda rng, cx: {"low": rng.choice([None, -2, -1]), "high": rng.choice([None, 1, 3]),
                                           "shape": rng.choice(SHAPES)}, b_clip, SAMPLE)

    def b_zcross(s, p, c):
        sh = p.get("shape", "kw")
        if sh == "default":
            return al.zcross(s)                                 # hysteresis=0, first_sign=0
        if sh == "pos":
            return al.zcross(s, p["hyst"], p["first"])
        if sh == "allkw":
            return al.zcross(first_sign=p["first"], seq=s, hysteresis=p["hyst"])
        return al.zcross(s, hysteresis=p["hyst"], first_sign=p["first"])
    reg("zcross", "s", "s",
        lambda rng, cx: {"hyst": rng.choice([0, 1, 2, 20]), "first": rng.choice([0, 0, 1, -1]), "shape": rng.choice(SHAPES)},
        b_zcross, lambda p: {"m": "zcross", "known": p["first"] != 0 and p.get("shape") != "default"})

    def b_unwrap(s, p, c):
        sh = p.get("shape", "default")
        if sh == "pos":
            return al.unwrap(s, al.pi, 2 * al.pi)
        if sh == "kw":
            return al.unwrap(s, max_delta=al.pi, step=2 * al.pi)
        if sh == "allkw":
            return al.unwrap(step=2 * al.pi, sig=s, max_delta=al.pi)
        return al.unwrap(s)
    reg("unwrap", "s", "s", lambda rng, cx: {"shape": rng.choice(SHAPES)}, b_unwrap, lambda p: {"m": "first"})

    # --- synth with stream arguments ---------------------------------------------------------------------
    MODC_ARGS = {"start": ("modulo", "step"), "modulo": ("start", "step"), "step": ("start", "modulo")}

    def b_modc(s, p, c):
        w = p["which"]
        n1, n2 = MODC_ARGS[w]
        mod_of = lambda src: Stream(src).map(lambda v: abs(v) + 2)
        arg = {w: mod_of(s) if w == "modulo" else s}
        for flag, name in ((p["a1"], n1), (p["a2"], n2)):
            if flag:
                arg[name] = mod_of(c.get(name)) if name == "modulo" else c.get(name)
            else:
                arg[name] = {"start": 0, "modulo": 7, "step": p["step"]}[name]
        return al.modulo_counter(arg["start"], arg["modulo"], arg["step"])
    reg("modulo_counter", "s", "s",
        lambda rng, cx: {"which": rng.choice(["start", "modulo", "step"]), "a1": rng.random() < .4,
                         "a2": rng.random() < .4, "step": rng.choice([0, 1, 2, 5, 9])},
        b_modc, lambda p: {"m": "scan"} if p["which"] != "modulo" else {"m": "cascade", "n": 2},
        aux=lambda p: [A(n) for f, n in zip((p["a1"], p["a2"]), MODC_ARGS[p["which"]]) if f])

    def b_sin(s, p, c):
        if p.get("main") == "phase":      # the counted main source is the phase, the frequency is auxiliary
            return al.sinusoid(Stream(c.get("freq")) * .1, phase=Stream(s) * .1)
        return al.sinusoid(Stream(s) * .1, phase=(Stream(c.get("phase")) * .1) if p["phase"] else 0.)
    reg("sinusoid", "s", "s",
        lambda rng, cx: {"phase": rng.random() < .4, "main": rng.choice(["freq", "freq", "phase"])},
        b_sin, lambda p: {"m": "cascade", "n": 3},
        aux=lambda p: [A("freq")] if p.get("main") == "phase" else ([A("phase")] if p["phase"] else []))
    TABLES = {"sin": lambda: al.sin_table, "saw": lambda: al.saw_table, "own": lambda: al.TableLookup([0., 1., 0., -1.], cycles=1),
              "harm": lambda: al.sin_table.harmonize({1: 1., 2: .5}).normalize()}
    reg("TableLookup.__call__", "s", "s", lambda rng, cx: {"phase": rng.random() < .5, "table": rng.choice(sorted(TABLES))},
        lambda s, p, c: TABLES[p.get("table", "sin")]()(Stream(s) * .01, phase=(Stream(c.get("phase")) * .1) if p.get("phase") else 0.),
        lambda p: {"m": "cascade", "n": 4}, aux=lambda p: [A("phase")] if p.get("phase") else [])

    # --- envelopes with an iterable argument -------------------------------------------------------------
    def g_attack(rng, cx):
        dur = lambda: rng.choice([{"kind": "int", "v": rng.randint(0, 4)},
                                  {"kind": "float", "v": common.enc(F(rng.randint(0, 9), 2))},
                                  {"kind": "float", "v": common.enc(F(rng.randint(0, 30), 8))}])
        return {"a": dur(), "d": dur(), "sus": rng.choice(["src", "stream", "thub", "gen"])}

    def b_attack(s, p, c):
        sus = {"src": lambda: s, "stream": lambda: Stream(s), "thub": lambda: thub(s, 1),
               "gen": lambda: (v for v in s)}[p["sus"]]()
        return al.attack(unspell(p["a"]), unspell(p["d"]), sus)
    reg("attack", "s", "s", g_attack, b_attack, lambda p: {"m": "attack", "a": p["a"], "d": p["d"]})

    for strat in ("struct", "array"):
        reg("chunks." + strat, "s", "c", lambda rng, cx: {"size": rng.randint(1, 6)},
            (lambda st: lambda s, p, c: al.chunks[st](s, size=p["size"], dfmt="f"))(strat),
            lambda p: {"m": "blocks", "size": p["size"], "hop": p["size"]})

    # --- blocks / overlap-add / stft --------------------------------------------------------------------
    def g_blocks(rng, cx):
        size = rng.choice([1, 2, 3, 4, rng.randint(1, 9)])
        hop = rng.choice([None, 1, size, size + 1, max(1, size - 1), rng.randint(1, 12)])
        return {"size": size, "hop": hop, "route": rng.choice(["func", "method", "method_kw"])}

    def b_blocks(s, p, c):
        if p["route"] == "func":
            return al.blocks(s, p["size"], p["hop"])
        if p["route"] == "method":
            return Stream(s).blocks(p["size"], p["hop"])
        return Stream(s).blocks(size=p["size"], hop=p["hop"], padval=0)
    reg("blocks", "s", "b", g_blocks, b_blocks,
        lambda p: {"m": "blocks", "size": p["size"], "hop": p["hop"] or p["size"]})
    def g_zpad(rng, cx):
        sp = lambda n: rng.choice([n, n, bool(n % 2)])            # range() takes ints and bools only
        shape = rng.choice(SHAPES if cx.get("kind") != "b" else SHAPES[:3])
        if shape == "default":
            return {"left": 0, "right": 0, "shape": shape}
        return {"left": sp(rng.randint(0, 6)), "right": sp(rng.randint(0, 3)), "shape": shape}

    def b_zpad(s, p, c):
        zero = [0] * (c.bsize or 3) if c.kind == "b" else 0
        sh = p.get("shape", "kw")
        if sh == "default" and c.kind != "b":
            return al.zero_pad(s)                                 # left=0, right=0, zero=0.
        if sh == "pos":
            return al.zero_pad(s, p["left"], p["right"], zero)
        if sh == "allkw":
            return al.zero_pad(zero=zero, right=p["right"], seq=s, left=p["left"])
        return al.zero_pad(s, left=p["left"], right=p["right"], zero=zero)
    reg("zero_pad", "any", "same", g_zpad, b_zpad,
        lambda p: {"m": "pad", "pre": int(p["left"]), "post": int(p["right"])})

    def g_ola(rng, cx):
        size = cx.get("bsize") or 3
        hop = rng.choice([None, size, rng.randint(1, size), 1])
        return {"size": size, "hop": hop, "detect": rng.random() < .4, "wnd": rng.choice([None, None, "list", "call"]),
                "norm": rng.random() < .7}

    def b_ola(s, p, c):
        size = p["size"]
        wnd = None if p["wnd"] is None else ([1.] * size if p["wnd"] == "list" else (lambda n: [.5] * n))
        return al.overlap_add.list(s, size=None if p["detect"] else size, hop=p["hop"], wnd=wnd, normalize=p["norm"])
    reg("overlap_add.list", "b", "s", g_ola, b_ola,
        lambda p: {"m": "ola", "size": p["size"], "hop": p["hop"] or p["size"]})

    def g_stft(rng, cx):
        size = rng.randint(1, 8)
        hop = rng.choice([None, size, rng.randint(1, size), 1])
        return {"size": size, "hop": hop, "ola": rng.random() < .7, "wnd": rng.choice([None, "list", "call"]),
                "deco": rng.random() < .5}

    def b_stft(s, p, c):
        size = p["size"]
        kw = dict(size=size, transform=None, inverse_transform=None, before=None, after=None)
        if p["hop"] is not None:
            kw["hop"] = p["hop"]
        if p["wnd"] is not None:
            kw["wnd"] = [1.] * size if p["wnd"] == "list" else (lambda n: [.5] * n)
        kw["ola"] = al.overlap_add.list if p["ola"] else None
        func = (lambda blk: list(blk))
        if p["deco"]:
            return al.stft(**kw)(func)(s)
        return al.stft(func, **kw)(s)
    reg("stft", "s", "stft", g_stft, b_stft,
        lambda p: {"m": "stft", "size": p["size"], "hop": p["hop"] or p["size"], "ola": p["ola"]})

    # --- resample / Streamix ---------------------------------------------------------------------------
    def g_rs(rng, cx):
        old, new = rng.choice([(1, 2), (2, 1), (1, 1), (3, 2), (2, 3), (5, 2), (1, 4), (7, 3), (3, 7),
                               (rng.randint(1, 9), rng.randint(1, 9))])
        shape = rng.choice(["kw", "kw", "pos", "default-order", "default-all"])
        if shape == "default-all":
            return {"old": 1, "new": 1, "order": 3, "shape": shape, "num": "int"}
        # floats only where old/new is a dyadic rational: the float step and its running sums are exact then
        # (3./7. accumulates to 3.0000000000000004 after 7 steps and reads one item more: float arithmetic, not laziness)
        nums = ["frac", "frac", "int", "float"] if new in (1, 2, 4, 8) else ["frac"]
        return {"old": old, "new": new, "order": 3 if shape == "default-order" else rng.randint(1, 6), "shape": shape,
                "num": rng.choice(nums)}

    def b_rs(s, p, c):
        num = {"frac": F, "int": int, "float": float}[p.get("num", "frac")]      # ints / small floats are exact too
        old, new = num(p["old"]), num(p["new"])
        sh = p.get("shape", "kw")
        if sh == "default-all":
            return al.resample(s)                                 # old=1, new=1, order=3, zero=0.
        if sh == "default-order":
            return al.resample(s, old, new)                       # order=3
        if sh == "pos":
            return al.resample(s, old, new, p["order"], 0)
        return al.resample(s, old=old, new=new, order=p["order"], zero=0)
    reg("resample", "s", "s", g_rs, b_rs,
        lambda p: {"m": "resample", "order": p["order"], "step": str(F(p["old"], p["new"]))})

    # time-varying step: old and/or new are Streams over counting sources with exact values
    STEP_POOL = ["1/4", "1/3", "1/2", "2/3", "3/4", 1, 1, "5/4", "3/2", 2, "5/2", 3, "7/3", 4]

    def g_rstv(rng, cx):
        which = rng.choice(["old", "new", "both"])
        seq = lambda: [rng.choice(STEP_POOL) for _ in range(rng.choice([1, 2, 3, 3, 5]))]
        const = lambda: rng.choice([1, 1, 2, 3, "1/2"])
        old = seq() if which in ("old", "both") else const()
        new = seq() if which in ("new", "both") else const()
        if which == "old" and rng.random() < .15:
            old[rng.randrange(len(old))] = 0          # a step of 0 repeats the output, reads nothing
        return {"old": old, "new": new, "order": rng.randint(1, 6), "form": rng.choice(["stream", "gen"])}

    def rstv_steps(p, n):
        o, w = p["old"], p["new"]
        at = lambda v, i: F(v[i % len(v)]) if isinstance(v, list) else F(v)
        return [at(o, i) / at(w, i) for i in range(n)]

    def b_rstv(s, p, c):
        def arg(name):
            v = p[name]
            if not isinstance(v, list):
                return F(v)
            src = c.get(name)
            return Stream(src) if p.get("form") != "gen" else Stream(x for x in src)
        return al.resample(s, old=arg("old"), new=arg("new"), order=p["order"], zero=0)
    reg("resample.tv", "s", "s", g_rstv, b_rstv,
        lambda p: {"m": "resampleTV", "order": p["order"],
                   "steps": [common.enc(v) for v in rstv_steps(p, p.get("nsteps", 16))]},
        aux=lambda p: [A(n, "lag1", seq=p[n]) for n in ("old", "new") if isinstance(p[n], list)])

    def g_smix(rng, cx):
        d = rng.choice([0, 1, 2, 3, "1/2", "5/2", "3/2", "7/4", "9/4", 0.5, 2.5, 4.49, rng.randint(0, 9)])
        ev = [rng.choice([0, 1, 2, "1/2", "3/2", "5/2", "1/4", 3]) for _ in range(rng.choice([0, 0, 1, 1, 2]))]
        return {"delta": d if not isinstance(d, float) else str(F(d)), "float": isinstance(d, float),
                "bg": rng.random() < .5, "keep": rng.random() < .3, "ev": ev, "evpos": rng.choice(["after", "before"])}

    def smix_events(p):
        """[(name or None for the main source, relative delta)] in the order they are added"""
        ev = [("event%d" % (i + 1), _fr(d)) for i, d in enumerate(p.get("ev", []))]
        main = (None, _fr(p["delta"]))
        return ev + [main] if p.get("evpos") == "before" and ev else [main] + ev

    def smix_abs(p):
        t, out = F(0), {}
        for name, d in smix_events(p):
            t += F(d)
            out[name] = t
        return out

    def b_smix(s, p, c):
        m = al.Streamix(keep=p["keep"], zero=0)
        if p["bg"]:
            m.add(0, it.repeat(0))
        for name, d in smix_events(p):
            if p["float"]:
                d = float(d)
            m.add(d, s if name is None else c.get(name))
        return m
    reg("Streamix", "s", "s", g_smix, b_smix,
        lambda p: {"m": "smix", "delta": common.enc(smix_abs(p)[None])},
        aux=lambda p: [A(n, "event", delta=common.enc(t)) for n, t in sorted(smix_abs(p).items(), key=lambda kv: str(kv[0]))
                       if n is not None])



# ----------------------------------------------------------------------------------------------
# completeness of the registry with respect to the PUBLIC API (extra_checks)
#
# Every public name of `audiolazy.__all__`, every strategy of every public StrategyDict, every
# public method of Stream / StreamTeeHub / Streamix / TableLookup and the `__call__` of the filter
# and polynomial classes must be
#   * exercised by a registry entry (COVER: api name -> entries that build it on counting sources), or
#   * an elementwise function (probed here, ALL of them: 0 reads at construction, k reads for k outputs), or
#   * excluded with a reason (EXCLUDE).
# A name in none of the three fails the check; so does a covered callable whose signature has a
# parameter that the table PARAMS does not classify (source / aux = a counting source stands for it;
# scalar / callable / container = why no counting source can).
# ----------------------------------------------------------------------------------------------
COVER = {
    "Stream": ["Stream", "Stream(a,b)", "append.stream"], "Stream.map": ["Stream.map"], "Stream.filter": ["Stream.filter"],
    "Stream.skip": ["Stream.skip", "x:Stream.skip"], "Stream.limit": ["Stream.limit", "x:Stream.limit"],
    "Stream.append": ["Stream.append", "prepend", "append.stream"], "Stream.blocks": ["blocks"],
    "Stream.copy": ["Stream.copy"], "Stream.take": ["entry:take"], "Stream.peek": ["entry:take", "entry:peek"],
    "Stream.__call__": ["Stream.__call__"], "Stream.__getattr__": ["Stream.real"], "Stream.__iter__": ["Stream"],
    "Stream.__abs__": ["op.unary"], "Stream.<operators>": ["op.scalar", "op.unary", "op.iter"],
    "StreamTeeHub": ["thub"], "thub": ["thub", "Poly.__call__", "ZFilter.timevarying"],
    "StreamTeeHub.skip": ["Stream.skip", "x:Stream.skip"], "StreamTeeHub.limit": ["Stream.limit", "x:Stream.limit"],
    "StreamTeeHub.append": ["Stream.append"], "StreamTeeHub.map": ["Stream.map"], "StreamTeeHub.filter": ["Stream.filter"],
    "StreamTeeHub.copy": ["entry:peek"], "StreamTeeHub.__iter__": ["thub"],
    "Streamix": ["Streamix"], "Streamix.add": ["Streamix"], "tostream": ["zcross", "unwrap", "modulo_counter"],
    "imap": ["imap", "imap2"], "ifilter": ["ifilter"], "ifilterfalse": ["ifilterfalse"], "compress": ["compress"],
    "takewhile": ["takewhile", "x:takewhile"], "dropwhile": ["dropwhile"], "cycle": ["cycle"], "islice": ["islice", "x:islice"],
    "starmap": ["starmap"], "pairwise": ["pairwise"], "batched": ["batched"], "groupby": ["groupby"],
    "izip.izip": ["izip"], "izip.longest": ["izip.longest"], "izip_longest": ["izip.longest"],
    "chain.chain": ["chain", "append.stream"], "chain.star": ["chain.star", "append.stream"], "tee": ["tee"],
    "accumulate.accumulate": ["accumulate.itertools"], "accumulate.func": ["accumulate.func"], "accumulate.z": ["accumulate.z"],
    "z": ["ZFilter.__call__", "ZFilter.timevarying"], "ZFilter": ["ZFilter.__call__"], "LinearFilter": ["ZFilter.__call__"],
    "LinearFilter.__call__": ["ZFilter.__call__", "ZFilter.timevarying"],
    "CascadeFilter": ["CascadeFilter"], "ParallelFilter": ["ParallelFilter"], "FilterList": ["CascadeFilter", "ParallelFilter"],
    "CascadeFilter.__call__": ["CascadeFilter"], "ParallelFilter.__call__": ["ParallelFilter"],
    "comb.fb": ["filter.design"], "comb.tau": ["filter.design"], "comb.ff": ["filter.design"],
    "Poly": ["Poly.__call__"], "Poly.__call__": ["Poly.__call__"], "x": ["Poly.__call__"], "resample": ["resample", "resample.tv"],
    "gammatone.sampled": ["gammatone"], "gammatone.slaney": ["gammatone"], "gammatone.klapuri": ["gammatone"],
    "zcross": ["zcross"], "clip": ["clip"], "unwrap": ["unwrap"], "amdf": ["amdf"],
    "envelope.rms": ["envelope.rms"], "envelope.abs": ["envelope.abs"], "envelope.squared": ["envelope.squared"],
    "maverage.deque": ["maverage.deque"], "maverage.recursive": ["maverage.recursive"], "maverage.fir": ["maverage.fir"],
    "overlap_add.list": ["overlap_add.list", "stft"], "stft.rfft": ["stft"],
    "blocks": ["blocks"], "zero_pad": ["zero_pad"], "chunks.struct": ["chunks.struct"], "chunks.array": ["chunks.array"],
    "modulo_counter": ["modulo_counter"], "sinusoid": ["sinusoid"], "attack": ["attack"],
    "TableLookup": ["TableLookup.__call__"], "TableLookup.__call__": ["TableLookup.__call__"],
    "sin_table": ["TableLookup.__call__"], "saw_table": ["TableLookup.__call__"],
}
for _fam in ("lowpass", "highpass"):
    for _st in ("pole", "z", "pole_exp", "z_exp"):
        COVER["%s.%s" % (_fam, _st)] = ["filter.design"]
for _st in ("poles_exp", "freq_poles_exp", "z_exp", "freq_z_exp"):
    COVER["resonator." + _st] = ["filter.design"]

_R_BLOCK = "works on ONE finite block / container given as a whole and returns a container or a number (eager by definition)"
_R_SRC = "takes numbers only and generates values: a source, not a stage (nothing it could read)"
_R_COMBI = "combinatoric itertools: itertools itself copies the whole pool (`tuple(iterable)`) when the object is made - documented, cannot be lazy"
_R_NUM = "number / string helper: no iterable in, no iterable out"
_R_INFRA = "language / class machinery (compatibility aliases of builtins, metaclasses, decorators, containers of strategies)"
_R_IO = "hardware or file I/O object (C17 / C18 own the chunk and file layers); not buildable on a counting source"
_R_LEAK = "a private itertools name that the `for func in dir(it)` loop of lazy_itertools leaks into __all__; not an API"
_R_NUMPY = "needs numpy, which the environment of the repo does not have (ImportError at call)"
EXCLUDE = {}
for _n in ("acorr", "lag_matrix", "dft", "toeplitz", "levinson_durbin", "parcor", "parcor_stable", "lsf", "lsf_stable", "lagrange.func",
           "lagrange.poly", "almost_eq.bits", "almost_eq.diff", "ParCorError", "rst_table", "small_doc"):
    EXCLUDE[_n] = _R_BLOCK
for _n in ("line", "fadein", "fadeout", "ones", "zeros", "zeroes", "adsr", "white_noise", "gauss_noise", "impulse", "count", "repeat",
           "ControlStream"):
    EXCLUDE[_n] = _R_SRC
EXCLUDE["karplus_strong"] = ("freq and tau must be numbers (a Stream raises TypeError): `comb.tau(...).linearize()(zeros(), memory=memory)` - "
                             "a source; its `memory` iterable is a filter memory (read when the filter is called, TRUSTED line)")
for _n in ("combinations", "combinations_with_replacement", "permutations", "product"):
    EXCLUDE[_n] = _R_COMBI
for _n in ("gammatone_erb_constants", "str2freq", "str2midi", "freq2str", "midi2str", "octaves", "sHz", "multiplication_formatter",
           "pair_strings_sum_formatter", "format_docstring", "factorial", "rint"):
    EXCLUDE[_n] = _R_NUM
for _n in ("orange", "xrange", "xzip", "xzip_longest", "xmap", "xfilter", "iteritems", "itervalues", "im_func", "meta",
           "OpMethod", "AbstractOperatorOverloaderMeta", "MultiKeyDict", "StrategyDict", "LinearFilterProperties", "ZFilterMeta",
           "FilterListMeta", "PolyMeta", "StreamMeta", "TableLookupMeta", "avoid_stream", "MemoryLeakWarning", "elementwise", "cached",
           "Stream.register_ignored_class", "StreamTeeHub.take", "TableLookup.table", "TableLookup.harmonize", "TableLookup.normalize"):
    EXCLUDE[_n] = _R_INFRA
for _n in ("RecStream", "AudioIO", "AudioThread", "WavStream"):
    EXCLUDE[_n] = _R_IO
for _n in ("_grouper", "_tee", "_tee_dataobject", "BuiltinImporter"):
    EXCLUDE[_n] = _R_LEAK
for _n in ("overlap_add.numpy", "stft.cfft", "stft.cfftr"):
    EXCLUDE[_n] = _R_NUMPY
# strategy dictionaries of block / number functions: every strategy is a block function
BLOCK_DICTS = {"window": _R_BLOCK, "wsymm": _R_BLOCK, "lpc": _R_BLOCK, "erb": _R_NUM, "phon2dB": _R_NUM, "float_str": _R_NUM}

# covered callables with inspectable signatures: role of EVERY parameter
#   source / aux : a counting source stands for it in the named registry entries
#   scalar       : must be a number (the code does arithmetic / range() / comparisons with it at once)
#   callable, container (finite list consumed when the stage is made, by design), flag, any
PARAMS = {
    "zcross": {"seq": "source", "hysteresis": "scalar", "first_sign": "scalar"},
    "clip": {"sig": "source", "low": "scalar", "high": "scalar"},
    "unwrap": {"sig": "source", "max_delta": "scalar", "step": "scalar"},
    "amdf": {"lag": "scalar", "size": "scalar"},
    "blocks": {"seq": "source", "size": "scalar", "hop": "scalar", "padval": "any"},
    "zero_pad": {"seq": "source", "left": "scalar", "right": "scalar", "zero": "any"},
    "resample": {"sig": "source", "old": "aux", "new": "aux", "order": "scalar", "zero": "any"},
    "modulo_counter": {"start": "source", "modulo": "source", "step": "source"},
    "sinusoid": {"freq": "source", "phase": "source"},
    "attack": {"a": "scalar", "d": "scalar", "s": "source"},
    "tee": {"data": "source", "n": "scalar"}, "thub": {"data": "source", "n": "scalar"},
    "Stream.take": {"self": "source", "n": "scalar", "constructor": "callable"},
    "Stream.peek": {"self": "source", "n": "scalar", "constructor": "callable"},
    "Stream.skip": {"self": "source", "n": "scalar"}, "Stream.limit": {"self": "source", "n": "scalar"},
    "Stream.append": {"self": "source", "other": "aux"}, "Stream.map": {"self": "source", "func": "callable"},
    "Stream.filter": {"self": "source", "func": "callable"}, "Stream.copy": {"self": "source"},
    "Stream.blocks": {"self": "source", "args": "scalar", "kwargs": "scalar"},
    "Streamix.add": {"self": "any", "delta": "scalar", "data": "source"},
    "TableLookup.__call__": {"self": "any", "freq": "source", "phase": "aux"},
    "LinearFilter.__call__": {"self": "any", "seq": "source", "memory": "container", "zero": "any"},
    "chunks.struct": {"seq": "source", "size": "scalar", "dfmt": "any", "byte_order": "any", "padval": "any"},
    "chunks.array": {"seq": "source", "size": "scalar", "dfmt": "any", "byte_order": "any", "padval": "any"},
    "envelope.rms": {"sig": "source", "cutoff": "scalar"}, "envelope.abs": {"sig": "source", "cutoff": "scalar"},
    "envelope.squared": {"sig": "source", "cutoff": "scalar"},
    "overlap_add.list": {"blk_sig": "source", "size": "scalar", "hop": "scalar", "wnd": "container", "normalize": "flag"},
    "lowpass.pole": {"cutoff": "aux"}, "lowpass.z": {"cutoff": "aux"}, "highpass.pole": {"cutoff": "aux"}, "highpass.z": {"cutoff": "aux"},
    "resonator.poles_exp": {"freq": "aux", "bandwidth": "aux"}, "resonator.z_exp": {"freq": "aux", "bandwidth": "aux"},
    "comb.fb": {"delay": "scalar", "alpha": "aux"}, "comb.tau": {"delay": "scalar", "tau": "aux"}, "comb.ff": {"delay": "scalar", "alpha": "aux"},
    "accumulate.func": {"iterable": "source"},
}
# methods / calls that hand a stage ANOTHER source (or take another copy) while it may already be running -> hist scenarios
ATTACH_API = {
    "Streamix.add": ["Streamix.add"], "Stream.append": ["Stream.append"], "StreamTeeHub.append": ["Stream.append"],
    "Stream.copy": ["Stream.copy"], "StreamTeeHub.copy": ["StreamTeeHub.copy"], "thub": ["thub.partial"],
    "LinearFilter.__call__": ["filter.again:fir", "filter.again:iir"], "CascadeFilter.__call__": ["filter.again:cascade"],
    "ParallelFilter.__call__": ["filter.again:parallel"], "maverage.deque": ["maverage.again"],
    "ControlStream.value": ["ControlStream", "ControlStream.op", "ControlStream.map", "ControlStream.copy"],
}
ELEMENTWISE_EXTRA = ("freq2lag", "lag2freq", "freq_to_lag", "lag_to_freq", "freq2midi", "midi2freq")


def _public_api():
    """{api name: object} - see the comment above; aliases of one strategy function are one name"""
    al = _al()
    out = {}
    classes = {"Stream": ("__call__", "__getattr__", "__iter__", "__abs__"), "StreamTeeHub": ("__iter__",), "Streamix": (),
               "TableLookup": ("__call__",), "LinearFilter": ("__call__",), "CascadeFilter": ("__call__",),
               "ParallelFilter": ("__call__",), "Poly": ("__call__",)}
    for name in al.__all__:
        obj = getattr(al, name)
        if isinstance(obj, al.StrategyDict):
            seen = {}
            for keys, func in obj.items():
                first = [k for k in keys if ("%s.%s" % (name, k)) in COVER or ("%s.%s" % (name, k)) in EXCLUDE]
                out["%s.%s" % (name, (first or sorted(keys))[0])] = func
            continue
        if not callable(obj):
            continue
        out[name] = obj
        if name in classes:
            # the filter / polynomial classes: only the call is a stage (the rest is analysis of coefficients)
            only_call = name in ("LinearFilter", "CascadeFilter", "ParallelFilter", "Poly")
            own = [m for m in vars(obj) if (not m.startswith("_") and not only_call) or m in classes[name]]
            for m in own:
                out["%s.%s" % (name, m)] = getattr(obj, m)
    out["Stream.<operators>"] = None
    return out


def _probe_elementwise(func, value=0.25):
    """an elementwise function on a Stream over a counting source: (reads at construction, reads after 3 outputs)"""
    al = _al()
    src = Src(None, vals="pos", cap=50)
    src.value = lambda i: value          # inside the domain of the functions of lazy_math (acosh: 1.5)
    res = func(al.Stream(src))
    c0 = src.count
    itr = iter(res)
    for _ in range(3):
        next(itr)
    return c0, src.count


def regenerate(eng=None):
    """rewrite lean/ALV/Gen/C02Src.lean from the source text of the repo under test (harness/props/c02_tr.py)"""
    return tr.regenerate(eng)


def _translator_checks(eng):
    eng.extra["translated"] = {
        "translator": "harness/props/c02_tr.py -> lean/ALV/Gen/C02Src.lean",
        "under_the_translator": [{"function": f, "file": "audiolazy/" + fn, "how": how} for f, fn, how in tr.TRANSLATED],
        "theorems": ["src_limit_is_model", "src_limit_count_is_model", "src_skip_is_model", "src_skip_count_is_model",
                     "src_take_is_model", "src_peek_is_model", "src_zero_pad_is_model", "src_attack_is_model",
                     "src_attack_lens_is_model", "src_defaults_is_model", "src_limit_probe", "src_attack_need"],
        "not_translated": [{"function": f, "why": why} for f, why in tr.NOT_TRANSLATED],
    }
    try:
        base, rows = tr.selftest()
    except Exception as e:
        yield ("translator-selftest", False, "the unedited source does not translate: %s: %s" % (type(e).__name__, e))
        return
    eng.extra["translated"]["selftest"] = [{"edit": l, "outcome": o} for l, o in rows]
    committed = tr.committed_text()
    same = committed is not None and committed == base
    bad = [l for l, o in rows if o == "SAME TEXT"]
    skipped = [l for l, o in rows if o.startswith("edit not applicable")]
    for l, o in rows:
        eng.count("translator_selftest", o.split(":")[0])
    # an edit that cannot be applied is a failure on a tree whose translation is the committed one (the edit list is stale);
    # on a changed tree the changed function is reported by the byte comparison / the theorems anyway
    ok = not bad and (not skipped or not same) and len(rows) - len(skipped) >= 3
    yield ("translator-selftest", ok,
           "edits that left the translation unchanged: %s; edits that could not be applied: %s" % (bad, skipped))
    yield ("translator-reproduces-committed-file", same,
           "the translation of the source under test differs from the committed lean/ALV/Gen/C02Src.lean (a translated "
           "function was edited: the src_*_is_model theorems decide whether its meaning changed; recommit the file if not)")


def extra_checks(eng):
    import inspect
    for item in _translator_checks(eng):
        yield item
    al = _al()
    R, X = registry(), xregistry()
    api = _public_api()
    elementwise = set(n for n in al.lazy_math.__all__ if callable(getattr(al, n)) and n not in EXCLUDE) | set(ELEMENTWISE_EXTRA)
    unknown, dangling, lazy_bad = [], [], []
    for name, obj in sorted(api.items()):
        fam = name.split(".")[0]
        if name in COVER:
            for e in COVER[name]:
                ok = (e[2:] in X) if e.startswith("x:") else e.startswith("entry:") or e in R
                if not ok:
                    dangling.append("%s -> %s" % (name, e))
        elif name in EXCLUDE or fam in BLOCK_DICTS:
            pass
        elif name in elementwise:
            try:
                try:
                    c0, c3 = _probe_elementwise(obj)
                except ValueError:
                    c0, c3 = _probe_elementwise(obj, 1.5)
                if (c0, c3) != (0, 3):
                    lazy_bad.append("%s: %d reads at construction, %d for 3 outputs" % (name, c0, c3))
            except Exception as e:
                lazy_bad.append("%s: %s" % (name, err_kind(e)))
        else:
            unknown.append(name)
    stale = sorted(n for n in list(COVER) + list(EXCLUDE) if n not in api and n.split(".")[0] not in BLOCK_DICTS)
    yield ("api-complete", not unknown,
           "public callables that are neither in the registry nor in the justified exclusion list: %s" % ", ".join(unknown))
    yield ("api-table-current", not dangling and not stale,
           "table entries without a registry entry: %s; names that are no longer public: %s" % (dangling, stale))
    yield ("elementwise-all-lazy", not lazy_bad, "; ".join(lazy_bad))
    eng.count("api_names", "covered by the registry", sum(1 for n in api if n in COVER))
    eng.count("api_names", "elementwise (all probed)", sum(1 for n in api if n in elementwise and n not in COVER))
    eng.count("api_names", "excluded with a reason", sum(1 for n in api if n in EXCLUDE or n.split(".")[0] in BLOCK_DICTS))
    # every parameter of the covered callables is classified, and the classification is current
    bad = []
    for name, roles in sorted(PARAMS.items()):
        obj = api.get(name)
        if obj is None:
            bad.append("%s: not public any more" % name)
            continue
        try:
            params = list(inspect.signature(obj).parameters)
        except (TypeError, ValueError):
            bad.append("%s: no signature" % name)
            continue
        if sorted(params) != sorted(roles):
            bad.append("%s%r is classified as %r" % (name, tuple(params), sorted(roles)))
    yield ("parameters-classified", not bad, "; ".join(bad))
    # stages that accept a NEW source / consumer while they are consumed: every public method of the stream classes
    # that takes a source-like argument besides `self` (or copies the object) has a history scenario (`hist` entry)
    missing = []
    for name, roles in sorted(PARAMS.items()):
        cls = name.split(".")[0]
        if "." in name and cls in ("Stream", "StreamTeeHub", "Streamix") and \
                (any(r in ("source", "aux") for k, r in roles.items() if k != "self") or name.endswith(".copy")):
            if not any(h in hist.HOW for h in ATTACH_API.get(name, [])):
                missing.append(name)
    for name, hows in sorted(ATTACH_API.items()):
        if name not in api and name not in ("ControlStream.value",):
            missing.append(name + " (not public any more)")
        missing += ["%s -> %s" % (name, h) for h in hows if h not in hist.HOW]
    for name in sorted(n for n in api if n.split(".")[-1] in ("add", "append", "copy") and n not in ATTACH_API):
        missing.append(name + " (hands a source / takes a copy, no history scenario)")
    yield ("attach-api-has-histories", not missing, "; ".join(missing))
    # a registry entry that nothing refers to is not tied to the API
    used = set(e for es in COVER.values() for e in es)
    orphan = sorted(n for n in R if n not in used and n not in ("elementwise",)) + sorted("x:" + n for n in X if "x:" + n not in used)
    yield ("registry-entries-tied-to-api", not orphan, "registry entries no public name refers to: %s" % orphan)

_INSTALLED = False


def registry():
    global _INSTALLED
    if not _INSTALLED:
        _install()
        _INSTALLED = True
    return REG



# ----------------------------------------------------------------------------------------------
# stopping stages (`probe` entry): stages that leave their loop while the source still has items.
# Observed: pulls at construction, at iter(), and after EVERY request - also the requests made
# after the stage has ended (StopIteration), twice at least - at the source and at every tap.
# ----------------------------------------------------------------------------------------------
XREG = {}


def xreg(name, gen, build, model, err_at="build"):
    XREG[name] = dict(name=name, gen=gen, build=build, model=model, err_at=err_at)


def _xinstall():
    al = _al()
    Stream, thub = al.Stream, al.thub
    via = lambda s, p: thub(s, 1) if p.get("route") == "thub" else Stream(s)

    def g_count(rng, cx):
        n = rng.choice([0, 1, 2, 3, 4, 6, rng.randint(0, 9)])
        num = spell_count(rng, n)
        if cx.get("single") and rng.random() < .06:
            num = {"kind": rng.choice(["inf", "-inf", "nan"])}
        return {"n": num, "route": rng.choice(["stream", "stream", "thub"])}
    xreg("Stream.limit", g_count, lambda s, p, c: via(s, p).limit(unspell(p["n"])),
         lambda p: {"m": "limit", "n": p["n"]})
    xreg("Stream.skip", g_count, lambda s, p, c: via(s, p).skip(unspell(p["n"])),
         lambda p: {"m": "skipn", "n": p["n"]}, err_at="first")
    xreg("takewhile", lambda rng, cx: {"n": rng.randint(0, 7)},
         lambda s, p, c: al.takewhile(_first_n_pred(p["n"]), s), lambda p: {"m": "takewhile", "n": p["n"]})

    def g_isl(rng, cx):
        start = rng.choice([0, 0, 1, 2, 5])
        return {"start": start, "stop": rng.choice([0, 1, 3, 6, start, start + rng.randint(0, 6)]),
                "step": rng.randint(1, 3), "short": rng.random() < .3}

    def b_isl(s, p, c):
        if p["short"]:
            return al.islice(s, p["stop"])
        return al.islice(s, p["start"], p["stop"], p["step"])
    xreg("islice", g_isl, b_isl,
         lambda p: {"m": "isliceStop", "start": 0 if p["short"] else p["start"], "stop": p["stop"],
                    "step": 1 if p["short"] else p["step"]})


_XINSTALLED = False


def xregistry():
    global _XINSTALLED
    if not _XINSTALLED:
        registry()
        _xinstall()
        _XINSTALLED = True
    return XREG


def _xentry(el):
    return xregistry()[el["st"]] if el.get("x") else registry()[el["st"]]


def _xmodel_chain(c):
    return [_xentry(el)["model"](el["p"]) for el in c["chain"]]


def _gen_xchain(rng, depth, single=False):
    """chain of `depth` stages over samples, at least one of them a stopping stage; plain stages
    behind the first stopping one see a source that ENDS, so they come from DRAIN_OK"""
    R, X = registry(), xregistry()
    plain_any = sorted(n for n in R if R[n]["kin"] == "any" and R[n]["kout"] == "same" and R[n]["aux"] is NOAUX
                       and n not in ("Stream.limit", "cycle"))
    xpos = rng.randrange(depth)
    chain, stopped = [], False
    for pos in range(depth):
        if pos == xpos or (depth > 2 and rng.random() < .2):
            name = rng.choice(sorted(X))
            chain.append({"st": name, "x": True, "p": X[name]["gen"](rng, {"single": single})})
            stopped = True
        else:
            cand = [n for n in plain_any if not stopped or n in DRAIN_OK]
            name = rng.choice(cand)
            chain.append({"st": name, "p": R[name]["gen"](rng, {"kind": "s", "bsize": None, "pos": pos})})
    return chain


def _xattach(cases):
    """ask the Lean model how many source items K requests may pull (`need`) and how many outputs exist"""
    todo = [c for c in cases if c.get("entry") == "probe" and "need" not in c]
    if not todo:
        return cases
    outs = common.Driver().batch([{"id": ID, "entry": "probe", "chain": _xmodel_chain(c), "n": 0, "k": c["k"]} for c in todo])
    for c, o in zip(todo, outs):
        if "ok" not in o:
            raise common.InfraError("C02 probe query rejected: %s for %s" % (o, json.dumps(c)[:300]))
        c["need"] = o["ok"].get("need", 0)
    return cases


def _run_probe(c):
    K = c["k"]
    mode = c["mode"]
    n = None if mode == "endless" else c["need"] + (0 if mode == "trip" else c["slack"])
    RUNAWAY = c["need"] + 3000
    src = Src(n, trip=(mode == "trip"), vals=c.get("vals", "pos"), cap=RUNAWAY)
    ctx = Ctx()
    ctx.cap, ctx.K, ctx.kind, ctx.bsize = RUNAWAY, K, "s", None
    ctx.maker = lambda stage, d, j: Src(None, cap=RUNAWAY)
    taps, cur = [src], src
    kind = lambda e: "OTHER:TripWire" if isinstance(e, TripWire) else err_kind(e)
    try:
        for i, el in enumerate(c["chain"]):
            ctx.declare(i, [])
            out = _xentry(el)["build"](cur, el["p"], ctx)
            if i + 1 < len(c["chain"]):
                cur = Tap(out, cap=RUNAWAY)
                taps.append(cur)
            else:
                cur = out
    except CaseTimeout:
        raise
    except Exception as e:
        return {"build_err": kind(e), "errmsg": str(e)[:200], "c0": [t.count for t in taps]}
    counts = lambda: [t.count for t in taps]
    obs = {"c0": counts(), "req": [], "levels": [[] for _ in taps]}
    itr = iter(cur)
    obs["c1"] = counts()
    for _ in range(K):
        try:
            next(itr)
            obs["req"].append(True)
        except StopIteration:
            obs["req"].append(False)
        except CaseTimeout:
            raise
        except Exception as e:
            obs["req"].append(kind(e))
            obs.setdefault("errmsg", str(e)[:200])
        for lv, v in zip(obs["levels"], counts()):
            lv.append(v)
    obs["tripped"] = src.tripped
    obs["outs"] = sum(1 for r in obs["req"] if r is True)
    return obs


def _diff_probe(c, io, drv, which):
    out = []
    names = [el["st"] for el in c["chain"]]
    xerr = [(_xentry(el)["err_at"], el["st"]) for el in c["chain"] if el.get("x")]
    if "build_err" in drv:
        at, st = xerr[0] if xerr else ("build", names[0])
        if at == "build":
            if io.get("build_err") != drv["build_err"]:
                out.append("%s: the constructor must raise %s, impl: %s" % (st, drv["build_err"], io.get("build_err", "no error")))
        else:
            if "build_err" in io or not io.get("req") or io["req"][0] != drv["build_err"]:
                out.append("%s: the first next() must raise %s, impl: %r" % (st, drv["build_err"], io.get("build_err") or io.get("req")))
            elif any(r is not False for r in io["req"][1:]):
                out.append("%s: after the exception the generator is finished, impl: %r" % (st, io["req"]))
        if any(io.get("c0", [])) or any(any(lv) for lv in io.get("levels", [])):
            out.append("%s: a call that raises %s must read nothing, pulls: %r %r" % (st, drv["build_err"], io.get("c0"), io.get("levels")))
        return out
    if "build_err" in io:
        return ["impl raised %s at construction (%s), the model builds the chain" % (io["build_err"], io.get("errmsg", ""))]
    if any(io["c0"]):
        out.append("construction pulled items: counts=%r" % (io["c0"],))
    if any(io.get("c1", [])):
        out.append("iter() on the output pulled items: counts=%r" % (io["c1"],))
    if which == "model" and io["req"] != drv["delivered"]:
        j = next(k for k in range(len(io["req"])) if k >= len(drv["delivered"]) or io["req"][k] != drv["delivered"][k])
        out.append("request #%d: impl %s, model %s" % (j + 1, _req_word(io["req"][j]), _req_word(drv["delivered"][j])))
    for i, (got, exp) in enumerate(zip(io["levels"], drv[which])):
        if got != exp:
            j = next(k for k in range(len(got)) if k >= len(exp) or got[k] != exp[k])
            past = " (asked past the end)" if io["req"][j] is not True else ""
            out.append("stage %d (%s): pulls in front of it after request #%d%s: impl=%d %s=%s" % (
                i, names[i], j + 1, past, got[j], which, exp[j] if j < len(exp) else "none"))
    if io.get("tripped"):
        out.append("trip-wire touched: the source was read past the %d items the chain may read" % c["need"])
    return out


def _req_word(r):
    return "delivers an output" if r is True else "raises StopIteration" if r is False else "raises %s" % r


# ----------------------------------------------------------------------------------------------
# cases
# ----------------------------------------------------------------------------------------------
def _out_kind(e, p, kind):
    if e["kout"] == "same":
        return kind
    if e["kout"] == "stft":
        return "s" if p["ola"] else "b"
    return e["kout"]


def _gen_chain(rng, depth, only=None, at=0):
    R = registry()
    names = sorted(R)
    chain, kind, bsize = [], "s", None
    for pos in range(depth):
        cand = [n for n in names if R[n]["kin"] in (kind, "any") and not (R[n]["head_only"] and pos > 0)]
        if any(el["st"] == "resample.tv" for el in chain):      # one per chain: its step list is sized
            cand = [n for n in cand if n != "resample.tv"]      # from the chain behind it
        if only is not None and pos == at and (at == 0 or only in cand):
            cand = [only]
        name = rng.choice(cand)
        e = R[name]
        if e["kin"] not in (kind, "any"):
            # `only` needs blocks in front
            size = rng.randint(1, 5)
            chain.append({"st": "blocks", "p": {"size": size, "hop": rng.randint(1, size), "route": "method"}})
            kind, bsize = "b", size
        p = e["gen"](rng, {"kind": kind, "bsize": bsize, "pos": pos})
        chain.append({"st": name, "p": p})
        nk = _out_kind(e, p, kind)
        if name == "blocks" or (name == "stft" and not p["ola"]):
            bsize = p["size"]
        kind = nk
    return chain


def _kinds(chain):
    """(kind, block size) in front of every stage"""
    R = registry()
    kind, bsize, out = "s", None, []
    for el in chain:
        out.append((kind, bsize))
        nk = _out_kind(R[el["st"]], el["p"], kind)
        if el["st"] == "blocks" or (el["st"] == "stft" and not el["p"]["ola"]):
            bsize = el["p"]["size"]
        kind = nk
    return out


def _well_kinded(chain):
    R = registry()
    kind, bsize = "s", None
    for i, el in enumerate(chain):
        e = R[el["st"]]
        if e["kin"] not in (kind, "any") or (e["head_only"] and i > 0):
            return False
        if el["st"] == "overlap_add.list" and el["p"]["size"] != bsize:
            return False
        nk = _out_kind(e, el["p"], kind)
        if el["st"] == "blocks" or (el["st"] == "stft" and not el["p"]["ola"]):
            bsize = el["p"]["size"]
        kind = nk
    return True


def _model_chain(c):
    R = registry()
    return [R[el["st"]]["model"](el["p"]) for el in c["chain"]]


def _aux_decls(c):
    """declared auxiliary sources of the whole chain, in the order the builders receive them"""
    R = registry()
    out = []
    for i, el in enumerate(c["chain"]):
        for d in R[el["st"]]["aux"](el["p"]):
            out.append(dict(d, stage=i))
    return out


def _aux_req(c):
    return [{k: v for k, v in d.items() if k in ("stage", "rule", "delta")} for d in _aux_decls(c)]


MAXSTEPS = 1500     # longest step list sent to the model; longer demands are not generated


def _size_steps(cases):
    """resample.tv: the model needs the step values the stage may consume = outputs demanded from
    it = what the chain BEHIND it needs for K outputs (asked from the Lean spec)."""
    todo = []
    for c in cases:
        for i, el in enumerate(c["chain"]):
            if el["st"] == "resample.tv" and "nsteps" not in el["p"]:
                todo.append((c, i))
    ask = [(c, i) for (c, i) in todo if i + 1 < len(c["chain"])]
    outs = common.Driver().batch([{"id": ID, "entry": "reads", "n": 0, "k": c["k"],
                                   "chain": _model_chain({"chain": c["chain"][i + 1:]})} for c, i in ask])
    demand = {}
    for (c, i), o in zip(ask, outs):
        if "ok" not in o:
            raise common.InfraError("C02 spec query rejected: %s for %s" % (o, json.dumps(c)[:300]))
        demand[id(c)] = o["ok"]["need"]
    for c, i in todo:
        c["chain"][i] = {"st": "resample.tv", "p": dict(c["chain"][i]["p"], nsteps=min(demand.get(id(c), c["k"]) + 2, MAXSTEPS))}


def _oversized(c):
    return any(el["p"].get("nsteps", 0) >= MAXSTEPS for el in c.get("chain", []))


def _attach(cases):
    """Ask the Lean spec how many items of the source and of every auxiliary source K outputs need;
    size the sources accordingly."""
    allcases = cases
    cases = [c for c in cases if c.get("entry") in ("reads", "ctl")]
    _size_steps(cases)
    for c in cases:
        if c.get("entry") == "reads" and c.get("mode") == "drain":
            c.setdefault("need", 0)
            c.setdefault("cap", c["n"] + 3000)
            c.setdefault("aux_need", [0] * len(_aux_decls(c)))
    todo = [c for c in cases if "need" not in c or "aux_need" not in c or (c["entry"] == "ctl" and "sched" not in c)]
    if not todo:
        return allcases
    reqs = [{"id": ID, "entry": "reads", "chain": _model_chain(c), "n": 0, "k": c["k"], "aux": _aux_req(c)} for c in todo]
    outs = common.Driver().batch(reqs)
    for c, o in zip(todo, outs):
        if "ok" not in o:
            raise common.InfraError("C02 spec query rejected: %s for %s" % (o, json.dumps(c)[:300]))
        c["need"] = o["ok"]["need"]
        c["aux_need"] = o["ok"]["aux_need"]
        if c["entry"] == "ctl":
            c["sched"] = o["ok"]["aux_spec"]
        # no boundary legitimately carries more items than this (runaway guard for eager mutants)
        c["cap"] = max([c["need"]] + [lv[-1] for lv in o["ok"]["spec"] if lv] + c["aux_need"]) + 3000
    return allcases


MODES = ("finite", "trip", "endless")
AMODES = ("finite", "trip", "endless")     # the same three kinds for every auxiliary source
# stages whose end-of-source behaviour is modelled here (epilogue `onEnd`) and is not one of the
# defects owned by other properties (D1 skip/limit/take past the end, D6 resample, D7, D11)
DRAIN_OK = {"Stream", "Stream.map", "imap", "Stream.__call__", "takewhile", "Stream.filter", "ifilter",
            "ifilterfalse", "compress", "dropwhile", "Stream.append", "prepend", "chain", "chain.star",
            "Stream(a,b)", "Stream.copy", "tee", "islice", "op.scalar", "op.unary", "Stream.real", "thub",
            "ZFilter.__call__", "CascadeFilter", "ParallelFilter", "accumulate.z", "accumulate.itertools",
            "maverage.deque", "maverage.recursive", "maverage.fir", "envelope.abs", "envelope.squared", "amdf",
            "clip", "zcross", "blocks", "zero_pad", "overlap_add.list", "stft", "Poly.__call__", "gammatone",
            "attack", "pairwise", "starmap", "groupby", "batched", "chunks.struct", "chunks.array"}


def _drainable(chain):
    for el in chain:
        if el["st"] not in DRAIN_OK:
            return False
        if el["st"] == "overlap_add.list" and el["p"]["detect"]:
            return False      # size detection peeks one block: D7 on an empty block stream
    return True


def _aux_chain(rng, name, tries=12):
    """single stage `name` with parameters for which it has at least one auxiliary source"""
    R = registry()
    for _ in range(tries):
        chain = _gen_chain(rng, 1, only=name)
        if R[name]["aux"](chain[-1]["p"]):
            return chain
    return None


def _ctl_case(rng, name, K):
    """ControlStream history: value set before every next(), for every auxiliary argument"""
    chain = _aux_chain(rng, name)
    if chain is None or len(chain) != 1:
        return None
    decls = [d for d in registry()[name]["aux"](chain[0]["p"])]
    if not decls or not all(d.get("ctl", True) for d in decls):
        return None
    cv = []
    for d in decls:
        pool = d.get("seq") or [1, 2, 3, 5, 7, 9]
        pool = [v for v in pool if F(v) != 0] or [1]
        pool = sorted(set(pool + [rng.choice(["1/2", 2, 3])]), key=lambda v: F(v)) if d["rule"] == "lag1" else pool
        vals, cur = [], rng.choice(pool)
        for _ in range(K):
            if rng.random() < .6:
                cur = rng.choice([v for v in pool if v != cur] or pool)
            vals.append(cur)
        cv.append(vals)
    return {"entry": "ctl", "chain": chain, "k": K, "cv": cv}


# ----------------------------------------------------------------------------------------------
# two counted sources behind ONE object of the C level, one of which ends ("two" entry)
#   mapzip : map / zip object (Stream binary operators on two streams, imap, izip, xzip)
#   chain  : itertools.chain (append, chain, Stream(a, b))
#   longest: itertools.zip_longest (izip_longest)
# model: ALV/Model/C02Two.lean; theorems mapzip_probe / chain2_probe / longest_probe
# ----------------------------------------------------------------------------------------------
def _two_table():
    al = _al()
    import operator
    S = al.Stream
    return {
        "add": ("mapzip", lambda a, b: S(a) + S(b)),
        "mul.iter": ("mapzip", lambda a, b: S(a) * b),
        "rsub": ("mapzip", lambda a, b: S(b).__rsub__(S(a))),     # reflected operator: `other` is read first
        "lt": ("mapzip", lambda a, b: S(a) < S(b)),
        "imap": ("mapzip", lambda a, b: al.imap(operator.add, a, b)),
        "izip": ("mapzip", lambda a, b: al.izip(a, b)),
        "xzip": ("mapzip", lambda a, b: S(al.xzip(a, b))),
        "append.stream": ("chain", lambda a, b: S(a).append(S(b))),
        "append.iter": ("chain", lambda a, b: S(a).append(b)),
        "chain": ("chain", lambda a, b: al.chain(a, b)),
        "chain.star": ("chain", lambda a, b: al.chain.star([a, b]) if hasattr(al.chain, "star") else al.chain(a, b)),
        "Stream2": ("chain", lambda a, b: S(a, b)),
        "izip.longest": ("longest", lambda a, b: al.izip.longest(a, b) if hasattr(al.izip, "longest") else al.izip_longest(a, b)),
    }


TWO_NAMES = ("add", "mul.iter", "rsub", "lt", "imap", "izip", "xzip", "append.stream", "append.iter", "chain",
             "chain.star", "Stream2", "izip.longest")


def _run_two(c):
    kind, build = _two_table()[c["how"]]
    a, b = Src(c["na"], vals="pos"), Src(c["nb"], vals="pos", salt=1)
    st = build(a, b)
    c0 = [a.count, b.count]
    itr = iter(st)
    c1 = [a.count, b.count]
    req = []
    for _ in range(c["k"]):
        try:
            next(itr)
            ok = True
        except StopIteration:
            ok = False
        except Exception as e:
            return {"err": err_kind(e), "errmsg": str(e)[:200], "req": req}
        req.append([ok, a.count, b.count])
    return {"c0": c0, "c1": c1, "req": req}


def generate(rng, tier, scale=1):
    R = registry()
    cases = []
    quick = tier == "quick"
    nsets = (8 if quick else 60) * scale
    am = lambda: {"amode": rng.choice(AMODES), "aslack": rng.choice([1, 2, 9])}
    for name in sorted(R):
        for i in range(nsets):
            chain = _gen_chain(rng, 1, only=name)
            K = 12 if i % 4 else rng.choice([0, 1, 40] if quick else [0, 1, 40, 200])
            for mode in MODES:
                wrap = rng.choice([w for w in WRAPS if not (w == "iterable" and name in NO_ITERABLE_WRAP)])
                cases.append(dict({"entry": "reads", "chain": [dict(el) for el in chain], "k": K, "mode": mode, "wrap": wrap,
                              "slack": rng.choice([1, 2, 7, 30]), "vals": "pos" if R[name]["head_only"] or rng.random() < .3 else "signed"},
                                  **am()))
    # every stage with auxiliary (stream-valued) arguments x every kind of auxiliary source
    aux_stages = [n for n in sorted(R) if R[n]["aux"] is not NOAUX]
    for name in aux_stages:
        for i in range((6 if quick else 40) * scale):
            chain = _aux_chain(rng, name)
            if chain is None:
                continue
            K = rng.choice([1, 2, 3, 5, 12] if quick else [1, 2, 3, 5, 12, 60])
            for amode in AMODES:
                cases.append({"entry": "reads", "chain": [dict(el) for el in chain], "k": K, "mode": rng.choice(MODES),
                              "slack": rng.choice([1, 5]), "vals": rng.choice(["pos", "signed"]),
                              "amode": amode, "aslack": rng.choice([1, 2, 9])})
    nchains = (1500 if quick else 12000) * scale
    maxd = 3 if quick else 5
    for j in range(nchains):
        only = rng.choice(aux_stages) if j % 5 == 0 else None      # every fifth chain has an auxiliary source in it
        depth = rng.randint(2, maxd)
        chain = _gen_chain(rng, depth, only=only, at=rng.randrange(depth))
        head_pos = R[chain[0]["st"]]["head_only"]
        cases.append(dict({"entry": "reads", "chain": chain, "k": rng.choice([1, 2, 3, 5, 8, 12] if quick else [1, 3, 8, 12, 30]),
                      "mode": rng.choice(MODES), "slack": rng.choice([1, 3, 20]),
                      "vals": "pos" if head_pos or rng.random() < .3 else "signed"}, **am()))
    ndrain = (1000 if quick else 8000) * scale
    made = 0
    for _ in range(ndrain * 6):
        if made >= ndrain:
            break
        chain = _gen_chain(rng, rng.choice([1, 1, 2, 3]), only=rng.choice(sorted(DRAIN_OK)))
        if not _drainable(chain):
            continue
        made += 1
        cases.append({"entry": "reads", "chain": chain, "k": 400, "mode": "drain", "n": rng.choice([0, 1, 2, 3, 5, 8, 13, rng.randint(0, 40)]),
                      "vals": "signed"})
    # ControlStream histories: a value set between two next() must reach exactly the reads made afterwards
    for name in aux_stages:
        for i in range((10 if quick else 80) * scale):
            c = _ctl_case(rng, name, rng.choice([2, 3, 4, 6, 9] if quick else [2, 3, 4, 6, 9, 25]))
            if c is not None:
                cases.append(c)
    # stopping stages, spelled counts, requests past the end
    X = xregistry()
    for name in sorted(X):
        for i in range((40 if quick else 300) * scale):
            chain = [{"st": name, "x": True, "p": X[name]["gen"](rng, {"single": True})}]
            for mode in MODES:
                cases.append({"entry": "probe", "chain": chain, "k": rng.choice([1, 3, 6, 9, 12, 14]), "mode": mode,
                              "slack": rng.choice([1, 2, 7]), "vals": "pos"})
    for j in range((500 if quick else 4000) * scale):
        cases.append({"entry": "probe", "chain": _gen_xchain(rng, rng.randint(2, 3 if quick else 4)),
                      "k": rng.choice([2, 5, 9, 12, 14]), "mode": rng.choice(MODES), "slack": rng.choice([1, 3, 20]),
                      "vals": "pos"})
    if scale == 1:
        for n in range(0, 9):
            for ln in (n, n + 1, n + 5):
                cases.append({"entry": "take", "n": n, "len": ln, "form": ("int", "float")[n % 2]})
            cases.append({"entry": "peek", "n": n, "k": 8, "hub": n % 3 == 0})
    for i in range((150 if quick else 1500) * scale):
        n = rng.randint(0, 8)
        num = spell_count(rng, n, kinds=("int", "float", "float", "float", "frac", "bool"))
        if rng.random() < .1:
            num = {"kind": rng.choice(["inf", "-inf", "nan"])}
        cases.append({"entry": "take", "num": num, "len": rng.choice([0, n, n + 1, n + 5, rng.randint(0, 12)]),
                      "how": rng.choice(["take", "take", "peek", "hub.peek", "take.kw"])})
    # two counted sources behind one C-level object, one of which ends
    for how in TWO_NAMES:
        if scale == 1:
            for na in range(3):
                for nb in range(3):
                    cases.append({"entry": "two", "how": how, "na": na, "nb": nb, "k": na + nb + 2})
        for i in range((12 if quick else 150) * scale):
            cases.append({"entry": "two", "how": how, "na": rng.randint(0, 9), "nb": rng.randint(0, 9),
                          "k": rng.choice([1, 3, 6, 9, 12, 14])})
    cases = [c for c in _xattach(_attach(cases)) if not _oversized(c)]
    return cases + hist.generate(rng, tier, scale)


# ----------------------------------------------------------------------------------------------
# impl
# ----------------------------------------------------------------------------------------------
def _aux_maker(c, decls, RUNAWAY):
    """counting source for the j-th declared auxiliary argument: finite (needed + slack items), trip
    (exactly the items the Lean spec allows for K outputs, then a trip-wire) or endless"""
    amode = c.get("amode", "endless") if c.get("mode") != "drain" else "endless"
    need = c.get("aux_need") or []

    def make(stage, d, j):
        n = None
        if amode != "endless" and j < len(need):
            n = need[j] + (0 if amode == "trip" else c.get("aslack", 3))
        seq = [F(v) for v in d["seq"]] if d.get("seq") else None
        return Src(n, trip=(amode == "trip"), vals=d.get("vals", "pos"), salt=j + 1, cap=RUNAWAY, seq=seq)
    return make


def _build_chain(c, src, ctx, RUNAWAY):
    R = registry()
    taps = [src]
    kinds = _kinds(c["chain"])
    cur = wrap_source(c.get("wrap", "raw"), src)
    for i, el in enumerate(c["chain"]):
        ctx.kind, ctx.bsize = kinds[i]
        ctx.declare(i, R[el["st"]]["aux"](el["p"]))
        out = R[el["st"]]["build"](cur, el["p"], ctx)
        if i + 1 < len(c["chain"]):
            cur = Tap(out, cap=RUNAWAY)
            taps.append(cur)
        else:
            cur = out
    ctx.declare(len(c["chain"]), [])      # every declared source must have been handed out
    return cur, taps


def _run_reads(c):
    K = c["k"]
    mode = c["mode"]
    if mode == "drain":
        n = c["n"]
    else:
        n = None if mode == "endless" else c["need"] + (0 if mode == "trip" else c["slack"])
    RUNAWAY = c.get("cap", c["need"] + 3000)
    src = Src(n, trip=(mode == "trip"), vals=c.get("vals", "signed"), cap=RUNAWAY)
    ctx = Ctx()
    ctx.cap = RUNAWAY
    ctx.K = K
    ctx.maker = _aux_maker(c, _aux_decls(c), RUNAWAY)
    cur, taps = _build_chain(c, src, ctx, RUNAWAY)
    counts = lambda: [t.count for t in taps]
    auxc = lambda: [a.count for (_i, _r, _n, a) in ctx.aux]
    obs = {"c0": counts() + auxc(), "levels": [[] for _ in taps],
           "aux": [[i, r, nm, []] for (i, r, nm, _a) in ctx.aux], "outs": 0}
    try:
        itr = iter(cur)
        obs["c1"] = counts() + auxc()
        for _ in range(K):
            next(itr)
            obs["outs"] += 1
            for lv, v in zip(obs["levels"], counts()):
                lv.append(v)
            for a, v in zip(obs["aux"], auxc()):
                a[3].append(v)
    except StopIteration:
        obs["ended"] = True
        if mode == "drain":
            # asked PAST the end, twice: a finished stage raises StopIteration again and reads nothing
            before = counts()
            post = []
            for _ in range(2):
                try:
                    next(itr)
                    post.append("output")
                except StopIteration:
                    post.append("stop")
                except CaseTimeout:
                    raise
                except Exception as e:
                    post.append(err_kind(e))
            obs["post"] = post
            obs["post_reads"] = [b - a for a, b in zip(before, counts())]
    except CaseTimeout:
        raise
    except Exception as e:  # TripWire, RuntimeError, ...
        obs["err"] = "OTHER:TripWire" if isinstance(e, TripWire) else err_kind(e)
        obs["errmsg"] = str(e)[:200]
        obs["partial"] = counts() + auxc()      # pull counters when the exception came out
    obs["tripped"] = src.tripped
    obs["aux_tripped"] = [nm for (_i, _r, nm, a) in ctx.aux if a.tripped]
    return obs


def _sched_values(sched, cv):
    """the value a source read for the i-th time must deliver, when the read discipline of the
    spec holds: read #i happens during the first next() whose predicted counter reaches i, and sees
    the control value set just before that next()"""
    out = []
    for i in range(1, (sched[-1] if sched else 0) + 1):
        j = next(k for k, v in enumerate(sched) if v >= i)
        out.append(cv[j])
    return out


def _run_ctl(c):
    """run A: every auxiliary argument is a real ControlStream, its value is set before every next().
    run B: the same stage on plain finite streams holding, read by read, the values the documented
    read discipline makes visible (then a trip-wire).  The outputs must be identical."""
    al = _al()
    K = c["k"]
    decls = _aux_decls(c)
    val = lambda d, v: F(v) if d.get("seq") is not None or isinstance(v, str) else v
    runs = {}
    for run in ("A", "B"):
        ctx = Ctx()
        ctls = []

        def make(stage, d, j, run=run, ctls=ctls):
            if run == "A":
                cs = al.ControlStream(val(d, c["cv"][j][0]) if K else 1)
                ctls.append(cs)
                return cs
            seq = [val(d, v) for v in _sched_values(c["sched"][j], c["cv"][j])]
            # beyond the schedule (a read the spec does not allow): the last control value, counted
            src_b = Src(None, seq=seq + [val(d, c["cv"][j][-1])] * 64 if K else [1], cap=len(seq) + 60)
            scheduled.append((d["name"], len(seq), src_b))
            return src_b
        scheduled = []
        ctx.maker = make
        src = Src(None, vals=c.get("vals", "pos"), cap=c.get("cap", 5000))
        outs = []
        try:
            cur, _taps = _build_chain(c, src, ctx, c.get("cap", 5000))
            itr = iter(cur)
            for k in range(K):
                for j, cs in enumerate(ctls):
                    cs.value = val(decls[j], c["cv"][j][k])
                outs.append(repr(next(itr)))
        except CaseTimeout:
            raise
        except Exception as e:
            runs[run + "_err"] = ("OTHER:TripWire" if isinstance(e, TripWire) else err_kind(e)) + ": " + str(e)[:120]
        runs[run] = outs
        if run == "B":
            over = ["%s: %d read(s), %d scheduled" % (nm, sb.count, n) for (nm, n, sb) in scheduled if sb.count > n]
    first = next((k for k in range(K) if k >= len(runs["A"]) or k >= len(runs["B"]) or runs["A"][k] != runs["B"][k]), None)
    obs = {"outs": len(runs["A"]), "first_diff": first, "a": runs["A"][:K], "b": runs["B"][:K]}
    for k in ("A_err", "B_err"):
        if k in runs:
            obs[k] = runs[k]
    if over:
        obs["over"] = over
    return obs


class CaseTimeout(Exception):
    pass


def _alarm(_sig, _frm):
    raise CaseTimeout("case did not finish within %d s" % CASE_TIMEOUT)


CASE_TIMEOUT = 4


def impl(c):
    al = _al()
    if c["entry"] == "hist":
        return hist.impl(c, al)
    if c["entry"] in ("reads", "ctl"):
        if "need" not in c or "aux_need" not in c or (c["entry"] == "ctl" and "sched" not in c):
            _attach([c])
        import signal
        old = signal.signal(signal.SIGALRM, _alarm)
        signal.setitimer(signal.ITIMER_REAL, CASE_TIMEOUT)
        try:
            return _run_reads(c) if c["entry"] == "reads" else _run_ctl(c)
        except CaseTimeout as e:
            return {"err": "OTHER:Timeout", "errmsg": str(e)}
        except Exception as e:
            return {"err": "build:" + err_kind(e), "errmsg": str(e)[:300]}
        finally:
            signal.setitimer(signal.ITIMER_REAL, 0)
            signal.signal(signal.SIGALRM, old)
    if c["entry"] == "probe":
        if "need" not in c:
            _xattach([c])
        import signal
        old = signal.signal(signal.SIGALRM, _alarm)
        signal.setitimer(signal.ITIMER_REAL, CASE_TIMEOUT)
        try:
            return _run_probe(c)
        except CaseTimeout as e:
            return {"err": "OTHER:Timeout", "errmsg": str(e)}
        except Exception as e:
            return {"err": "harness:" + err_kind(e), "errmsg": str(e)[:300]}
        finally:
            signal.setitimer(signal.ITIMER_REAL, 0)
            signal.signal(signal.SIGALRM, old)
    if c["entry"] == "two":
        try:
            return _run_two(c)
        except Exception as e:
            return {"err": "build:" + err_kind(e), "errmsg": str(e)[:300]}
    if c["entry"] == "take" and "num" in c:
        # consumers with a SPELLED count: items pulled by the call, items handed out, and what is left
        src = Src(c["len"], trip=False)
        how = c["how"]
        s = al.thub(src, 1) if how == "hub.peek" else al.Stream(src)
        n = unspell(c["num"])
        try:
            c0 = src.count
            got = s.take(n=n) if how == "take.kw" else s.take(n) if how == "take" else s.peek(n)
            pulled = src.count
            rest = len(list(s))
            return {"c0": c0, "pulled": pulled, "got": len(got), "rest": rest, "total": src.count}
        except Exception as e:
            return {"err": err_kind(e), "pulled": src.count}
    if c["entry"] == "take":
        src = Src(c["len"], trip=True)
        s = al.Stream(src)
        try:
            got = s.take(c["n"] if c["form"] == "int" else c["n"] + 0.25)
            return {"pulled": src.count, "got": len(got)}
        except Exception as e:
            return {"err": "OTHER:TripWire" if isinstance(e, TripWire) else err_kind(e), "pulled": src.count}
    if c["entry"] == "peek":
        src = Src(None, cap=5000)
        s = al.thub(src, 1) if c["hub"] else al.Stream(src)
        try:
            got = s.peek(c["n"])
            after_peek = src.count
            pulls = []
            itr = iter(s)
            for _ in range(c["k"]):
                next(itr)
                pulls.append(src.count)
            return {"after_peek": after_peek, "got": len(got), "pulls": pulls}
        except Exception as e:
            return {"err": err_kind(e)}
    raise ValueError(c["entry"])


def request(c):
    if c["entry"] == "hist":
        return hist.request(c)
    if c["entry"] == "ctl":
        return {"entry": "reads", "chain": _model_chain(c), "n": c["need"] + 8, "k": c["k"], "aux": _aux_req(c)}
    if c["entry"] == "reads":
        if c["mode"] == "drain":
            return {"entry": "reads", "chain": _model_chain(c), "n": c["n"], "k": c["k"], "aux": _aux_req(c)}
        n = c["need"] + (64 if c["mode"] == "endless" else (0 if c["mode"] == "trip" else c["slack"]))
        return {"entry": "reads", "chain": _model_chain(c), "n": n, "k": c["k"], "aux": _aux_req(c)}
    if c["entry"] == "probe":
        n = c["need"] + (64 if c["mode"] == "endless" else (0 if c["mode"] == "trip" else c["slack"]))
        return {"entry": "probe", "chain": _xmodel_chain(c), "n": n, "k": c["k"]}
    if c["entry"] == "two":
        return {"entry": "two", "kind": _two_table()[c["how"]][0], "na": c["na"], "nb": c["nb"], "k": c["k"]}
    return {k: v for k, v in c.items() if k in ("entry", "n", "len", "k", "num")}


def _diff(c, io, drv, which):
    """list of human readable disagreements between impl observation and drv[which]"""
    out = []
    if "err" in io:
        where = ""
        if io.get("aux_tripped"):
            where = "; trip-wire of auxiliary source(s) %s touched: read beyond the %r values the spec allows for %d outputs" % (
                ", ".join(io["aux_tripped"]), c.get("aux_need"), c["k"])
        out.append("impl raised %s (%s) after %d outputs%s" % (io["err"], io.get("errmsg", ""), io.get("outs", 0), where))
        return out
    if any(io["c0"]):
        out.append("construction pulled items: counts=%r (taps then aux)" % (io["c0"],))
    if any(io.get("c1", [])):
        out.append("iter() on the output pulled items: counts=%r" % (io["c1"],))
    drain = c["mode"] == "drain"
    if drain:
        # finite source consumed to its end: the model predicts every pull count and where the output ends;
        # the closed forms (spec) speak only about outputs the source is long enough for
        if which == "model" and io["outs"] != drv["outs"]:
            out.append("finite source of %d items: impl delivered %d outputs, model %d" % (c["n"], io["outs"], drv["outs"]))
    elif io.get("ended") or io["outs"] != c["k"]:
        out.append("only %d of %d outputs delivered" % (io["outs"], c["k"]))
    want = drv[which]
    if drain and which == "spec":
        want = [[v for v in want[0] if v <= c["n"]]]
    for i, (got, exp) in enumerate(zip(io["levels"], want)):
        if drain and which == "spec":
            got = got[:len(exp)]
        exp = exp[:len(got)]
        if got != exp:
            j = next(k for k in range(len(got)) if k >= len(exp) or got[k] != exp[k])
            out.append("stage %d (%s): pulls in front of it after next #%d: impl=%d %s=%s" % (
                i, c["chain"][i]["st"], j + 1, got[j], which, exp[j] if j < len(exp) else "none"))
    for a, (i, rule, name, got) in enumerate(io["aux"]):
        if drain:
            break
        exp = drv["aux_" + which][a][:len(got)]
        if got != exp:
            j = next(k for k in range(len(got)) if k >= len(exp) or got[k] != exp[k])
            out.append("stage %d (%s): auxiliary source `%s` (rule %s) pulls after next #%d: impl=%d %s=%s" % (
                i, c["chain"][i]["st"], name, rule, j + 1, got[j], which, exp[j] if j < len(exp) else "none"))
    if drain and which == "model" and "post" in io:
        # Props.asked_past_the_end: after the first StopIteration every request fails, the counters stay
        if io["post"] != ["stop", "stop"]:
            out.append("asked twice past the end: %r instead of StopIteration twice" % (io["post"],))
        if any(io["post_reads"]):
            out.append("asked twice past the end: %r more items pulled (taps)" % (io["post_reads"],))
    if io.get("tripped"):
        out.append("trip-wire touched")
    if io.get("aux_tripped"):
        out.append("trip-wire of auxiliary source(s) %s touched" % ", ".join(io["aux_tripped"]))
    return out


def _diff_ctl(c, io, drv, which):
    out = []
    if "err" in io:
        return ["impl raised %s (%s)" % (io["err"], io.get("errmsg", ""))]
    if c.get("sched") != drv["aux_" + which]:
        out.append("read schedule of the case is not the %s's: %r vs %r" % (which, c.get("sched"), drv["aux_" + which]))
    st = c["chain"][0]["st"]
    names = [d["name"] for d in _aux_decls(c)]
    if "A_err" in io:
        out.append("%s with ControlStream argument(s) %s raised %s after %d outputs" % (st, names, io["A_err"], len(io["a"])))
    if "B_err" in io:
        out.append("%s on the scheduled value streams raised %s after %d outputs (reads beyond the %r values the "
                   "spec allows end in a trip-wire)" % (st, io["B_err"], len(io["b"]), [s_[-1] if s_ else 0 for s_ in c["sched"]]))
    k = io.get("first_diff")
    if k is not None and "A_err" not in io and "B_err" not in io:
        hist = "; ".join("set %s, next() -> %s" % ([cv[j] for cv in c["cv"]], io["a"][j] if j < len(io["a"]) else "?")
                         for j in range(min(k + 1, c["k"])))
        # (an over-read that no output shows is left to the counting cases)
        over = " (on the scheduled streams: %s)" % "; ".join(io["over"]) if io.get("over") else ""
        out.append("%s, ControlStream argument(s) %s: history [%s]: output #%d is %s but the values set before each "
                   "next() reach exactly the reads made afterwards only if it is %s%s" % (
                       st, names, hist, k, io["a"][k] if k < len(io["a"]) else "missing",
                       io["b"][k] if k < len(io["b"]) else "missing", over))
    elif k is not None:
        out.append("outputs differ from #%d on" % k)
    return out


def compare(c, io, drv):
    out = []
    if c["entry"] == "hist":
        return hist.compare(c, io, drv)
    if c["entry"] == "reads":
        if drv["construct"] != 0 or drv["spec0"] != 0:
            out.append(("model", "model reads at construction"))
        for which in ("model", "spec"):
            for d in _diff(c, io, drv, which):
                out.append((which, d))
        return out
    if c["entry"] == "ctl":
        for which in ("model", "spec"):
            for d in _diff_ctl(c, io, drv, which):
                out.append((which, d))
        return out
    if c["entry"] == "probe":
        if "err" in io:
            return [("model", "impl run failed: %s (%s)" % (io["err"], io.get("errmsg", "")))]
        for which in ("model", "spec"):
            for d in _diff_probe(c, io, drv, which):
                out.append((which, d))
        return out
    if c["entry"] == "two":
        what = "%s over sources of %d and %d items" % (c["how"], c["na"], c["nb"])
        if "err" in io:
            return [("model", "%s: impl run failed: %s (%s)" % (what, io["err"], io.get("errmsg", "")))]
        if io["c0"] != drv["construct"] or io["c1"] != drv["construct"]:
            out.append(("spec", "%s: read at construction / iter(): %r %r" % (what, io["c0"], io["c1"])))
        for which in ("model", "spec"):
            if io["req"] != drv[which]:
                j = next(i for i in range(len(io["req"])) if io["req"][i] != drv[which][i])
                out.append((which, "%s: request %d [delivered, reads first, reads second] impl=%r %s=%r" % (
                    what, j + 1, io["req"][j], which, drv[which][j])))
        return out
    if c["entry"] == "take" and "num" in c:
        what = "%s(%r) on %d items" % (c["how"], unspell(c["num"]), c["len"])
        if "err" in drv:
            if io.get("err") != drv["err"] or io.get("pulled"):
                out.append(("model", "%s must raise %s without reading, impl=%r" % (what, drv["err"], io)))
            return out
        for which in ("model", "spec"):
            peek = c["how"] in ("peek", "hub.peek")
            want_rest = c["len"] - (0 if peek else drv[which])
            if "err" in io or io["c0"] != 0 or io["pulled"] != drv[which] or io["got"] != drv[which] or \
                    io["rest"] != want_rest or io["total"] != c["len"]:
                out.append((which, "%s: impl=%r, %s: %d items pulled and handed out, %d left" % (what, io, which, drv[which], want_rest)))
        return out
    if c["entry"] == "take":
        for which in ("model", "spec"):
            if "err" in io or io["pulled"] != drv[which] or io["got"] != drv[which]:
                out.append((which, "take(%s) on %d items: impl=%r %s=%r" % (c["n"], c["len"], io, which, drv[which])))
        return out
    for which in ("model", "spec"):
        if "err" in io or io["after_peek"] != c["n"] or io["pulls"] != drv[which]:
            out.append((which, "peek(%d) then next: impl=%r %s=%r" % (c["n"], io, which, drv[which])))
    return out


def nontrivial(c, io):
    if c["entry"] == "hist":
        return hist.nontrivial(c, io)
    if c["entry"] in ("reads", "ctl"):
        return io.get("outs", 0) > 0
    if c["entry"] == "probe":
        return "req" in io or "build_err" in io
    return "err" not in io


def tally(eng, c, io):
    eng.count("entry", c["entry"])
    if c["entry"] == "hist":
        return hist.tally(eng, c, io)
    if c["entry"] == "ctl":
        el = c["chain"][0]
        eng.count("ctl_stage", el["st"])
        eng.count("ctl_k", c["k"])
        for d, cv in zip(_aux_decls(c), c["cv"]):
            eng.count("ctl_argument", "%s.%s" % (el["st"], d["name"]))
            eng.count("ctl_value_changes", min(sum(1 for a, b in zip(cv, cv[1:]) if a != b), 5))
        eng.count("ctl_result", "error" if ("A_err" in io or "B_err" in io or "err" in io) else
                  "differs" if io.get("first_diff") is not None else "over-read" if io.get("over") else "identical")
        return
    if c["entry"] == "probe":
        eng.count("probe_mode", c["mode"])
        eng.count("probe_depth", len(c["chain"]))
        for i, el in enumerate(c["chain"]):
            eng.count("probe_stage", el["st"] + (" (stopping)" if el.get("x") else ""))
            if el.get("x"):
                eng.count("probe_stop_position", "single" if len(c["chain"]) == 1 else "head" if i == 0 else
                          "last" if i == len(c["chain"]) - 1 else "inner")
                if "n" in el["p"] and isinstance(el["p"]["n"], dict):
                    eng.count("count_spelling", "%s(%s)" % (el["st"], spell_tag(el["p"]["n"])))
                if "route" in el["p"]:
                    eng.count("method_called_on", el["p"]["route"])
        if "build_err" in io:
            eng.count("probe_result", "constructor raises " + io["build_err"])
        elif "req" in io:
            past = sum(1 for r in io["req"] if r is not True)
            eng.count("requests_past_the_end", min(past, 3))
            errs = [r for r in io["req"] if r not in (True, False)]
            eng.count("probe_result", "raises " + errs[0] if errs else "ended" if past else "not exhausted")
        return
    if c["entry"] == "two":
        eng.count("two_sources", "%s:%s" % (_two_table()[c["how"]][0],
                  "err" if "err" in io else "equal" if c["na"] == c["nb"] else
                  "second ends first" if c["nb"] < c["na"] else "first ends first"))
        if "req" in io:
            eng.count("two_requests_past_the_end", min(sum(1 for r in io["req"] if not r[0]), 3))
        return
    if c["entry"] == "take" and "num" in c:
        eng.count("count_spelling", "%s(%s)" % (c["how"], spell_tag(c["num"])))
        eng.count("take_result", "err:" + io["err"] if "err" in io else "all" if io["got"] == c["len"] else "some" if io["got"] else "none")
        return
    if c["entry"] != "reads":
        return
    for el in c["chain"]:
        if "shape" in el["p"]:
            eng.count("call_shape", "%s:%s" % (el["st"], el["p"]["shape"]))
        if el["st"] == "resample" and "num" in el["p"]:
            eng.count("count_spelling", "resample.old/new(%s)" % el["p"]["num"])
        if el["st"] == "zero_pad":
            eng.count("count_spelling", "zero_pad.left(%s)" % type(el["p"]["left"]).__name__)
        for k, v in el["p"].items():
            if isinstance(v, dict) and "kind" in v:
                eng.count("count_spelling", "%s.%s(%s)" % (el["st"], k, spell_tag(v)))
        if "route" in el["p"] and el["st"].startswith("Stream."):
            eng.count("method_called_on", el["p"]["route"])
    eng.count("mode", c["mode"])
    eng.count("head_source_object", c.get("wrap", "raw"))
    eng.count("depth", len(c["chain"]))
    eng.count("k", c["k"] if c["k"] <= 12 else ">12")
    for el in c["chain"]:
        eng.count("stage", el["st"])
    for d in _model_chain(c):
        eng.count("model", d["m"])
    decls = _aux_decls(c)
    eng.count("aux_sources", len(decls))
    amode = "endless" if c["mode"] == "drain" else c.get("amode", "endless")
    for d in decls:
        st = c["chain"][d["stage"]]["st"]
        eng.count("aux_rule", d["rule"])
        eng.count("aux_argument", "%s.%s" % (st, d["name"]))
        eng.count("aux_source_kind", amode)
        eng.count("aux_position_in_chain", "single stage" if len(c["chain"]) == 1 else
                  "head" if d["stage"] == 0 else "last" if d["stage"] == len(c["chain"]) - 1 else "inner")
    for a in io.get("aux", []):
        if a[3]:
            last, outs = a[3][-1], io["outs"]
            eng.count("aux_pulls_vs_outputs", "%s: %s" % (a[1], "0" if last == 0 else "<k-1" if last < outs - 1 else
                                                        "k-1" if last == outs - 1 else "k" if last == outs else ">k"))
    for el in c["chain"]:
        if el["st"] == "resample.tv":
            p = el["p"]
            eng.count("resample.tv_streams", "+".join(n for n in ("old", "new") if isinstance(p[n], list)))
            eng.count("resample.tv_pattern_len", max(len(p[n]) for n in ("old", "new") if isinstance(p[n], list)))
    if "err" in io:
        eng.count("impl_error", io["err"])
    if "post" in io:
        eng.count("drained_then_asked_twice", "/".join(io["post"]))
    if io.get("levels") and io["levels"][0]:
        last = io["levels"][0][-1]
        eng.count("source_vs_outputs", "pulls<k" if last < io["outs"] else ("pulls=k" if last == io["outs"] else "pulls>k"))


def _strip(c):
    d = {k: v for k, v in c.items() if k not in ("need", "cap", "aux_need", "sched")}
    d["chain"] = [dict({"st": el["st"], "p": {k: v for k, v in el["p"].items() if k != "nsteps"}},
                       **({"x": True} if el.get("x") else {})) for el in c["chain"]]
    return d


_SHRINK_CALLS = [0]
SHRINK_BUDGET = 90     # shrink rounds per run (every round costs two driver calls)


def _one_tv(chain):
    return sum(1 for el in chain if el["st"] == "resample.tv") <= 1


def _param_cands(c):
    """smaller parameters, stage by stage (ints towards 1, lists halved / their values towards 1)"""
    out = []
    for i, el in enumerate(c["chain"]):
        def with_p(**kw):
            nc = _strip(c)
            nc["chain"][i] = {"st": el["st"], "p": dict(nc["chain"][i]["p"], **kw)}
            return nc
        for key, val in el["p"].items():
            if key == "nsteps":
                continue
            if isinstance(val, int) and not isinstance(val, bool) and val > 1 and key not in ("order",):
                for v in sorted({1, val // 2, val - 1}):
                    nc = with_p(**{key: v})
                    if _well_kinded(nc["chain"]):
                        out.append(nc)
            elif isinstance(val, list) and len(val) > 1 and key in ("pat", "filters", "terms", "old", "new"):
                out.append(with_p(**{key: val[:len(val) // 2]}))
            elif isinstance(val, list) and val and key == "ev":
                out.append(with_p(**{key: val[:-1]}))
        if el["st"] == "resample.tv":
            p = el["p"]
            for key in ("old", "new"):
                if isinstance(p[key], list):
                    if any(str(v) != "1" for v in p[key]):
                        out.append(with_p(**{key: [1] * len(p[key])}))
                    other = "new" if key == "old" else "old"
                    if isinstance(p[other], list):
                        out.append(with_p(**{other: 1}))       # one stream-valued argument is enough
                elif str(p[key]) != "1":
                    out.append(with_p(**{key: 1}))
            if p["order"] > 1:
                out.append(with_p(order=1))
            if p.get("form") != "stream":
                out.append(with_p(form="stream"))
    return out


def shrink(c):
    """Few, strongly smaller candidates per round: single stages first, then k, then parameters."""
    if c["entry"] == "hist":
        _SHRINK_CALLS[0] += 1
        if _SHRINK_CALLS[0] <= SHRINK_BUDGET:
            for x in hist.shrink(c):
                yield x
        return
    if c["entry"] == "probe":
        _SHRINK_CALLS[0] += 1
        if _SHRINK_CALLS[0] > SHRINK_BUDGET:
            return
        cands, ch = [], _strip(c)["chain"]
        if len(ch) > 1:
            cands += [dict(_strip(c), chain=[el]) for el in ch]
            cands += [dict(_strip(c), chain=ch[:i] + ch[i + 1:]) for i in range(len(ch))]
        if c["k"] > 1:
            cands += [dict(_strip(c), k=v) for v in sorted({1, c["k"] // 2, c["k"] - 1})]
        if c["mode"] != "finite":
            cands.append(dict(_strip(c), mode="finite", slack=3))
        for i, el in enumerate(ch):
            num = el["p"].get("n")
            if isinstance(num, dict) and num["kind"] in ("float", "frac", "int") and F(num["v"]) > 1:
                nc = _strip(c)
                nc["chain"][i] = dict(el, p=dict(el["p"], n=dict(num, v=common.enc(F(num["v"]) - 1))))
                cands.append(nc)
        try:
            _xattach(cands)
        except Exception:
            return
        for x in cands:
            yield x
        return
    if c["entry"] == "two":
        for na, nb, k in ((c["na"] // 2, c["nb"] // 2, c["k"]), (c["na"] - 1, c["nb"], c["k"]), (c["na"], c["nb"] - 1, c["k"]),
                          (c["na"], c["nb"], c["k"] - 1)):
            if na >= 0 and nb >= 0 and k >= 1 and (na, nb, k) != (c["na"], c["nb"], c["k"]):
                yield dict(c, na=na, nb=nb, k=k)
        return
    if c["entry"] not in ("reads", "ctl"):
        return
    _SHRINK_CALLS[0] += 1
    if _SHRINK_CALLS[0] > SHRINK_BUDGET:
        return
    cands = []
    ch = c["chain"]
    if c["entry"] == "ctl":
        K = c["k"]
        for v in sorted({1, K // 2, K - 1}):
            if 0 < v < K:
                cands.append(dict(_strip(c), k=v, cv=[cv[:v] for cv in c["cv"]]))
        for j, cv in enumerate(c["cv"]):            # fewer value changes: repeat the first value longer
            for k in range(1, K):
                if cv[k] != cv[k - 1]:
                    ncv = [list(x) for x in c["cv"]]
                    ncv[j][k] = cv[k - 1]
                    cands.append(dict(_strip(c), cv=ncv))
                    break
        for nc in _param_cands(c):
            decls = _aux_decls(nc)
            if len(decls) == len(c["cv"]) and [d["name"] for d in decls] == [d["name"] for d in _aux_decls(c)]:
                cands.append(nc)
        try:
            _attach(cands)
        except Exception:
            return
        for x in cands:
            yield x
        return
    if len(ch) > 1:
        for i in range(len(ch)):
            if _well_kinded([ch[i]]):
                cands.append(dict(_strip(c), chain=[_strip({"chain": [ch[i]]})["chain"][0]]))
        for i in range(len(ch)):
            sub = ch[:i] + ch[i + 1:]
            if _well_kinded(sub):
                cands.append(dict(_strip(c), chain=_strip({"chain": sub})["chain"]))
    if c["mode"] == "drain":
        if c["n"] > 0:
            cands += [dict(_strip(c), n=v) for v in sorted({0, c["n"] // 2, c["n"] - 1})]
        cands = [x for x in cands if _drainable(x["chain"])]
    elif c["k"] > 1:
        cands += [dict(_strip(c), k=v) for v in sorted({1, c["k"] // 2, c["k"] - 1})]
    if c["mode"] not in ("finite", "drain"):
        cands.append(dict(_strip(c), mode="finite", slack=5))
    if c.get("wrap", "raw") != "raw":
        cands.append(dict(_strip(c), wrap="raw"))
    if c.get("amode", "endless") != "endless" and c["mode"] != "drain":
        cands.append(dict(_strip(c), amode="endless"))      # plain counting shows an over-read without a trip-wire
    cands += _param_cands(c)
    try:
        _attach(cands)
    except Exception:
        return
    for x in cands:
        if not _oversized(x):
            yield x


def neighbours(c):
    if c["entry"] == "probe":
        cands = [dict(_strip(c), k=k, mode=m, slack=3) for k in (1, 3, 8, 14) for m in MODES]
        _xattach(cands)
        for x in cands:
            yield x
        return
    if c["entry"] == "two":
        for na in (0, 1, 3):
            for nb in (0, 1, 3):
                yield dict(c, na=na, nb=nb, k=na + nb + 2)
        return
    if c["entry"] != "reads":
        return
    cands = []
    if c["mode"] == "drain":
        for n in range(max(0, c["n"] - 2), c["n"] + 3):
            cands.append(dict(_strip(c), n=n))
    for k in range(0, min(c["k"] + 3, 16)):
        cands.append(dict(_strip(c), k=k, mode="finite", slack=3))
    for mode in MODES:
        cands.append(dict(_strip(c), mode=mode, slack=3, k=min(c["k"], 12)))
    if _aux_decls(c) and c["mode"] != "drain":
        for amode in AMODES:
            cands.append(dict(_strip(c), amode=amode, aslack=2, k=min(c["k"], 12)))
    for el in c["chain"]:
        if _well_kinded([el]):
            cands.append(dict(_strip(c), chain=_strip({"chain": [el]})["chain"], k=8, mode="finite", slack=3))
    _attach(cands)
    for x in cands:
        if not _oversized(x):
            yield x


def classify(c, io, drv):
    """<blamed stage>:<what fails> - coarse on purpose: one signature per stage and failure kind."""
    if c["entry"] == "hist":
        return hist.classify(c, io, drv)
    if c["entry"] == "ctl":
        st = c["chain"][0]["st"]
        if "err" in io or "A_err" in io:
            return "%s:control:err:%s" % (st, (io.get("err") or io["A_err"]).split(":")[0])
        if "B_err" in io:
            return "%s:control:err:%s" % (st, io["B_err"].split(":")[0])
        return "%s:control:%s" % (st, "value-lands-late-or-early" if io.get("first_diff") is not None else "schedule")
    if c["entry"] == "probe":
        names = [el["st"] for el in c["chain"]]
        st = next((el["st"] for el in c["chain"] if el.get("x")), names[0])
        if "err" in io:
            return "%s:probe:err:%s" % (st, io["err"])
        if "build_err" in io or "build_err" in drv:
            return "%s:probe:constructor-error" % st
        if any(io["c0"]) or any(io.get("c1", [])):
            return "%s:probe:reads-at-construction" % names[next(i for i, v in enumerate([a or b for a, b in zip(io["c0"], io.get("c1", io["c0"]))]) if v)]
        if io["req"] != drv.get("delivered"):
            return "%s:probe:outputs" % st
        for i in reversed(range(len(io["levels"]))):
            got, exp = io["levels"][i], drv["model"][i]
            if got != exp:
                j = next(k for k in range(len(got)) if k >= len(exp) or got[k] != exp[k])
                past = "-past-the-end" if io["req"][j] is not True else ""
                return "%s:probe:%s%s" % (names[i], "over-read" if j >= len(exp) or got[j] > exp[j] else "under-read", past)
        return "%s:probe:other" % st
    if c["entry"] == "two":
        if "err" in io:
            return "two:%s:err:%s" % (c["how"], io["err"])
        if any(io["c0"]) or any(io["c1"]):
            return "two:%s:reads-at-construction" % c["how"]
        for r, e in zip(io["req"], drv["model"]):
            if r != e:
                which = "first" if r[1] != e[1] else "second" if r[2] != e[2] else "delivery"
                past = "-past-the-end" if not e[0] else ""
                return "two:%s:%s-%s%s" % (c["how"], which, "over-read" if (r[1], r[2]) > (e[1], e[2]) else "under-read", past)
        return "two:%s:other" % c["how"]
    if c["entry"] == "take" and "num" in c:
        return "%s:spelled-count:%s" % (c["how"], "err:" + io["err"] if "err" in io else "over-read" if io.get("pulled", 0) > drv.get("model", 0) else "other")
    if c["entry"] != "reads":
        return c["entry"] + ":" + ("err:" + io["err"] if "err" in io else "over-read")
    names = [el["st"] for el in c["chain"]]
    if "err" in io:
        if io["err"] == "RuntimeError" and "attack" in names and c["mode"] == "drain" and \
                "StopIteration" in io.get("errmsg", "") and \
                io.get("partial", [1] * len(names))[names.index("attack")] == 0:
            return "attack:empty-sustain:err:RuntimeError"      # the stream in front of attack delivered nothing
        if io.get("aux_tripped"):
            own = [a[0] for a in io.get("aux", []) if a[2] in io["aux_tripped"]]
            return "%s:aux-%s:over-read" % (names[own[0]] if own else names[0], io["aux_tripped"][0])
        return "%s:err:%s" % (names[0] if len(names) == 1 else "chain", io["err"])
    for vec in (io["c0"], io.get("c1", [])):
        if any(vec):
            i = next(k for k, v in enumerate(vec) if v)
            if i >= len(names):
                a = io["aux"][i - len(names)] if i - len(names) < len(io["aux"]) else None
                return "%s:aux-%s:reads-at-construction" % (names[a[0]] if a else names[0], a[2] if a else "?")
            return "%s:reads-at-construction" % names[i]
    want = drv["spec"] if c["mode"] != "drain" else drv["model"]
    if c["mode"] == "drain" and io["outs"] != drv["outs"] and \
            all(g == e[:len(g)] or g[:len(e)] == e for g, e in zip(io["levels"], want)):
        return "%s:finite-source-output-count" % (names[0] if len(names) == 1 else "chain")
    for i in reversed(range(len(io["levels"]))):      # blame the most downstream stage that misbehaves
        got, exp = io["levels"][i], want[i]
        exp = exp[:len(got)]
        if got != exp:
            j = next(k for k in range(len(got)) if k >= len(exp) or got[k] != exp[k])
            if j >= len(exp):
                return "%s:extra-outputs" % names[i]
            return "%s:%s" % (names[i], "over-read" if got[j] > exp[j] else "under-read")
    if c["mode"] != "drain":
        for a, (i, rule, name, got) in enumerate(io["aux"]):
            exp = drv["aux_spec"][a][:len(got)]
            if got != exp:
                j = next(k for k in range(len(got)) if k >= len(exp) or got[k] != exp[k])
                return "%s:aux-%s:%s" % (names[i], name, "over-read" if j >= len(exp) or got[j] > exp[j] else "under-read")
    return "%s:other" % names[0]
