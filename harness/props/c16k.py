"""C16 — (a) value AND Python type of every sample, identities of the containers (entry "streamix_k");
(b) a mutable zero (entry "streamix_mut").

streamix_k: {"keep", "zero": num, "ops": [{"op": "add", "delta", "dk", "data": [num…]} | next | keep:=b]}
  num = {"k": bool|int|frac|float|complex, "v": re, "i": im}.  The impl is stepped; after every operation
  we record what the caller saw (for a sample: type name, real and imaginary part), which OBJECTS are in
  `_not_playing` / `_playing` (object number = rank of its add among the accepted ones) and the frame's count.
  The driver runs the generator-level machine over `PyNum` (kind + exact value, Python's result type of `+`)
  and the spec; everything is compared exactly.  Regime: when a float / complex takes part every value of the
  case is a small dyadic, so binary floating point is exact.

streamix_mut: zero is a Python list, the items are lists; a sample is recorded as a snapshot of the list at the
  moment it is yielded (+ whether it IS the zero object).  Spec side: zero + items due (property); model side:
  the machine with the mutable cell (`krun`, theorem mutable_zero_accumulates).
"""
import itertools
from fractions import Fraction
import common
from common import enc, dec, err_kind

NEXT = {"op": "next"}
KINDS = ["bool", "int", "frac", "float", "complex"]
TNAME = {"bool": "bool", "int": "int", "frac": "Fraction", "float": "float", "complex": "complex"}
H = Fraction(1, 2)


# ----------------------------------------------------------------------------------------------
# values
# ----------------------------------------------------------------------------------------------
def num(k, v, i=0):
    return {"k": k, "v": enc(Fraction(v)), "i": enc(Fraction(i))}


def pyval(j):
    k, v, i = j["k"], dec(j["v"]), dec(j.get("i", 0))
    if k == "bool":
        return bool(int(v))
    if k == "int":
        return int(v)
    if k == "frac":
        return Fraction(v)
    if k == "float":
        return float(v)
    return complex(float(v), float(i))


def enc_py(v):
    t = type(v).__name__
    if isinstance(v, complex):
        return {"t": t, "v": enc(Fraction(v.real)), "i": enc(Fraction(v.imag))}
    if isinstance(v, bool):
        return {"t": t, "v": int(v), "i": 0}
    if isinstance(v, (int, float, Fraction)):
        return {"t": t, "v": enc(Fraction(v)), "i": 0}
    return {"t": t, "v": repr(v), "i": 0}


def _nums(c):
    yield c["zero"]
    for op in c["ops"]:
        if op["op"] == "add":
            for x in op["data"]:
                yield x


def valid(c):
    if c["entry"] == "streamix_mut":
        return all(abs(dec(op["delta"])) < 2 ** 20 and 64 % dec(op["delta"]).denominator == 0
                   for op in c["ops"] if op["op"] == "add")
    floaty = any(x["k"] in ("float", "complex") for x in _nums(c))
    for x in _nums(c):
        v, i = dec(x["v"]), dec(x.get("i", 0))
        if x["k"] == "bool" and v not in (0, 1):
            return False
        if x["k"] in ("bool", "int") and v.denominator != 1:
            return False
        if x["k"] != "complex" and i != 0:
            return False
        if floaty and not all(abs(y) < 2 ** 20 and 64 % y.denominator == 0 for y in (v, i)):
            return False
    nn = sum(1 for op in c["ops"] if op["op"] == "next")
    for op in c["ops"]:
        if op["op"] == "add":
            d = dec(op["delta"])
            if abs(d) >= 2 ** 20 or 64 % d.denominator != 0:
                return False
            if op.get("dk") in ("inf", "nan") and not d > nn + H:      # the model's stand-in: beyond the horizon
                return False
            if op.get("dk") == "-inf" and not d < 0:
                return False
    return True


# ----------------------------------------------------------------------------------------------
# generation
# ----------------------------------------------------------------------------------------------
def _add(delta, data, dk=None):
    d = Fraction(delta)
    return {"op": "add", "delta": enc(d), "dk": dk or ("int" if d.denominator == 1 else "float"), "data": list(data)}


def _drain(ops):
    T = Fraction(0)
    n = last = 0
    for op in ops:
        if op["op"] == "add":
            d = dec(op["delta"])
            if d >= 0:
                T += d
                last = max(last, max(int(T) + 1, n) + len(op["data"]))
        elif op["op"] == "next":
            n += 1
    return max(0, last - n) + 2


def _kcase(ops, zero, keep=False, drain=True, tag=None):
    ops = list(ops)
    if drain:
        ops += [NEXT] * _drain(ops)
    c = {"entry": "streamix_k", "keep": keep, "zero": zero, "ops": ops}
    if tag:
        c["tag"] = tag
    return c


def _item(rng, k, dyadic):
    if k == "bool":
        return num(k, rng.choice([0, 1, 1]))
    if k == "int":
        return num(k, rng.randint(-9, 9))
    if k == "frac":
        return num(k, Fraction(rng.randint(-20, 20), rng.choice([1, 2, 4, 8] if dyadic else [1, 2, 3, 5, 7])))
    if k == "float":
        return num(k, Fraction(rng.randint(-64, 64), rng.choice([1, 2, 4, 8])))
    return num(k, Fraction(rng.randint(-16, 16), rng.choice([1, 2, 4])), Fraction(rng.randint(-16, 16), rng.choice([1, 2, 4])))


ZEROS = [("bool", 0, 0), ("bool", 1, 0), ("int", 0, 0), ("int", -3, 0), ("int", 7, 0), ("frac", 0, 0),
         ("frac", Fraction(7, 2), 0), ("float", 0, 0), ("float", H, 0), ("complex", 0, 0), ("complex", 1, 2)]


def zero_item_grid(rng):
    """every zero spelling x every pair of item kinds; one idle sample in front, samples with one and with two
    items, idle samples behind (keep on)"""
    cases = []
    for zk, zv, zi in ZEROS:
        for k1, k2 in itertools.product(KINDS, repeat=2):
            dy = any(k in ("float", "complex") for k in (zk, k1, k2))
            ops = [_add(1, [_item(rng, k1, dy), _item(rng, k1, dy)]), _add(1, [_item(rng, k2, dy), _item(rng, k2, dy)])]
            cases.append(_kcase(ops + [NEXT] * 6, num(zk, zv, zi), keep=True, drain=False, tag="grid"))
    return cases


def _bits():
    k = [0]

    def nxt(n):
        r = [num("int", 1 << ((k[0] + i) % 18)) for i in range(n)]
        k[0] += n
        return r
    return nxt


def finish_together(rng, big=False):
    """groups of events that give their LAST item on the same sample (chords of equal-length notes, different
    starts and lengths ending together), other events going on or still pending; adds before playback, in
    the order of their start, same-start events shuffled; some events added late during playback"""
    bits = _bits()
    evs = []          # (start, length)
    ngroups = rng.choice([1, 1, 2, 3])
    for _ in range(ngroups):
        end = rng.randint(1, 9 if big else 6)
        size = rng.choice([2, 2, 3, 4])
        chord = rng.random() < 0.4
        s0 = rng.randint(0, end - 1)
        for _ in range(size):
            s = s0 if chord else rng.randint(0, end - 1)
            evs.append((s, end - s))
    for _ in range(rng.choice([0, 1, 1, 2])):           # others: continuing, empty, pending
        s = rng.randint(0, 8)
        evs.append((s, rng.choice([0, 1, 3, 12])))
    rng.shuffle(evs)
    evs.sort(key=lambda e: e[0])
    half = rng.random() < 0.3      # starts given through half-sample cumulative times: T = s + 1/2 rounds DOWN to s
    ops = []
    T = Fraction(0)
    n = 0
    late = rng.random() < 0.35
    for s, l in evs:
        if late and s > n and rng.random() < 0.5:
            k = rng.randint(1, s - n)
            ops.extend([NEXT] * k)
            n += k
        tgt = Fraction(s) + (H if half and rng.random() < 0.5 else 0)
        if tgt < T:
            tgt = T
        ops.append(_add(tgt - T, bits(l), dk=rng.choice(["float", "frac", "float"]) if (tgt - T).denominator != 1 else "int"))
        T = tgt
    zero = rng.choice([num("int", 0), num("int", 0), num("float", 0), num("frac", 0), num("int", -3)])
    return _kcase(ops, zero, keep=rng.random() < 0.25, tag="together")


def random_k(rng, big=False):
    dy = rng.random() < 0.5
    kinds = [k for k in KINDS if dy or k not in ("float", "complex")]
    zk = rng.choice(kinds)
    zero = _item(rng, zk, dy) if rng.random() < 0.5 else num(zk, 0)
    ops = []
    p_next = rng.choice([0.0, 0.3, 0.6])
    for _ in range(rng.randint(1, 24 if big else 10)):
        r = rng.random()
        if r < p_next:
            ops.extend([NEXT] * rng.choice([1, 1, 2, 3]))
        elif r < p_next + 0.05:
            ops.append({"op": "keep", "v": rng.random() < 0.5})
        elif r < p_next + 0.1:
            ops.append(_add(-Fraction(rng.randint(1, 8), rng.choice([1, 2, 4])), [_item(rng, rng.choice(kinds), dy)], dk="float"))
        else:
            d = rng.choice([0, 0, 0, H, 1, 1, 3 * H, 2, Fraction(rng.randint(0, 24), 4)])
            pure = rng.random() < 0.5
            k0 = rng.choice(kinds)
            ops.append(_add(d, [_item(rng, k0 if pure else rng.choice(kinds), dy) for _ in range(rng.choice([0, 1, 1, 2, 3, 5]))],
                            dk=rng.choice(["float", "frac"]) if Fraction(d).denominator != 1 else rng.choice(["int", "float"])))
    return _kcase(ops, zero, keep=rng.random() < 0.3, drain=rng.random() < 0.8, tag="random")


def _lists(rng, n, ctr):
    out = []
    for _ in range(n):
        m = rng.choice([0, 1, 1, 2])
        out.append(list(range(ctr[0], ctr[0] + m)))
        ctr[0] += m
    return out


def random_mut(rng, big=False):
    ctr = [1]
    ops = []
    p_next = rng.choice([0.0, 0.4])
    for _ in range(rng.randint(1, 8 if big else 5)):
        if rng.random() < p_next:
            ops.extend([NEXT] * rng.choice([1, 2]))
        else:
            d = rng.choice([0, 0, H, 1, 3 * H, 2])
            ops.append({"op": "add", "delta": enc(Fraction(d)), "dk": "int" if Fraction(d).denominator == 1 else "float",
                        "data": _lists(rng, rng.choice([0, 1, 2, 3]), ctr)})
    ops += [NEXT] * _drain(ops)
    return {"entry": "streamix_mut", "keep": rng.random() < 0.3, "zero": rng.choice([[], [], [0]]), "ops": ops}


def random_inf(rng, big=False):
    """an add with delta inf / nan (accepted; never reached: the queue behind it is blocked for ever, a mixer
    without keep never ends) or -inf (ValueError); the model gets a delta beyond the horizon of the history
    (number of nexts + 1; theorem beyond_horizon_never_starts)"""
    bits = _bits()
    ops = []
    for _ in range(rng.randint(0, 3)):
        ops.append(_add(rng.choice([0, 0, H, 1, 2]), bits(rng.choice([0, 1, 2, 4]))))
        if rng.random() < 0.3:
            ops.extend([NEXT] * rng.choice([1, 2]))
    pre = _drain(ops)
    ops.append(dict(_add(0, bits(rng.choice([0, 1, 2]))), dk=rng.choice(["inf", "inf", "nan", "-inf"])))
    for _ in range(rng.randint(0, 3)):
        if rng.random() < 0.4:
            ops.extend([NEXT] * rng.choice([1, 2]))
        else:
            ops.append(_add(rng.choice([0, 0, H, 1]), bits(rng.choice([0, 1, 2]))))
    ops.extend([NEXT] * (pre + rng.choice([0, 2, 5])))
    nn = sum(1 for op in ops if op["op"] == "next")
    for op in ops:
        if op.get("dk") in ("inf", "nan"):
            op["delta"] = nn + 1
        elif op.get("dk") == "-inf":
            op["delta"] = -1
    return _kcase(ops, rng.choice([num("int", 0), num("float", 0), num("int", 5)]), keep=rng.random() < 0.3, drain=False, tag="inf")


def generate(rng, tier, scale=1):
    cases = []
    if scale == 1:
        cases += zero_item_grid(rng)
        cases.append({"entry": "streamix_mut", "keep": False, "zero": [],
                      "ops": [{"op": "add", "delta": 0, "dk": "int", "data": [[1], [2]]}, NEXT, NEXT, NEXT]})
    n = (500 if tier == "quick" else 6000) * scale
    for i in range(n):
        cases.append(finish_together(rng, big=(i % 4 == 0)) if i % 2 == 0 else random_k(rng, big=(i % 4 == 1)))
    for i in range((40 if tier == "quick" else 400) * scale):
        cases.append(random_mut(rng, big=(i % 4 == 0)))
    for i in range((80 if tier == "quick" else 800) * scale):
        cases.append(random_inf(rng))
    return cases


# ----------------------------------------------------------------------------------------------
# the real code
# ----------------------------------------------------------------------------------------------
def _ids(objs, seq, pick):
    out = []
    for x in seq:
        out.append(objs.get(id(pick(x)), -1))
    return out


def _impl_k(c):
    from audiolazy import Streamix
    smix = Streamix(keep=c["keep"], zero=pyval(c["zero"]))
    it = iter(smix)
    objs, refs = {}, []
    res = []
    for op in c["ops"]:
        cnt = None
        if op["op"] == "add":
            try:
                smix.add(common_delta(op), [pyval(x) for x in op["data"]])
                o = "ok"
                snd = smix._not_playing[-1][1]
                refs.append(snd)
                objs[id(snd)] = len(refs) - 1
            except Exception as e:
                o = {"err": err_kind(e)}
        elif op["op"] == "next":
            qb = len(smix._not_playing)
            try:
                v = next(it)
                o = {"out": enc_py(v), "started": qb - len(smix._not_playing)}
            except StopIteration:
                o = "stop"
            except Exception as e:
                o = {"err": err_kind(e)}
        else:
            smix.keep = op["v"]
            o = "ok"
        fr = getattr(it, "gi_frame", None)
        if fr is not None and "count" in fr.f_locals:
            try:
                cnt = enc(fr.f_locals["count"])
            except TypeError:
                cnt = None
        res.append([o, _ids(objs, smix._not_playing, lambda p: p[1]), _ids(objs, smix._playing, lambda x: x), cnt])
    return {"steps": res}


def common_delta(op):
    d = dec(op["delta"])
    dk = op.get("dk", "int")
    if dk in ("inf", "nan", "-inf"):
        return float(dk)
    if dk == "float":
        return float(d)
    if dk == "frac":
        return Fraction(d)
    return int(d) if d.denominator == 1 else Fraction(d)


def _impl_mut(c):
    from audiolazy import Streamix
    zero = list(c["zero"])
    smix = Streamix(keep=c["keep"], zero=zero)
    it = iter(smix)
    res = []
    for op in c["ops"]:
        if op["op"] == "add":
            try:
                smix.add(common_delta(op), [list(x) for x in op["data"]])
                o = "ok"
            except Exception as e:
                o = {"err": err_kind(e)}
        elif op["op"] == "next":
            qb = len(smix._not_playing)
            try:
                v = next(it)
                o = {"out": list(v), "started": qb - len(smix._not_playing), "is_zero": v is zero}
            except StopIteration:
                o = "stop"
            except Exception as e:
                o = {"err": err_kind(e)}
        else:
            smix.keep = op["v"]
            o = "ok"
        res.append(o)
    return {"steps": res, "zero_after": list(zero)}


def impl(c):
    return _impl_mut(c) if c["entry"] == "streamix_mut" else _impl_k(c)


def request(c):
    ops = []
    for op in c["ops"]:
        if op["op"] == "add":
            ops.append({"op": "add", "delta": op["delta"], "data": op["data"]})
        else:
            ops.append(op)
    return {"entry": c["entry"], "keep": c["keep"], "zero": c["zero"], "ops": ops}


# ----------------------------------------------------------------------------------------------
# comparison
# ----------------------------------------------------------------------------------------------
def _num_eq(a, b):
    """a: impl {"t","v","i"}, b: Lean {"t","v","i"} -> None or what differs"""
    try:
        if dec(a["v"]) != dec(b["v"]) or dec(a["i"]) != dec(b["i"]):
            return "value"
    except (TypeError, ValueError):
        return "value"
    if a["t"] != b["t"]:
        return "type"
    return None


def _obs_diff(a, b):
    if isinstance(a, dict) and isinstance(b, dict):
        if "out" in a and "out" in b:
            d = _num_eq(a["out"], b["out"])
            if d:
                return d
            return None if a["started"] == b["started"] else "started"
        if a.get("err") is not None and a.get("err") == b.get("err"):
            return None
        return "kind"
    return None if a == b else "kind"


def _k_diffs(c, io, drv):
    dm = ds = None
    for k, (st, mo) in enumerate(zip(io["steps"], drv["model"])):
        d = _obs_diff(st[0], mo[0])
        if d is None and st[1] != mo[1]:
            d = "_not_playing objects"
        if d is None and st[2] != mo[2]:
            d = "_playing objects"
        if d is None and st[3] is not None and mo[3] is not None and dec(st[3]) != dec(mo[3]):
            d = "count"
        if d is not None:
            dm = (k, d)
            break
    for k, (st, so) in enumerate(zip(io["steps"], drv["spec"])):
        d = _obs_diff(st[0], so)
        if d is not None:
            ds = (k, d)
            break
    return dm, ds


def _mut_same(a, b):
    if isinstance(a, dict) and isinstance(b, dict):
        if "out" in a and "out" in b:
            return a["out"] == b["out"] and a["started"] == b["started"]
        return a.get("err") is not None and a.get("err") == b.get("err")
    return a == b


def _mut_first(io, obs):
    for k, (a, b) in enumerate(zip(io["steps"], obs)):
        if not _mut_same(a, b):
            return k
    return None


def compare(c, io, drv):
    if "err" in io:
        return [("model", "impl raised " + io["err"]), ("spec", "impl raised " + io["err"])]
    out = []
    if c["entry"] == "streamix_mut":
        if len(io["steps"]) != len(drv["spec"]):
            return [("model", "step count differs")]
        ks = _mut_first(io, drv["spec"])
        km = _mut_first(io, drv["mut"])
        if ks is not None:
            out.append(("spec", "step %d: with the list zero %r the sample is %r, zero + the items due is %r" % (
                ks, c["zero"], io["steps"][ks], drv["spec"][ks])))
            if km is not None:
                out.append(("model", "step %d: impl=%r, the machine with a mutable zero shows %r" % (km, io["steps"][km], drv["mut"][km])))
        if drv["mut"] != drv["mutspec"]:
            out.append(("model", "krun and ksrun differ (theorem mutable_zero_accumulates)"))
        return out
    if len(io["steps"]) != len(drv["model"]) or len(io["steps"]) != len(drv["spec"]):
        return [("model", "step count differs")]
    dm, ds = _k_diffs(c, io, drv)
    if dm is not None:
        k, what = dm
        out.append(("model", "step %d (%s): %s differs: impl=%r model=%r" % (k, c["ops"][k]["op"], what, io["steps"][k], drv["model"][k])))
    if ds is not None:
        k, what = ds
        out.append(("spec", "step %d (%s): %s differs: impl=%r spec=%r (zero=%r, starts=%r)" % (
            k, c["ops"][k]["op"], what, io["steps"][k][0], drv["spec"][k], c["zero"], drv.get("starts"))))
    return out


def classify(c, io, drv):
    if "err" in io:
        return c["entry"] + ":" + io["err"]
    if c["entry"] == "streamix_mut":
        ks = _mut_first(io, drv["spec"])
        km = _mut_first(io, drv["mut"])
        if ks is not None and km is None:
            return "mut:list-zero-extended-in-place"
        return "mut:other" if ks is not None else "mut:none"
    dm, ds = _k_diffs(c, io, drv)
    if ds is not None:
        return "k:%s:spec-%s" % (c["ops"][ds[0]]["op"], ds[1])
    if dm is not None:
        return "k:%s:model-%s" % (c["ops"][dm[0]]["op"], dm[1])
    return "k:none"


def nontrivial(c, io):
    if "err" in io:
        return False
    if c["entry"] == "streamix_mut":
        return any(isinstance(o, dict) and "out" in o for o in io["steps"])
    return any(st[0] == "stop" or (isinstance(st[0], dict) and ("err" in st[0] or st[2])) for st in io["steps"])


def tally(eng, c, io):
    if "err" in io:
        eng.count("impl_error", io["err"])
        return
    if c["entry"] == "streamix_mut":
        eng.count("mut_zero", "empty" if not c["zero"] else "nonempty")
        eng.count("mut_sample_is_zero_object", sum(1 for o in io["steps"] if isinstance(o, dict) and o.get("is_zero")) > 0)
        return
    eng.count("k_tag", c.get("tag", "?"))
    for op, st in zip(c["ops"], io["steps"]):
        if op.get("dk") in ("inf", "nan", "-inf"):
            eng.count("k_delta_nonfinite", "%s -> %s" % (op["dk"], st[0] if isinstance(st[0], str) else st[0].get("err")))
    eng.count("k_zero", c["zero"]["k"] + ("" if dec(c["zero"]["v"]) == 0 and dec(c["zero"].get("i", 0)) == 0 else "-nonzero"))
    prev = []
    maxfin = 0
    cont = False
    for st in io["steps"]:
        o = st[0]
        if isinstance(o, dict) and "out" in o:
            fin = [x for x in prev if x not in st[2]]
            if len(fin) >= 2:
                maxfin = max(maxfin, len(fin))
                if st[2]:
                    cont = True
            playing = bool(st[2]) or bool(fin)
            eng.count("k_sample", "%s zero, %s -> %s" % (TNAME[c["zero"]["k"]], "playing" if playing else "idle", o["out"]["t"]))
        prev = st[2]
    eng.count("k_max_finished_on_one_sample", min(maxfin, 5))
    if maxfin >= 2:
        eng.count("k_finished_together_with_others_continuing", cont)


# ----------------------------------------------------------------------------------------------
# shrinking / neighbours
# ----------------------------------------------------------------------------------------------
def shrink(c):
    ops = c["ops"]
    n = len(ops)
    for k in (n // 2, n - 1, n - 2):
        if 0 < k < n:
            yield dict(c, ops=ops[:k])
    for i in range(n):
        yield dict(c, ops=ops[:i] + ops[i + 1:])
    for i, op in enumerate(ops):
        if op["op"] == "add" and op["data"]:
            yield dict(c, ops=ops[:i] + [dict(op, data=op["data"][:-1])] + ops[i + 1:])
            d = dec(op["delta"])
            if d > 0:
                yield dict(c, ops=ops[:i] + [dict(op, delta=0, dk="int")] + ops[i + 1:])
    if c["entry"] == "streamix_mut" and c["zero"]:
        yield dict(c, zero=[])


def neighbours(c):
    ops = c["ops"]
    yield dict(c, keep=not c["keep"])
    yield dict(c, ops=ops + [NEXT, NEXT])
    if c["entry"] == "streamix_k":
        for zk, zv, zi in ZEROS:
            yield dict(c, zero=num(zk, zv, zi))
