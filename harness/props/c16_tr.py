"""C16 — translator of the code of `Streamix` and `ControlStream` (audiolazy/lazy_stream.py) into the vocabulary of the
generator-level machines `lean/ALV/Model/C16Gen.lean` / `C16X.lean`.

Reads the SOURCE TEXT with `ast` (nothing is imported from the repo) and writes `lean/ALV/Gen/C16Src.lean`:

    Streamix.__init__                     -> init, keepDefault, zeroDefault            (containers, keep, the prologue `count = 0.5`)
    data_generator (closure)              -> startLoop, sumLoop, removeLoop, next     (no exceptions: Model/C16Gen)
                                             xsumLoop, xnext                           (the same statements, exceptions: Model/C16X)
    Streamix.add                          -> add, xadd, xaddFail                       (validation order)
    ControlStream.__init__ + its closure  -> cinit, cread

`ALV.Props.C16.src_*_is_model` prove every generated definition equal to the hand-written model function, so the
theorems about the model are theorems about what the source says NOW.

How a generator becomes a step function (trusted reading of Python, see TRUSTED in c16.py):
  * one `next()` runs from the resumption point to the next `yield` (-> `.out`) or to the end of the generator
    (`break` out of `while True` with nothing behind the loop -> `.stop`, generator finished);
  * the statements before `while True` run once, before anything reads their targets: they are the initial frame
    (`count` goes into `init`; `to_remove = []` is the emptiness fact below);
  * the statements after the `yield` run at the RESUMPTION (`if s.suspended`);
  * a local that is live across the yield must be a field of the model's frame: only the clock (`count`) is; `data`
    must be assigned before it is read in every trip; `to_remove` must be provably empty at the yield (appended to only
    by the handler of the summing loop, emptied by the removal block) — anything else is a TranslationError;
  * every statement of the loop body is translated on its own, in source order, as a `let` over the frame
    (count, notPlaying, playing, data, toRemove); the three inner loops become structural recursions over the
    list they consume (queue head popped by `popleft`; `for` over a list).

Local variable names are normalised by role (clock, removal list, accumulator, loop variables), comments, docstrings
and layout do not reach the output.  Everything outside the subset raises TranslationError (= broken obligation).
"""
import ast
import os
from fractions import Fraction

import common

GEN_REL = os.path.join("ALV", "Gen", "C16Src.lean")
SRC_FILE = "lazy_stream.py"

TRANSLATED = {
    "Streamix.__init__": "shallow -> ALV.Gen.C16.init / keepDefault / zeroDefault (src_init_is_model, src_defaults_are_documented)",
    "Streamix.__init__.data_generator": "shallow, statement by statement -> ALV.Gen.C16.startLoop / sumLoop / removeLoop / next "
                                        "(src_startLoop_is_model, src_sumLoop_is_model, src_removeLoop_is_model, src_next_is_model) and, "
                                        "the same statements with exceptions, xsumLoop / xnext (src_xsumLoop_is_model, src_xnext_is_model); "
                                        "sumInPlace (src_sum_builds_new_object)",
    "Streamix.add": "shallow -> ALV.Gen.C16.add / xadd / xaddFail (src_add_is_model, src_xadd_is_model, src_xaddFail_is_model)",
    "ControlStream.__init__ (+ data_generator)": "shallow -> ALV.Gen.C16.cinit / cread (src_control_is_model)",
}
NOT_TRANSLATED = {
    "Stream.__init__ / Stream.__iter__ / Stream.__next__ (what super().__init__(data_generator()) and next(smix) go through)":
        "belongs to C03 (Stream as a lazy sequence); here one next() on the mixer is one next() on the generator",
    "assignment `smix.keep = b` / `cs.value = v` (Op.setKeep, COp.set)": "plain attribute stores, no function body to translate",
    "the fused machine ALV.Model.C16 (mstep) and the specification ALV.Spec.C16": "not code shaped; tied to the generator-level "
        "machine by theorems (generator_eq_fused, streamix_model_eq_spec)",
    "ALV.Model.C16K.kstep (a mutable zero object)": "semantics of in-place `+=` on a list object, not a function of the repo; the "
        "translator only reports which spelling the summing statement uses (sumInPlace)",
    "StreamTeeHub.__iter__, deque / list / iter / next themselves": "library vocabulary (popleft = head of the queue, append = "
        "at the end, list.remove = first element with that identity, iter(data) = a fresh iterator object)",
}


class TranslationError(Exception):
    pass


def _fail(node, msg):
    raise TranslationError("%s (line %s)" % (msg, getattr(node, "lineno", "?")))


# ----------------------------------------------------------------------------------------------
# small helpers over ast
# ----------------------------------------------------------------------------------------------
def _strip_doc(body):
    if body and isinstance(body[0], ast.Expr) and isinstance(body[0].value, ast.Constant) and isinstance(body[0].value.value, str):
        return body[1:]
    return body


def _is_self_attr(node, name=None):
    return (isinstance(node, ast.Attribute) and isinstance(node.value, ast.Name) and node.value.id == "self"
            and (name is None or node.attr == name))


def _is_name(node, name=None):
    return isinstance(node, ast.Name) and (name is None or node.id == name)


def _method_call(node, recv_test, meth, nargs):
    """node is `<recv>.<meth>(a1..an)` -> args or None"""
    if (isinstance(node, ast.Call) and isinstance(node.func, ast.Attribute) and node.func.attr == meth
            and recv_test(node.func.value) and len(node.args) == nargs and not node.keywords):
        return node.args
    return None


def _plain_call(node, fname, nargs):
    if (isinstance(node, ast.Call) and _is_name(node.func, fname) and len(node.args) == nargs and not node.keywords):
        return node.args
    return None


def _rat(v, node=None):
    if isinstance(v, bool) or not isinstance(v, (int, float)):
        _fail(node, "constant %r is not a number" % (v,))
    if isinstance(v, float) and (v != v or abs(v) == float("inf")):
        _fail(node, "constant %r is not finite" % (v,))
    q = Fraction(v)
    if q.denominator == 1:
        return "%d" % q.numerator if q >= 0 else "(%d)" % q.numerator
    return "(%d/%d : Rat)" % (q.numerator, q.denominator)


CMP = {ast.GtE: "≥", ast.Gt: ">", ast.LtE: "≤", ast.Lt: "<", ast.Eq: "=", ast.NotEq: "≠"}
BIN = {ast.Add: "+", ast.Sub: "-", ast.Mult: "*"}

QUEUE, PLAYING, KEEP = "_not_playing", "_playing", "keep"


class Scalars:
    """translation of clock expressions; `env` maps Python names to Lean names of Rat-valued locals"""

    def __init__(self, env, head=None):
        self.env = env
        self.head = head          # Lean name of the head of the queue where `self._not_playing[0][k]` may be read

    def expr(self, n):
        if isinstance(n, ast.Constant):
            return _rat(n.value, n)
        if isinstance(n, ast.Name):
            if n.id in self.env:
                return self.env[n.id]
            _fail(n, "name %r is not a clock-valued local here" % n.id)
        if isinstance(n, ast.BinOp) and type(n.op) in BIN:
            return "(%s %s %s)" % (self.expr(n.left), BIN[type(n.op)], self.expr(n.right))
        if isinstance(n, ast.UnaryOp) and isinstance(n.op, ast.USub):
            return "(-%s)" % self.expr(n.operand)
        if isinstance(n, ast.UnaryOp) and isinstance(n.op, ast.UAdd):
            return self.expr(n.operand)
        # self._not_playing[0][0]: delta of the first waiting event
        if (self.head and isinstance(n, ast.Subscript) and isinstance(n.value, ast.Subscript)
                and _is_self_attr(n.value.value, QUEUE)
                and isinstance(n.value.slice, ast.Constant) and n.value.slice.value == 0 and not isinstance(n.value.slice.value, bool)
                and isinstance(n.slice, ast.Constant) and n.slice.value == 0 and not isinstance(n.slice.value, bool)):
            return "%s.1" % self.head
        _fail(n, "clock expression not understood: %s" % ast.dump(n)[:100])

    def compare(self, n):
        if not (isinstance(n, ast.Compare) and len(n.ops) == 1 and type(n.ops[0]) in CMP):
            _fail(n, "comparison not understood: %s" % ast.dump(n)[:100])
        return "%s %s %s" % (self.expr(n.left), CMP[type(n.ops[0])], self.expr(n.comparators[0]))


def _unparen(s):
    """drop one pair of outer parentheses of a Lean term produced by Scalars.expr"""
    if s.startswith("(") and s.endswith(")") and ":" not in s:
        depth = 0
        for i, ch in enumerate(s):
            depth += ch == "("
            depth -= ch == ")"
            if depth == 0 and i < len(s) - 1:
                return s
        return s[1:-1]
    return s


# ----------------------------------------------------------------------------------------------
# reading the classes
# ----------------------------------------------------------------------------------------------
def _class(tree, name):
    found = [n for n in tree.body if isinstance(n, ast.ClassDef) and n.name == name]
    if len(found) != 1:
        raise TranslationError("class %s: found %d definitions" % (name, len(found)))
    return found[0]


def _method(cls, name):
    found = [n for n in cls.body if isinstance(n, ast.FunctionDef) and n.name == name]
    if len(found) != 1:
        raise TranslationError("%s.%s: found %d definitions" % (cls.name, name, len(found)))
    if found[0].decorator_list:
        _fail(found[0], "%s.%s is decorated" % (cls.name, name))
    return found[0]


def _params(fn, expect):
    a = fn.args
    if a.vararg or a.kwarg or a.kwonlyargs or getattr(a, "posonlyargs", None):
        _fail(fn, "%s: *args / **kwargs / keyword-only / positional-only parameters" % fn.name)
    names = [p.arg for p in a.args]
    if names != expect:
        _fail(fn, "%s: parameters %r, expected %r" % (fn.name, names, expect))
    return a.defaults


def _ctor_with_generator(cls, fn):
    """`__init__` = attribute stores, ONE closure `def g(): …`, and `super(C, self).__init__(g())` as the last statement.
    -> (stores [(attr, value node)], generator FunctionDef)"""
    body = _strip_doc(fn.body)
    stores, gen = [], None
    if not body:
        _fail(fn, "empty __init__")
    for st in body[:-1]:
        if isinstance(st, ast.FunctionDef):
            if gen is not None:
                _fail(st, "two closures in %s.__init__" % cls.name)
            if st.args.args or st.args.vararg or st.args.kwarg or st.args.kwonlyargs or st.decorator_list:
                _fail(st, "the generator closure takes parameters / is decorated")
            gen = st
        elif (isinstance(st, ast.Assign) and len(st.targets) == 1 and _is_self_attr(st.targets[0])):
            stores.append((st.targets[0].attr, st.value))
        else:
            _fail(st, "%s.__init__: statement not understood: %s" % (cls.name, ast.dump(st)[:100]))
    last = body[-1]
    ok = False
    if gen is not None and isinstance(last, ast.Expr):
        args = _method_call(last.value, lambda r: (isinstance(r, ast.Call) and _is_name(r.func, "super")
                                                    and ((len(r.args) == 2 and _is_name(r.args[0], cls.name) and _is_name(r.args[1], "self"))
                                                         or len(r.args) == 0) and not r.keywords), "__init__", 1)
        if args is not None and _plain_call(args[0], gen.name, 0) is not None:
            ok = True
    if not ok:
        _fail(last, "%s.__init__ does not end with super().__init__(<closure>())" % cls.name)
    return stores, gen


# ----------------------------------------------------------------------------------------------
# Streamix: the IR
# ----------------------------------------------------------------------------------------------
class Mixer:
    """everything the emitter needs, as plain data (strings are Lean terms)"""


def read_streamix(tree):
    m = Mixer()
    cls = _class(tree, "Streamix")
    init = _method(cls, "__init__")
    defaults = _params(init, ["self", "keep", "zero"])
    if len(defaults) != 2:
        _fail(init, "Streamix.__init__: expected defaults for keep and zero")
    kd, zd = defaults
    if not (isinstance(kd, ast.Constant) and isinstance(kd.value, bool)):
        _fail(kd, "default of keep is not a bool literal")
    m.keep_default = "true" if kd.value else "false"
    if not (isinstance(zd, ast.Constant) and isinstance(zd.value, (int, float)) and not isinstance(zd.value, bool)):
        _fail(zd, "default of zero is not a number literal")
    m.zero_default = _rat(zd.value, zd)
    m.zero_default_is_float = "true" if isinstance(zd.value, float) else "false"

    stores, gen = _ctor_with_generator(cls, init)
    # --- the containers and keep
    seen = {}
    for attr, val in stores:
        if attr in seen:
            _fail(val, "self.%s assigned twice in __init__" % attr)
        if attr == QUEUE:
            if _plain_call(val, "deque", 0) is None:
                _fail(val, "self._not_playing is not initialised with deque()")
            seen[attr] = "[]"
        elif attr == PLAYING:
            if not (isinstance(val, ast.List) and not val.elts):
                _fail(val, "self._playing is not initialised with []")
            seen[attr] = "[]"
        elif attr == KEEP:
            if not _is_name(val, "keep"):
                _fail(val, "self.keep is not initialised with the parameter keep")
            seen[attr] = "keep"
        else:
            _fail(val, "unexpected attribute self.%s in Streamix.__init__" % attr)
    for a in (QUEUE, PLAYING, KEEP):
        if a not in seen:
            _fail(init, "Streamix.__init__ does not initialise self.%s" % a)
    m.init_fields = seen
    _read_generator(m, gen)
    _read_add(m, _method(cls, "add"))
    return m


def _read_generator(m, gen):
    if any(isinstance(n, (ast.Global, ast.Nonlocal, ast.YieldFrom, ast.Return, ast.Lambda, ast.With, ast.Delete,
                          ast.FunctionDef, ast.ClassDef, ast.Import, ast.ImportFrom, ast.Continue))
           for st in gen.body for n in ast.walk(st)):
        _fail(gen, "data_generator uses a statement outside the subset")
    body = _strip_doc(gen.body)
    if not body or not isinstance(body[-1], ast.While):
        _fail(gen, "data_generator does not end with the `while True` loop")
    loop = body[-1]
    if not (isinstance(loop.test, ast.Constant) and loop.test.value is True and not loop.orelse):
        _fail(loop, "outer loop is not `while True:` without else")
    # --- prologue: clock = <number>, removal list = []
    clock = removal = None
    for st in body[:-1]:
        if not (isinstance(st, ast.Assign) and len(st.targets) == 1 and isinstance(st.targets[0], ast.Name)):
            _fail(st, "prologue statement not understood: %s" % ast.dump(st)[:100])
        name, val = st.targets[0].id, st.value
        if isinstance(val, ast.Constant) and isinstance(val.value, (int, float)) and not isinstance(val.value, bool):
            if clock is not None:
                _fail(st, "two numeric locals in the prologue")
            clock = name
            m.count0 = _rat(val.value, val)
        elif isinstance(val, ast.List) and not val.elts:
            if removal is not None:
                _fail(st, "two list locals in the prologue")
            removal = name
        else:
            _fail(st, "prologue value not understood: %s" % ast.dump(val)[:100])
    if clock is None or removal is None or clock == removal:
        _fail(gen, "prologue must initialise the clock (a number) and the removal list ([])")
    if clock in ("zero", "keep", "self") or removal in ("zero", "keep", "self"):
        _fail(gen, "a local shadows a closure variable")

    st = _Frame(m, clock, removal)
    stmts = list(loop.body)
    i = 0
    m.chain = []            # [(kind, payload)] in source order, up to and including the yield
    m.post = []             # clock updates after the yield
    while i < len(stmts):
        s = stmts[i]
        i += 1
        if isinstance(s, ast.Expr) and isinstance(s.value, ast.Yield):
            st.do_yield(s)
            break
        st.statement(s)
    else:
        _fail(loop, "no `yield` at the top level of the `while True` body")
    for s in stmts[i:]:
        st.post_statement(s)
    for kind in ("start", "sum", "prune"):
        if sum(1 for k, _ in m.chain if k == kind) != 1:
            _fail(loop, "expected exactly one %s loop in the body, found %d" % (kind, sum(1 for k, _ in m.chain if k == kind)))


class _Frame:
    """abstract state of the translation of one trip round `while True`"""

    def __init__(self, m, clock, removal):
        self.m = m
        self.clock, self.removal = clock, removal
        self.acc = None                 # Python name of the accumulator (the local that is yielded), known once assigned
        self.acc_bound = False
        self.removal_empty = True       # fact: the removal list is [] here
        self.loopvars = set()           # locals of the inner loops: not readable outside them

    # -- helpers
    def scal(self, head=None, extra=None):
        env = {self.clock: "count"}
        if extra:
            env.update(extra)
        return Scalars(env, head)

    def statement(self, s):
        m = self.m
        # 1. the start loop
        if isinstance(s, ast.While):
            m.chain.append(("start", self.start_loop(s)))
            return
        # 2. accumulator := zero
        if isinstance(s, ast.Assign) and len(s.targets) == 1 and isinstance(s.targets[0], ast.Name):
            name = s.targets[0].id
            if name == self.clock:
                m.chain.append(("clock", _unparen(self.scal().expr(s.value))))
                return
            if name == self.removal:
                if isinstance(s.value, ast.List) and not s.value.elts:
                    self.removal_empty = True
                    m.chain.append(("clear", None))
                    return
                _fail(s, "the removal list is assigned something that is not []")
            if name in ("zero", "keep", "self") or name in self.loopvars:
                _fail(s, "assignment to %r" % name)
            if not _is_name(s.value, "zero"):
                _fail(s, "the accumulator is initialised with something that is not the closure variable zero")
            if self.acc not in (None, name):
                _fail(s, "two accumulators (%r, %r)" % (self.acc, name))
            self.acc, self.acc_bound = name, True
            m.chain.append(("zero", None))
            return
        if isinstance(s, ast.AugAssign) and _is_name(s.target, self.clock) and type(s.op) in BIN:
            m.chain.append(("clock", "count %s %s" % (BIN[type(s.op)], self.scal().expr(s.value))))
            return
        # 3. the summing loop
        if isinstance(s, ast.For):
            if _is_self_attr(s.iter, PLAYING):
                m.chain.append(("sum", self.sum_loop(s)))
                return
            if _is_name(s.iter, self.removal):
                self.prune_for(s)
                m.chain.append(("prune", {"guarded": False}))
                return
            _fail(s, "for loop over something that is not self._playing / the removal list")
        if isinstance(s, ast.If):
            # 4. `if to_remove: for …: remove; to_remove = []`
            if _is_name(s.test, self.removal):
                if s.orelse:
                    _fail(s, "`if <removal list>:` with an else branch")
                inner = list(s.body)
                if not (inner and isinstance(inner[0], ast.For) and _is_name(inner[0].iter, self.removal)):
                    _fail(s, "`if <removal list>:` does not start with the removal loop")
                self.prune_for(inner[0])
                was_empty_outside = self.removal_empty
                cleared = False
                for t in inner[1:]:
                    if (isinstance(t, ast.Assign) and len(t.targets) == 1 and _is_name(t.targets[0], self.removal)
                            and isinstance(t.value, ast.List) and not t.value.elts):
                        cleared = True
                    else:
                        _fail(t, "statement in the removal block not understood: %s" % ast.dump(t)[:100])
                # the list is falsy (= []) when the block is skipped; after the block it is [] only if it was cleared
                self.removal_empty = cleared or was_empty_outside
                m.chain.append(("prune", {"guarded": True}))
                return
            # 5. `if not (keep or playing or waiting): break`
            if len(s.body) == 1 and isinstance(s.body[0], ast.Break) and not s.orelse:
                m.chain.append(("break", self.truth(s.test)))
                return
            _fail(s, "`if` not understood: %s" % ast.dump(s.test)[:100])
        _fail(s, "statement not understood: %s" % ast.dump(s)[:100])

    # -- `while self._not_playing and (count CMP self._not_playing[0][0]): a, b = self._not_playing.popleft(); …`
    def start_loop(self, s):
        if s.orelse:
            _fail(s, "while … else")
        t = s.test
        if not (isinstance(t, ast.BoolOp) and isinstance(t.op, ast.And) and len(t.values) == 2 and _is_self_attr(t.values[0], QUEUE)):
            _fail(s, "start loop: the condition is not `self._not_playing and <comparison>`")
        cond = self.scal(head="hd").compare(t.values[1])
        body = list(s.body)
        if not body:
            _fail(s, "start loop: empty body")
        u = body[0]
        if not (isinstance(u, ast.Assign) and len(u.targets) == 1 and isinstance(u.targets[0], ast.Tuple)
                and len(u.targets[0].elts) == 2 and all(isinstance(e, ast.Name) for e in u.targets[0].elts)
                and _method_call(u.value, lambda r: _is_self_attr(r, QUEUE), "popleft", 0) is not None):
            _fail(u, "start loop: the body does not begin with `<delta>, <event> = self._not_playing.popleft()`")
        dname, ename = (e.id for e in u.targets[0].elts)
        if len({dname, ename, self.clock, self.removal}) != 4 or dname in ("zero", "keep", "self") or ename in ("zero", "keep", "self"):
            _fail(u, "start loop: name clash in the unpacking")
        self.loopvars |= {dname, ename}
        sc = self.scal(extra={dname: "delta"})
        lets = []
        for b in body[1:]:
            if isinstance(b, ast.Expr):
                args = _method_call(b.value, lambda r: _is_self_attr(r, PLAYING), "append", 1)
                if args is not None and _is_name(args[0], ename):
                    lets.append(("playing", "playing ++ [newdata]"))
                    continue
                _fail(b, "start loop: call not understood: %s" % ast.dump(b.value)[:100])
            if isinstance(b, ast.AugAssign) and _is_name(b.target, self.clock) and type(b.op) in BIN:
                lets.append(("count", "count %s %s" % (BIN[type(b.op)], sc.expr(b.value))))
                continue
            if isinstance(b, ast.Assign) and len(b.targets) == 1 and _is_name(b.targets[0], self.clock):
                lets.append(("count", _unparen(sc.expr(b.value))))
                continue
            _fail(b, "start loop: statement not understood: %s" % ast.dump(b)[:100])
        return {"cond": cond, "lets": lets}

    # -- `for snd in self._playing: try: data = data + next(snd) except StopIteration: to_remove.append(snd)`
    def sum_loop(self, s):
        if s.orelse or not isinstance(s.target, ast.Name):
            _fail(s, "summing loop: else branch / target is not a name")
        v = s.target.id
        if v in (self.clock, self.removal, self.acc, "zero", "keep", "self"):
            _fail(s, "summing loop: the loop variable shadows %r" % v)
        self.loopvars.add(v)
        if not self.acc_bound:
            _fail(s, "summing loop: the accumulator is read before `= zero` in this trip (it would be live across the yield)")
        if not self.removal_empty:
            _fail(s, "summing loop: the removal list is not known to be empty here")
        if not (len(s.body) == 1 and isinstance(s.body[0], ast.Try)):
            _fail(s, "summing loop: the body is not one try statement")
        tr = s.body[0]
        if tr.orelse or tr.finalbody or len(tr.handlers) != 1 or len(tr.body) != 1:
            _fail(tr, "summing loop: try with else / finally / several handlers / several statements")
        h = tr.handlers[0]
        if not (_is_name(h.type, "StopIteration") and h.name is None):
            _fail(h, "summing loop: the handler is not `except StopIteration:`")
        appends = None
        if len(h.body) == 1 and isinstance(h.body[0], ast.Pass):
            appends = False
        elif len(h.body) == 1 and isinstance(h.body[0], ast.Expr):
            args = _method_call(h.body[0].value, lambda r: _is_name(r, self.removal), "append", 1)
            if args is not None and _is_name(args[0], v):
                appends = True
        if appends is None:
            _fail(h, "summing loop: handler body not understood")
        if appends:
            self.removal_empty = False
        a = tr.body[0]
        nxt = lambda n: _plain_call(n, "next", 1) is not None and _is_name(n.args[0], v)
        inplace = None
        if isinstance(a, ast.AugAssign) and _is_name(a.target, self.acc) and isinstance(a.op, ast.Add) and nxt(a.value):
            inplace, data_left = True, True
        elif (isinstance(a, ast.Assign) and len(a.targets) == 1 and _is_name(a.targets[0], self.acc)
              and isinstance(a.value, ast.BinOp) and isinstance(a.value.op, ast.Add)):
            l, r = a.value.left, a.value.right
            if _is_name(l, self.acc) and nxt(r):
                inplace, data_left = False, True
            elif nxt(l) and _is_name(r, self.acc):
                inplace, data_left = False, False
        if inplace is None:
            _fail(a, "summing loop: the statement is not `data = data + next(snd)` / `data += next(snd)`")
        return {"data_left": data_left, "inplace": inplace, "appends": appends}

    # -- `for snd in to_remove: self._playing.remove(snd)`
    def prune_for(self, f):
        if f.orelse or not isinstance(f.target, ast.Name):
            _fail(f, "removal loop: else branch / target is not a name")
        v = f.target.id
        if v in (self.clock, self.removal, self.acc, "zero", "keep", "self"):
            _fail(f, "removal loop: the loop variable shadows %r" % v)
        self.loopvars.add(v)
        ok = (len(f.body) == 1 and isinstance(f.body[0], ast.Expr)
              and (_method_call(f.body[0].value, lambda r: _is_self_attr(r, PLAYING), "remove", 1) or [None])[0] is not None
              and _is_name(f.body[0].value.args[0], v))
        if not ok:
            _fail(f, "removal loop: the body is not `self._playing.remove(<loop variable>)`")

    # -- truth value of the stop test
    def truth(self, n):
        if isinstance(n, ast.UnaryOp) and isinstance(n.op, ast.Not):
            return "!%s" % self.truth(n.operand)
        if isinstance(n, ast.BoolOp):
            op = " || " if isinstance(n.op, ast.Or) else " && "
            return "(%s)" % op.join(self.truth(v) for v in n.values)
        if _is_self_attr(n, KEEP):
            return "s.keep"
        if _is_self_attr(n, PLAYING):
            return "!playing.isEmpty"
        if _is_self_attr(n, QUEUE):
            return "!notPlaying.isEmpty"
        if _is_name(n, "keep"):
            _fail(n, "the stop test reads the closure variable `keep` (the constructor's argument), not the attribute self.keep")
        _fail(n, "stop test: operand not understood: %s" % ast.dump(n)[:100])

    def do_yield(self, s):
        y = s.value.value
        if not (isinstance(y, ast.Name) and y.id == self.acc and self.acc_bound):
            _fail(s, "the yielded value is not the accumulator assigned in this trip")
        if not self.removal_empty:
            _fail(s, "the removal list is not known to be empty at the yield (it is not part of the model's frame)")
        if not any(k == "break" for k, _ in self.m.chain):
            _fail(s, "no stop test (`if …: break`) before the yield")
        self.m.chain.append(("yield", None))

    def post_statement(self, s):
        if isinstance(s, ast.AugAssign) and _is_name(s.target, self.clock) and type(s.op) in BIN:
            self.m.post.append("count %s %s" % (BIN[type(s.op)], self.scal().expr(s.value)))
            return
        if isinstance(s, ast.Assign) and len(s.targets) == 1 and _is_name(s.targets[0], self.clock):
            self.m.post.append(_unparen(self.scal().expr(s.value)))
            return
        _fail(s, "statement after the yield is not an update of the clock: %s" % ast.dump(s)[:100])


def _read_add(m, fn):
    _params(fn, ["self", "delta", "data"])
    if fn.args.defaults:
        _fail(fn, "Streamix.add has default values")
    m.add = []          # [("reject", cond) | ("append", None)]
    for st in _strip_doc(fn.body):
        if isinstance(st, ast.If):
            if st.orelse or len(st.body) != 1 or not isinstance(st.body[0], ast.Raise):
                _fail(st, "add: `if` is not `if <test>: raise …`")
            exc = st.body[0].exc
            cls = exc.func if isinstance(exc, ast.Call) else exc
            if not _is_name(cls, "ValueError") or st.body[0].cause is not None:
                _fail(st, "add: raises something that is not ValueError")
            m.add.append(("reject", Scalars({"delta": "delta"}).compare(st.test)))
        elif isinstance(st, ast.Expr):
            args = _method_call(st.value, lambda r: _is_self_attr(r, QUEUE), "append", 1)
            ok = (args is not None and isinstance(args[0], ast.Tuple) and len(args[0].elts) == 2
                  and _is_name(args[0].elts[0], "delta"))
            if ok:
                it = _plain_call(args[0].elts[1], "iter", 1)
                ok = it is not None and _is_name(it[0], "data")
            if not ok:
                _fail(st, "add: the statement is not `self._not_playing.append((delta, iter(data)))`")
            if any(k == "append" for k, _ in m.add):
                _fail(st, "add: two appends")
            m.add.append(("append", None))
        else:
            _fail(st, "add: statement not understood: %s" % ast.dump(st)[:100])
    if not any(k == "append" for k, _ in m.add):
        _fail(fn, "add: nothing is appended to self._not_playing")


def read_control(tree):
    cls = _class(tree, "ControlStream")
    init = _method(cls, "__init__")
    if _params(init, ["self", "value"]):
        _fail(init, "ControlStream.__init__ has default values")
    stores, gen = _ctor_with_generator(cls, init)
    if not (len(stores) == 1 and stores[0][0] == "value" and _is_name(stores[0][1], "value")):
        _fail(init, "ControlStream.__init__ does not store exactly `self.value = value`")
    body = _strip_doc(gen.body)
    ok = (len(body) == 1 and isinstance(body[0], ast.While) and isinstance(body[0].test, ast.Constant)
          and body[0].test.value is True and not body[0].orelse and len(body[0].body) == 1
          and isinstance(body[0].body[0], ast.Expr) and isinstance(body[0].body[0].value, ast.Yield))
    if not ok:
        _fail(gen, "ControlStream generator is not `while True: yield <expr>`")
    y = body[0].body[0].value.value
    if _is_name(y, "value"):
        _fail(y, "ControlStream generator yields the closure variable `value` (the constructor's argument), not self.value")
    if not _is_self_attr(y, "value"):
        _fail(gen, "ControlStream generator does not yield self.value")
    return True


# ----------------------------------------------------------------------------------------------
# emitting Lean
# ----------------------------------------------------------------------------------------------
HEADER = """/- GENERATED by harness/props/c16_tr.py from audiolazy/lazy_stream.py (Streamix.__init__ with its closure data_generator,
   Streamix.add, ControlStream.__init__ with its closure; read with `ast`).  Do not edit: rewritten on every check.
   `ALV.Props.C16.src_*_is_model` prove these definitions equal to the hand-written machines of Model/C16Gen, C16X, C16. -/
import ALV.Model.C16X
namespace ALV.Gen.C16
open ALV.C16
variable {α β ε : Type}
"""


def _emit_start(p):
    out = ["/-- `while self._not_playing and (…): …, … = self._not_playing.popleft(); …` -/",
           "def startLoop : Rat → List (Rat × Snd α) → List (Snd α) → Rat × List (Rat × Snd α) × List (Snd α)",
           "  | count, [], playing => (count, [], playing)",
           "  | count, hd :: notPlaying, playing =>",
           "    if %s then" % p["cond"],
           "      let delta := hd.1",
           "      let newdata := hd.2"]
    for var, e in p["lets"]:
        out.append("      let %s := %s" % (var, e))
    out += ["      startLoop count notPlaying playing",
            "    else (count, hd :: notPlaying, playing)"]
    return out


def _emit_sum(p):
    add = "data + x" if p["data_left"] else "x + data"
    rem = "snd.id :: r.2.2" if p["appends"] else "r.2.2"
    return ["/-- `for snd in self._playing: try: data = … next(snd) … except StopIteration: …` (returns the sum, `_playing` with",
            "    every object advanced by one item, and what the handler collected) -/",
            "def sumLoop [Add α] : α → List (Snd α) → α × List (Snd α) × List Nat",
            "  | data, [] => (data, [], [])",
            "  | data, snd :: ps =>",
            "    match snd.rest with",
            "    | [] =>                                  -- next(snd) raises StopIteration",
            "      let r := sumLoop data ps",
            "      (r.1, snd :: r.2.1, %s)" % rem,
            "    | x :: xs =>                             -- next(snd) returns x",
            "      let data := %s" % add,
            "      let r := sumLoop data ps",
            "      (r.1, ⟨snd.id, xs⟩ :: r.2.1, r.2.2)"]


def _emit_xsum(p):
    add = "XAdd.xadd data x" if p["data_left"] else "XAdd.xadd x data"
    rem = "snd.id :: r.2.2" if p["appends"] else "r.2.2"
    return ["/-- the same loop when `next(snd)` or the addition may raise: `.error (e, _playing as the exception leaves it)` -/",
            "def xsumLoop [XAdd ε α] : α → List (Snd (Except ε α)) →",
            "    Except (ε × List (Snd (Except ε α))) (α × List (Snd (Except ε α)) × List Nat)",
            "  | data, [] => .ok (data, [], [])",
            "  | data, snd :: ps =>",
            "    match snd.rest with",
            "    | [] =>                                  -- next(snd) raises StopIteration",
            "      match xsumLoop data ps with",
            "      | .ok r => .ok (r.1, snd :: r.2.1, %s)" % rem,
            "      | .error (e, pl) => .error (e, snd :: pl)",
            "    | .error e :: _ => .error (e, ⟨snd.id, []⟩ :: ps)      -- next(snd) raises e: not caught, leaves the loop",
            "    | .ok x :: xs =>                         -- next(snd) returns x",
            "      match %s with" % add,
            "      | .error e => .error (e, ⟨snd.id, xs⟩ :: ps)          -- the addition raises e",
            "      | .ok data =>",
            "        match xsumLoop data ps with",
            "        | .ok r => .ok (r.1, ⟨snd.id, xs⟩ :: r.2.1, r.2.2)",
            "        | .error (e, pl) => .error (e, ⟨snd.id, xs⟩ :: pl)"]


REMOVE = ["/-- `for snd in to_remove: self._playing.remove(snd)` -/",
          "def removeLoop : List Nat → List (Snd α) → List (Snd α)",
          "  | [], playing => playing",
          "  | snd :: toRemove, playing =>",
          "    let playing := removeFirst snd playing",
          "    removeLoop toRemove playing"]


def _emit_next(m, x):
    """the step function; x = the backend with exceptions"""
    name, obs = ("xnext", "XObs ε α") if x else ("next", "Obs α")
    ty = "PState (Except ε α)" if x else "PState α"
    inst = "[XAdd ε α]" if x else "[Add α]"
    out = ["/-- one `next()` on the generator: from the resumption point to the next `yield` / to the end%s -/" %
           (" (exceptions pass through)" if x else ""),
           "def %s %s (zero : α) (s : %s) : %s × %s :=" % (name, inst, ty, ty, obs),
           "  if s.ended then (s, .stop)",
           "  else",
           "    let count := s.count",
           "    let notPlaying := s.notPlaying",
           "    let playing := s.playing"]
    ind = "    "
    for e in m.post:
        out.append(ind + "let count := if s.suspended then %s else count      -- after the yield" % e)
    for kind, p in m.chain:
        if kind == "start":
            out += [ind + "let r := startLoop count notPlaying playing",
                    ind + "let count := r.1",
                    ind + "let notPlaying := r.2.1",
                    ind + "let playing := r.2.2"]
        elif kind == "clock":
            out.append(ind + "let count := %s" % p)
        elif kind == "zero":
            out.append(ind + "let data := zero")
        elif kind == "clear":
            out.append(ind + "let toRemove : List Nat := []")
        elif kind == "sum":
            if x:
                out += [ind + "match xsumLoop data playing with",
                        ind + "| .error (e, pl) =>      -- the exception leaves the generator: it is finished",
                        ind + "  ({ s with count := count, notPlaying := notPlaying, playing := pl, suspended := false, ended := true }, .raised e)",
                        ind + "| .ok r =>"]
                ind += "  "
            else:
                out.append(ind + "let r := sumLoop data playing")
            out += [ind + "let data := r.1",
                    ind + "let playing := r.2.1",
                    ind + "let toRemove := r.2.2"]
        elif kind == "prune":
            if p["guarded"]:
                out.append(ind + "let playing := if toRemove.isEmpty = false then removeLoop toRemove playing else playing")
            else:
                out.append(ind + "let playing := removeLoop toRemove playing")
        elif kind == "break":
            out += [ind + "if (%s) = true then      -- break: the generator is finished" % p,
                    ind + "  ({ s with count := count, notPlaying := notPlaying, playing := playing, suspended := false, ended := true }, .stop)",
                    ind + "else"]
            ind += "  "
        elif kind == "yield":
            out += [ind + "({ s with count := count, notPlaying := notPlaying, playing := playing, suspended := true },",
                    ind + " .out data (s.notPlaying.length - notPlaying.length))"]
        else:
            raise TranslationError("internal: chain item %r" % kind)
    return out


def _check_scopes(m):
    """`toRemove` / `data` must be bound by the chain before they are used"""
    bound_rem = False
    for kind, p in m.chain:
        if kind in ("sum", "clear"):
            bound_rem = True
        if kind == "prune" and not bound_rem:
            raise TranslationError("the removal block comes before the summing loop")


def _emit_add(m, mode):
    """mode: 'p' (no exceptions), 'x' (iter(data) works), 'f' (iter(data) raises e)"""
    name = {"p": "add", "x": "xadd", "f": "xaddFail"}[mode]
    ty = "PState α" if mode == "p" else "PState (Except ε α)"
    obs = "Obs α" if mode == "p" else "XObs ε α"
    arg = {"p": "(data : List α)", "x": "(data : List (Except ε α))", "f": "(e : ε)"}[mode]
    doc = {"p": "`Streamix.add`", "x": "`Streamix.add` whose `iter(data)` works",
           "f": "`Streamix.add` whose `iter(data)` raises `e` (while the argument of `append` is evaluated: nothing is stored)"}[mode]
    out = ["/-- %s -/" % doc,
           "def %s (s : %s) (delta : Rat) %s : %s × %s :=" % (name, ty, arg, ty, obs)]
    ind = "  "
    done = False
    for kind, p in m.add:
        if kind == "reject":
            out += [ind + "if %s then (s, .valueError)" % p, ind + "else"]
            ind += "  "
        else:
            if mode == "f":
                out.append(ind + "(s, .raised e)")
                done = True
                break
            out.append(ind + "let s := { s with notPlaying := s.notPlaying ++ [(delta, ⟨s.fresh, data⟩)], fresh := s.fresh + 1 }")
    if not done:
        out.append(ind + "(s, .ok)")
    return out


def emit(m):
    _check_scopes(m)
    L = [HEADER]
    L += ["/-! ### Streamix.__init__ -/", "",
          "/-- `def __init__(self, keep=…, zero=…)`: the default values (zero as an exact rational; is it written as a float?) -/",
          "def keepDefault : Bool := %s" % m.keep_default,
          "def zeroDefault : Rat := %s" % m.zero_default,
          "def zeroDefaultIsFloat : Bool := %s" % m.zero_default_is_float, "",
          "/-- the attributes `__init__` stores and the frame of the generator it creates (not started; its prologue sets the clock) -/",
          "def init (keep : Bool) : PState α :=",
          "  { count := %s, notPlaying := %s, playing := %s, keep := %s, suspended := false, ended := false, fresh := 0 }" % (
              m.count0, m.init_fields[QUEUE], m.init_fields[PLAYING], m.init_fields[KEEP]), "",
          "/-! ### data_generator -/", ""]
    start = [p for k, p in m.chain if k == "start"][0]
    sm = [p for k, p in m.chain if k == "sum"][0]
    L += _emit_start(start) + [""]
    L += ["/-- `data += next(snd)` (works on the zero OBJECT when it is mutable) instead of `data = data + next(snd)`? -/",
          "def sumInPlace : Bool := %s" % ("true" if sm["inplace"] else "false"), ""]
    L += _emit_sum(sm) + [""] + _emit_xsum(sm) + [""] + REMOVE + [""]
    L += _emit_next(m, False) + [""] + _emit_next(m, True) + [""]
    L += ["/-! ### Streamix.add -/", ""]
    L += _emit_add(m, "p") + [""] + _emit_add(m, "x") + [""] + _emit_add(m, "f") + [""]
    L += ["/-! ### ControlStream -/", "",
          "/-- `self.value = value` in `__init__` -/",
          "def cinit (value : β) : β := value", "",
          "/-- one `next()` on `while True: yield self.value`: the state is the attribute, a read yields it and leaves it -/",
          "def cread (value : β) : β × Option β := (value, some value)", "",
          "end ALV.Gen.C16", ""]
    return "\n".join(L)


def translate(text):
    """source text of lazy_stream.py -> text of lean/ALV/Gen/C16Src.lean"""
    try:
        tree = ast.parse(text)
    except SyntaxError as e:
        raise TranslationError("lazy_stream.py does not parse: %s" % e)
    m = read_streamix(tree)
    read_control(tree)
    return emit(m)


def source_fingerprint(text):
    """sha1 of the ast (docstrings, comments, layout excluded) of the translated functions"""
    import hashlib
    tree = ast.parse(text)
    parts = []
    for cname, fnames in (("Streamix", ("__init__", "add")), ("ControlStream", ("__init__",))):
        cls = _class(tree, cname)
        for fn in fnames:
            f = _method(cls, fn)
            for n in ast.walk(f):
                if isinstance(n, (ast.FunctionDef, ast.ClassDef)):
                    n.body = _strip_doc(n.body) or [ast.Pass()]
            parts.append(ast.dump(f))
    return hashlib.sha1("\n".join(parts).encode()).hexdigest()


# fingerprint of the source text the committed lean/ALV/Gen/C16Src.lean was generated from
COMMITTED_FROM = "00759d33ea34d003000acc9bc7534551d5fd5920"


def read_source():
    with open(os.path.join(common.REPO, "audiolazy", SRC_FILE)) as f:
        return f.read()


def regenerate(eng=None):
    """Rewrite lean/ALV/Gen/C16Src.lean from the repo under test.  On a translation failure the last COMMITTED file is put
    back (the theorems then speak about the last state of the source that could be translated) and the error propagates."""
    path = os.path.join(common.LEAN, GEN_REL)
    try:
        text = translate(read_source())
    except Exception:
        try:
            import subprocess
            good = subprocess.run(["git", "-C", common.VERIF, "show", "HEAD:lean/" + GEN_REL.replace(os.sep, "/")],
                                  capture_output=True, text=True, timeout=30)
            if good.returncode == 0 and good.stdout and (not os.path.exists(path) or open(path).read() != good.stdout):
                with open(path, "w") as f:
                    f.write(good.stdout)
        except Exception:
            pass
        raise
    old = open(path).read() if os.path.exists(path) else None
    if old != text:
        os.makedirs(os.path.dirname(path), exist_ok=True)
        with open(path, "w") as f:
            f.write(text)
        return "rewritten (%d bytes)" % len(text)
    return "unchanged (%d bytes)" % len(text)


# ----------------------------------------------------------------------------------------------
# self-test: edited copies of the source text must give a different Gen text or a TranslationError
# ----------------------------------------------------------------------------------------------
EDITS = [
    ("start-comparison >= -> >", "(count >= self._not_playing[0][0])", "(count > self._not_playing[0][0])"),
    ("clock starts at 0 instead of 0.5", "count = 0.5", "count = 0."),
    ("count += 1. -> count += 2.", "count += 1.", "count += 2."),
    ("count -= delta dropped to count -= 0", "count -= delta #", "count -= 0 #"),
    ("sum order: next(snd) + data", "data = data + next(snd)", "data = next(snd) + data"),
    ("in-place sum (D29 back)", "data = data + next(snd)", "data += next(snd)"),
    ("finished events not collected", "to_remove.append(snd)", "pass"),
    ("removal list never cleared", "          to_remove = []\n", ""),
    ("stop test ignores the waiting events", "if not (self.keep or self._playing or self._not_playing):",
     "if not (self.keep or self._playing):"),
    ("stop test reads the closure keep", "if not (self.keep or self._playing or self._not_playing):",
     "if not (keep or self._playing or self._not_playing):"),
    ("stop test moved before the removal (two statements reordered)", None, None),
    ("add: delta <= 0 rejected", "    if delta < 0:\n", "    if delta <= 0:\n"),
    ("add: append before the test (two statements reordered)", None, None),
    ("add: iter() dropped", "self._not_playing.append((delta, iter(data)))", "self._not_playing.append((delta, data))"),
    ("keep default True", "def __init__(self, keep=False, zero=0.):", "def __init__(self, keep=True, zero=0.):"),
    ("ControlStream yields the constructor's value", "        yield self.value", "        yield value"),
]

HARMLESS = [
    ("comments, blank lines and a docstring", "        # Sum the data to be played, seeing if something finished\n",
     "        # changed comment\n\n"),
    ("locals renamed", None, None),
]


def _edit(text, name, old, new):
    if name.startswith("stop test moved"):
        a = text.index("        # Remove finished\n")
        b = text.index("        # Tests whether there were any data")
        c = text.index("        # Finish iteration\n")
        return text[:a] + text[b:c] + text[a:b] + text[c:]
    if name.startswith("add: append before"):
        chk = "    if delta < 0:\n      raise ValueError(\"Delta time should be always positive\")\n"
        app = "    self._not_playing.append((delta, iter(data)))\n"
        if chk + app not in text:
            raise TranslationError("selftest: the text of Streamix.add is not the one the edit expects")
        return text.replace(chk + app, app + chk)
    if name == "locals renamed":
        a = text.index("class Streamix(Stream):")
        b = text.index("  def add(self, delta, data):")
        seg = text[a:b]
        for o, n in (("count", "clock"), ("to_remove", "finished"), ("newdata", "ev"), ("snd", "it"),
                     ("data = ", "acc = "), ("data + ", "acc + "), ("yield data", "yield acc")):
            seg = seg.replace(o, n)
        return text[:a] + seg + text[b:]
    if text.count(old) != 1:
        raise TranslationError("selftest: %r occurs %d times in the source (expected once)" % (old, text.count(old)))
    return text.replace(old, new)


def selftest(text, committed):
    """-> [(name, ok, detail)]"""
    res = []
    try:
        base = translate(text)
    except TranslationError as e:
        return [("translator-selftest", False, "the source under test does not translate: %s" % e)]
    same = committed is not None and base == committed
    unchanged = source_fingerprint(text) == COMMITTED_FROM
    # the unchanged source must reproduce the committed file byte for byte; a CHANGED source (other fingerprint) is
    # re-translated and the theorems are re-checked against the new text: that is the job of the translator, not a failure
    res.append(("translator-selftest:committed-file-reproduced", same or not unchanged,
                "byte-identical" if same else
                ("the source of the translated functions changed (fingerprint %s): regenerated, lean/%s now differs from the "
                 "committed file; src_*_is_model are checked against the new text" % (source_fingerprint(text)[:12], GEN_REL)
                 if not unchanged else "lean/%s differs from the translation of the UNCHANGED source" % GEN_REL)))
    bad, notes, skipped = [], [], []
    for name, old, new in EDITS:
        try:
            edited = _edit(text, name, old, new)
        except (TranslationError, ValueError) as e:
            skipped.append(name)
            continue
        try:
            out = translate(edited)
        except TranslationError as e:
            notes.append("%s -> TranslationError" % name)
            continue
        if out == base:
            bad.append(name)
        else:
            notes.append("%s -> different text" % name)
    ok = not bad and len(notes) >= 6
    res.append(("translator-selftest:edits-change-the-output", ok,
                ("%d edits, all seen (%s)" % (len(notes), "; ".join(notes)) if ok else
                 "edits NOT seen: %r; applicable edits: %d" % (bad, len(notes))) +
                ("; not applicable to this source text: %r" % skipped if skipped else "")))
    hbad, hn = [], 0
    for name, old, new in HARMLESS:
        try:
            edited = _edit(text, name, old, new)
            hn += 1
            if translate(edited) != base:
                hbad.append(name)
        except (TranslationError, ValueError) as e:
            if not isinstance(e, ValueError) and "selftest:" not in str(e):
                hbad.append(name + " (%s)" % e)
    res.append(("translator-selftest:harmless-rewrites-normalised", not hbad,
                "%d rewrites give the same text" % hn if not hbad else "changed the output: %r" % hbad))
    return res
