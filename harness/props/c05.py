"""C05 — filter algebra is system algebra.

Tie: expression trees over + - * / ** and substitution on rational filters built from Fractions
(exact regime), evaluated with the real `ZFilter` operators, with the Lean model (operator by
operator, as coded: same-denominator shortcut, normalisation in `__init__`, negative-power flip,
`sum()` of the substitution) and with the Lean spec (textbook field of fractions on canonical
pairs).  Observables, as the property names them:

  (a) numerator/denominator up to cross multiplication  num*den' == num'*den  (computed here in
      exact arithmetic; raw dictionaries are only tallied, so a refactor that cancels common
      factors stays quiet);
  (b) outputs on Fraction signals versus composition of outputs (law vectors evaluated on the
      real objects and through the model);
  (c) ==, != and hash on pairs drawn equal / different in numerator only / denominator only / both;
  (d) CascadeFilter / ParallelFilter: outputs and numpoly/denpoly against product / sum;
  (e) filter list OBJECTS (entry "nest"): nested mixed structures built through every constructor call shape
      (K(*parts), K([parts]), K((parts)), K(generator), a lone filter list of either kind as the only part, user
      subclasses) and through the `list` methods (+, *, reflected *, *=, append, extend, +=, slicing): classes and parts
      of the result, len, output, numpoly/denpoly (the code as repaired for D22; the old shape only as a regression
      model that names the defect), is_linear, hash, and the
      float-only freq_response against the denoted rational function on the unit circle;
  (f) == / != matrices over pools of objects of every sort (entry "eqm"): filter lists of both kinds and of user
      subclasses, plain lists, tuples, ZFilters, type-casted filters, LinearFilter objects, numbers, functions, in
      both operand orders; hashability and equal hashes of equal objects;
  (g) operand kinds / spellings of the dunders: scalars written as int / float / Fraction / bool on either side,
      exponents written as int / bool / float / Fraction / complex, a LinearFilter that is not a ZFilter as right
      operand, a ZFilter handed to a reflected dunder, ZFilter(filter) / ZFilter(filter, filter) /
      ZFilter(filter, number) type casts; linearize() on fractional delays (entry "frac");
  (h) histories of ONE mutable filter list (entry "hist"): reads of numpoly/denpoly, numlist/denlist and calls
      interleaved with obj[i] = g (also negative i), obj[:] = [...], append, extend — the replacement mostly a filter
      with the SAME powers and other coefficients (equal LinearFilter.__hash__): every read must be that of the CURRENT
      parts (theorem hist_reads_current; regression model of a sum cached under hash(tuple(self)));
  (i) f(g) against the closed form for monomials gain*z**-delay with non-unit gains (theorem subst_monomial) and
      against exact evaluation f(g)(z0) == f(g(z0)) at rational points, for monomial and general g (entry "substpt").
"""
import json
import operator
import warnings
from collections import OrderedDict
from fractions import Fraction as F
from functools import reduce

import common
from common import enc, dec, err_kind

ID = "C05"
RULE = ("random expression trees (depth<=3 quick / <=4 thorough) over + - * / ** (exponents -3..4), substitution, "
        "unary and reflected scalar operators on rational filters of order<=3 with Fraction coefficients (leaves as "
        "dicts in random insertion order, dense lists, z, numbers; denominators starting at delay 0 or not), each "
        "applied to a Fraction signal; law vectors on random triples (f,g,h,n,m,c,k,x); ==/!=/hash pairs drawn "
        "equal / numerator-only / denominator-only / both different; Cascade/Parallel lists of 0..4 filters incl. "
        "repeated denominators; non-trivial = the impl returned a filter, a law vector, a comparison or polynomials "
        "(not an exception); distinct = distinct JSON case; filter list objects: nested structures of depth<=3 over "
        "cascade/parallel/user subclasses (depth 1, 2) with 0..3 parts (ZFilters, numbers, sample-wise non-linear "
        "callables, filter lists), constructor shapes star/list/tuple/generator, list methods add/mul/rmul/imul/append/"
        "extend/iadd/slice incl. failing ones (tuple / ZFilter / number operands); ==/!= matrices over pools of 6..10 "
        "objects drawn from 41 templates; scalars spelled int/float/Fraction/bool, exponents spelled "
        "int/bool/float/Fraction/complex, foreign-domain operands, type casts; fractional (dyadic) delays for linearize; "
        "histories of one filter list (1..3 parts, 1..3 in-place mutations set/setall/append/extend, 75% of the replacements "
        "with the same powers and other coefficients, a read before and after every mutation); f(g) with g = gain*z**-d "
        "(gains 2, 1/2, 1/3, -2, 3, -1/2, 3/2, +-1; d in -2..3), monomial dictionaries and general small g, evaluated at "
        "3 of 7 rational points")
TRUSTED = [
    "hand-written Lean model ALV/Model/C05.lean of ZFilter / CascadeFilter / ParallelFilter arithmetic on top of "
    "the C07 Poly model and the C04 filter loop (modelled, not verified: Python's Fraction arithmetic as a field, "
    "OrderedDict as association list, `sum()` as a fold from ZFilter([0]))",
    "cross-multiplication, polynomial product and signal comparison of harness/props/c05.py (exact Fractions)",
    "translator T5 (harness/props/c05_tr.py -> lean/ALV/Gen/C05Src.lean, regenerated from audiolazy/lazy_filters.py on every "
    "run): TRUSTS the semantics of the Python subset it accepts (straight-line bodies, if / return / raise, `and` / `or` / "
    "`not`, conditional expressions on `is None`, augmented assignment to self.numpoly / self.denpoly as state of the object "
    "under construction; isinstance tests decided from the KIND of the argument: ZFilter / other LinearFilter / number / int "
    "exponent, i.e. one Lean definition per method and kind) and its vocabulary mapping: Poly operators -> C07.add / mul / "
    "pow / eq / ne / neg / pos, Poly(list) / Poly(dict) / Poly(poly) -> C07.ofList / mk / mk, poly * number -> C07.mul _ "
    "(C07.ofScalar c), P.copy() -> P, len -> length, P.terms() -> C07.sortAsc, min over the powers -> C04.minKey (ValueError "
    "when empty), ZFilter(A, B) / cls(A, B) -> the translated __init__, operators between filters / numbers -> the translated "
    "dunder of the same kinds (Python's binary-operator dispatch incl. the reflected fallback for number op filter; -x on a "
    "plain LinearFilter is a TypeError), operator.truediv(a, c) -> ALV.C05.numTruediv (ZeroDivisionError at c = 0), "
    "sum(... for k, v in P.terms()) -> ALV.C05.sumTerms (fold of + from ZFilter([0])), tuple(OrderedDict(terms)) -> the "
    "sorted powers, hash(t) -> t; the two hand-written vocabulary definitions are lean/ALV/Model/C05Vocab.lean",
    "translator T5, filter list classes (FilterList.__init__ / __eq__ / __ne__, CascadeFilter.numpoly / denpoly, ParallelFilter."
    "_sum_filter / numpoly / denpoly): translated by SHAPE (a fixed statement skeleton per function; the conditions, comparison "
    "operators, constants, indices, operator.<op>, the generator's item and the raised class are read from the source). TRUSTED: "
    "the five vocabulary definitions of lean/ALV/Model/C05ListVocab.lean (filters[i] inside a test -> argTest, `filters = "
    "filters[i]; self.extend(filters)` -> extendItem, self.extend(tuple) -> extendTuple, reduce without initial value over a "
    "generator -> reduceGen (items computed one at a time, TypeError when empty), try / except AttributeError: raise "
    "AttributeError -> reraiseAttribute), callable(x) / isinstance(x, Iterable) -> the model's Arg.callable / Arg.iterable, "
    "type(x) == type(y) -> equality of the model's Kind, list.__eq__ / __ne__ -> FLs.eq / FLs.listNe (CPython list_richcompare, "
    "modelled); the inputs of the polynomial properties (`self.callables` as the lazily computed polynomial pairs of the "
    "parts, `self.is_linear()` as a Bool) are supplied by the hand-written model (FL.polys of each part, FLs.linear)",
    "hash: the model gives the tuple of sorted powers that LinearFilter.__hash__ hashes; CPython's hash() is trusted",
    "hand-written Lean model ALV/Model/C05List.lean of FilterList objects (constructor rule on callable/iterable "
    "arguments, metaclass dunders `cls(super().__add__(other))` incl. the wrapping by user subclasses, CPython's "
    "list_richcompare for list.__eq__/__ne__, `obj *= n` dispatching to __mul__, unhashability of classes defining "
    "__eq__) and ALV/Model/C05Lin.lean (exponent / scalar spellings, foreign-domain errors, linearize of fractional "
    "delays with int() truncation toward zero): modelled, tied by the differential runs, not verified",
    "non-linear parts are sample-wise functions (x*x, x+1) given to both sides by identity number; a polynomial whose "
    "coefficients are not numbers (`zf + filter_list` = `zf + ZFilter([filter_list])`) is observed as the TypeError it "
    "stands for; freq_response is compared in floats (1e-7 relative, skipped within 1e-6 of a pole)",
]
ASSUMPTIONS = [
    "exact regime: Fraction coefficients, Poly zero=Fraction(0) on the leaves, Fraction signals, zero=Fraction(0); "
    "where the impl itself injects binary floats (Fraction coefficients formatted as 'p/q' into the exec'd filter "
    "loop, int ** negative int) results are compared within 1e-9 relative to the largest sample",
    "constant coefficients (Stream coefficients: C06); fractional powers only in linearize (dyadic, so that the float "
    "weights are exact)",
    "signal laws (law vectors) are compared in the exact regime only (integer coefficients keep the impl's exec'd "
    "loop exact on Fraction samples); outputs of single trees in the float regime are compared within "
    "1e-10 * (sum |impulse response of 1/den|) relative to the largest sample",
    "signal laws are stated for causal filters; a non-causal composite raises ValueError in the impl and in the model",
    "outside the object model: coefficient lists / dicts as parts of a filter list, callables with memory, Stream "
    "coefficients, complex scalars (the model's instance in the driver is Rat), <, <=, >, >= on filter lists, poles / "
    "zeros / plot (numpy), non-dyadic fractional delays (float rounding), IndexError of obj[i] = g out of range, "
    "del / pop / insert / sort on a filter list, freq_response within a history (float)",
]
MANIFEST = {
    "technique": "TRANSLATOR T5 (harness/props/c05_tr.py reads audiolazy/lazy_filters.py with ast on every run and "
                 "regenerates lean/ALV/Gen/C05Src.lean: LinearFilter.__init__ / __eq__ / __ne__ / __hash__, ZFilterMeta."
                 "__unary__ / __rbinary__, ZFilter.__add__ / __sub__ / __mul__ / __truediv__ / __pow__ / __call__(ZFilter), z — "
                 "one shallow Lean definition per method and argument kind; FilterList.__init__ / __eq__ / __ne__, CascadeFilter."
                 "numpoly / denpoly, ParallelFilter._sum_filter / numpoly / denpoly — the flat reduce of the source, proved equal to "
                 "what the model's mutual recursion FL.polys computes for a node; theorems src_*_is_model: each equals the model "
                 "function, so all theorems below are about the regenerated code) + Lean 4 proof (ZFilter model interpreted into the fraction field of Mathlib's Laurent polynomial "
                 "ring K[T;T⁻¹] for the field laws / substitution / expression trees of any depth, and into K⟦X⟧ "
                 "via C04's A·Y = B·X with unit denominators for the signal laws) + differential tie on expression "
                 "trees, law vectors, ==/!=/hash pairs, Cascade/Parallel lists, nested filter list objects (mutual "
                 "inductive FL/FLs with joint induction: call = composition/sum, numpoly/denpoly = one causal filter "
                 "denoting the product/sum at any depth), ==/!= matrices over mixed pools, operand spellings and "
                 "fractional-delay linearisation, in the exact Fraction regime",
    "note": "113 theorems (35 of them src_*_is_model), no pending statement; not under the translator: FilterList.callables / "
            "is_linear, CascadeFilter / ParallelFilter __call__, FilterListMeta.__binary__, casts, float / "
            "Fraction exponents, linearize — hand-written models tied by sampling; D2 (__ne__ is `num != and den !=`) and D12 (ParallelFilter.denpoly "
            "is the product while numpoly comes from the shortcut sum) are repaired in /repo; D22 (ParallelFilter.numpoly/"
            "denpoly run reduce(operator.add, self) on the raw elements: filter lists are concatenated, numbers stay "
            "numbers) is repaired in /repo (04c3c25) and the model follows the repaired code; each is stated in "
            "Lean as theorems about the repaired shape plus a refutation of the shape as coded; filter lists are "
            "modelled as objects (nested_call, nested_structure_denotes, constructor_rule, concat_denotes, "
            "obj_eq_ne_exclusive, obj_eq_sound, obj_eq_hash) and tied through constructor call shapes, list methods "
            "and ==/!= matrices",
}

warnings.filterwarnings("ignore", message="StreamTeeHub requesting")


# ----------------------------------------------------------------------------
# translator T5: the algebra dunders are regenerated from the source text
# ----------------------------------------------------------------------------
def regenerate(eng=None):
    """rewrite lean/ALV/Gen/C05Src.lean from audiolazy/lazy_filters.py of the repo under test (ast, no import); the
    theorems ALV.Props.C05.src_*_is_model compare every regenerated definition with the hand-written model"""
    from props import c05_tr
    return c05_tr.regenerate(eng)


def extra_checks(eng):
    import os
    import subprocess
    from props import c05_tr
    eng.extra["translated"] = {"translator": "harness/props/c05_tr.py -> lean/ALV/Gen/C05Src.lean (shallow, one definition per "
                                             "method and kind of argument)",
                               "under_translator": list(c05_tr.TRANSLATED),
                               "not_translated": dict(c05_tr.NOT_TRANSLATED)}
    try:
        text = c05_tr.read_source()
        good = subprocess.run(["git", "-C", common.VERIF, "show", "HEAD:lean/" + c05_tr.GEN_REL.replace(os.sep, "/")],
                              capture_output=True, text=True, timeout=30)
        committed = good.stdout if good.returncode == 0 and good.stdout else None
        if committed is None:       # not committed yet (first run): the file on disk
            path = os.path.join(common.LEAN, c05_tr.GEN_REL)
            committed = open(path).read() if os.path.exists(path) else None
        for item in c05_tr.selftest(text, committed):
            yield item
    except Exception as ex:   # noqa
        yield ("translator-selftest", False, "%s: %s" % (type(ex).__name__, ex))
Z = F(0)
COEFFS = [F(1), F(-1), F(2), F(-2), F(3), F(1, 2), F(-1, 2), F(1, 4), F(3, 2), F(-3, 4), F(1, 3), F(-2, 3), F(5), F(-5, 2)]
DYADIC = [F(1), F(-1), F(2), F(-2), F(3), F(1, 2), F(-1, 2), F(1, 4), F(3, 2), F(-3, 4), F(5), F(-5, 2)]
# integer coefficients keep the exec'd filter loop of the impl exact on Fraction samples ("3 * d1", "(expr) / (2)"):
# a non-integer Fraction is formatted as "1/2 * d1", i.e. a float, into the generated source
INTS = [F(1), F(-1), F(2), F(-2), F(3), F(-3), F(4), F(5), F(-5), F(7)]
UNITS = [F(1), F(1), F(-1), F(2), F(1, 2), F(-2)]
SCAL_R = ("radds", "rsubs", "rmuls", "rdivs")
SCAL_L = ("adds", "subs", "muls", "divs")
BIN = ("add", "sub", "mul", "div")
UN = ("neg", "pos")
LEAVES = ("f", "fl", "z", "s")
EXTRA = ("dom", "rdom", "powk", "cast", "lfcast", "castdiv", "castdivs")
_ALLOPS = set(LEAVES + BIN + UN + SCAL_L + SCAL_R + ("pow", "subst") + EXTRA)
KINDS = ("int", "bool", "float", "fraction", "complex")


# ----------------------------------------------------------------------------
# exact polynomial helpers (dict power -> Fraction)
# ----------------------------------------------------------------------------
def pmul(a, b):
    out = {}
    for k1, v1 in a.items():
        for k2, v2 in b.items():
            out[k1 + k2] = out.get(k1 + k2, 0) + v1 * v2
    return {k: v for k, v in out.items() if v != 0}


def psub(a, b):
    out = dict(a)
    for k, v in b.items():
        out[k] = out.get(k, 0) - v
    return out


def pscale(a):
    return max([abs(v) for v in a.values()] + [1])


def pzero(a, tol=0, scale=1):
    if tol == 0:
        return all(v == 0 for v in a.values())
    return all(abs(v) <= tol * scale for v in a.values())


def terms_to_dict(terms):
    return {int(k): dec(v) for k, v in terms}


def cross_equal(n1, d1, n2, d2, tol=0):
    """n1/d1 == n2/d2 as rational functions: n1*d2 == n2*d1 (exact, or within tol of the products' size)"""
    a, b = pmul(n1, d2), pmul(n2, d1)
    return pzero(psub(a, b), tol, max(pscale(a), pscale(b)))


def sig_close(a, b, tol):
    if len(a) != len(b):
        return False
    if tol == 0:
        return all(x == y for x, y in zip(a, b))
    scale = max([abs(x) for x in a] + [abs(y) for y in b] + [1])
    return all(abs(x - y) <= tol * scale for x, y in zip(a, b))


# ----------------------------------------------------------------------------
# generators
# ----------------------------------------------------------------------------
def _units(pool):
    return [u for u in UNITS if u.denominator == 1] if pool is INTS else UNITS


def _coeff(rng, pool=COEFFS, zero_p=0.06):
    if rng.random() < zero_p:
        return F(0)
    return rng.choice(pool)


def _pairs(rng, lo, n, pool, lead=None):
    """n distinct powers in [lo, lo+3], random insertion order; `lead` = pool for the lowest power"""
    n = max(0, min(n, 4))
    ks = sorted(rng.sample(range(lo, lo + 4), n))
    ps = []
    for i, k in enumerate(ks):
        c = rng.choice(lead) if (lead and i == 0) else _coeff(rng, pool)
        ps.append([k, enc(c)])
    if rng.random() < 0.5:
        rng.shuffle(ps)
    return ps


def _leaf(rng, causal=False, pool=COEFFS):
    r = rng.random()
    if not causal:
        if r < 0.07:
            return ["z"]
        if r < 0.14:
            return ["s", enc(_coeff(rng, pool, 0.15))]
    if r < 0.3:
        # dense lists (the documented constructor)
        nb = rng.randint(0 if not causal else 1, 4)
        na = rng.randint(1, 4)
        b = [enc(_coeff(rng, pool, 0.15)) for _ in range(nb)]
        a = [enc(rng.choice(_units(pool)))] + [enc(_coeff(rng, pool, 0.2)) for _ in range(na - 1)]
        if not causal and rng.random() < 0.15:
            a = [0] + a                      # leading zero: the constructor shifts both polynomials
        return ["fl", b, a]
    # dictionaries
    dlo = 0 if causal or rng.random() < 0.8 else rng.choice([-1, 1, 2])
    nlo = dlo if causal else rng.choice([dlo, dlo, dlo, dlo + 1, dlo - 1, 0])
    if causal:
        nlo = dlo + rng.choice([0, 0, 0, 1])
    den = _pairs(rng, dlo, rng.choice([1, 1, 2, 2, 3]), pool, lead=_units(pool) if causal else [c for c in pool if c != 0])
    if causal and den and min(k for k, _ in den) != dlo:
        den = den + [[dlo, enc(rng.choice(_units(pool)))]]
    num = _pairs(rng, nlo, rng.choice([0, 1, 1, 2, 2, 3]), pool)
    return ["f", num, den]


def _small(rng, pool=COEFFS):
    """a filter of order <= 2 with at most two terms per polynomial"""
    den = _pairs(rng, 0, rng.choice([1, 2]), pool, lead=_units(pool))[:2]
    num = _pairs(rng, rng.choice([0, 0, 1]), rng.choice([0, 1, 2, 2]), pool)
    f = lambda ps: [p for p in ps if p[0] <= 2]
    return ["f", f(num), f(den) or [[0, 1]]]


def _mono(rng, pool=COEFFS):
    """monomial filters c*z^-k (both polynomials have one term: the no-flip branch of __pow__)"""
    return ["f", [[rng.randint(-2, 3), enc(rng.choice(pool))]], [[0, enc(rng.choice(_units(pool)))]]]


def _same_den(rng, t, pool=COEFFS):
    """a leaf with the denominator of leaf t (drives the same-denominator shortcut of __add__)"""
    if t[0] == "f":
        lo = min([k for k, _ in t[2]] + [0])
        d = list(t[2])
        rng.shuffle(d)
        return ["f", _pairs(rng, lo, rng.choice([1, 2, 3]), pool), d]
    if t[0] == "fl":
        return ["fl", [enc(_coeff(rng, pool, 0.15)) for _ in range(rng.randint(1, 3))], list(t[2])]
    return ["s", enc(_coeff(rng, pool))]


def _spell(rng, c):
    """a way to write the number c in Python (class (b): int / float / Fraction / bool)"""
    c = dec(c)
    ks = ["fraction"]
    if c.denominator == 1:
        ks += ["int", "int"]
    if c.denominator & (c.denominator - 1) == 0:
        ks += ["float"]
    if c in (0, 1):
        ks += ["bool", "bool"]
    return rng.choice(ks)


def _number(c, kind):
    c = dec(c)
    if kind == "int":
        return int(c)
    if kind == "float":
        return float(c)
    if kind == "bool":
        return bool(c)
    if kind == "complex":
        return complex(c)
    return c


def _extra(rng, depth, causal, pool):
    """operand kinds / call shapes of the arithmetic dunders and of the constructor beyond filter-op-filter"""
    r = rng.random()
    sub = lambda d=depth - 1: _tree(rng, max(d, 0), causal, pool)
    if r < 0.2:
        return [rng.choice(["dom", "dom", "rdom"]), rng.choice(BIN), sub(), sub(0)]
    if r < 0.55:
        kind = rng.choice(["bool", "float", "float", "fraction", "complex", "int"])
        n = rng.choice([0, 1]) if kind == "bool" else rng.choice([0, 1, 2, 3, -1, -2] if not causal else [0, 1, 2])
        base = _mono(rng, pool) if (not causal and rng.random() < 0.5) else sub(1)
        return ["powk", base, n, kind]
    if r < 0.75:
        return ["cast", sub()]
    if r < 0.9 and not causal:
        return ["castdiv", sub(), sub(1)]
    return ["castdivs", sub(), enc(_coeff(rng, pool, 0.1))]


def _tree(rng, depth, causal=False, pool=COEFFS):
    if depth <= 0 or rng.random() < 0.18:
        return _leaf(rng, causal, pool)
    if rng.random() < 0.09:
        return _extra(rng, depth, causal, pool)
    r = rng.random()
    if r < 0.5:
        op = rng.choice(("add", "sub", "mul", "add", "sub", "mul", "div") if not causal else ("add", "sub", "mul"))
        a = _tree(rng, depth - 1, causal, pool)
        if op in ("add", "sub") and a[0] in LEAVES and rng.random() < 0.4:
            b = _same_den(rng, a, pool)
        else:
            b = _tree(rng, depth - 1, causal, pool)
        if rng.random() < 0.5:
            a, b = b, a
        return [op, a, b]
    if r < 0.57:
        return [rng.choice(UN), _tree(rng, depth - 1, causal, pool)]
    if r < 0.72:
        ops = SCAL_L + SCAL_R if not causal else ("adds", "subs", "muls", "divs", "radds", "rsubs", "rmuls")
        op = rng.choice(ops)
        c = enc(_coeff(rng, pool, 0.08))
        sub = _tree(rng, depth - 1, causal, pool)
        kind = _spell(rng, c)
        return [op, c, sub, kind] if op.startswith("r") else [op, sub, c, kind]
    if r < 0.87:
        n = rng.choice([0, 1, 2, 2, 3, 4, -1, -1, -2, -3] if not causal else [0, 1, 2, 2, 3])
        base = _mono(rng, pool) if (not causal and rng.random() < 0.25) else _tree(rng, min(depth - 1, 1), causal, pool)
        return ["pow", base, n]
    if causal:
        return ["mul", _tree(rng, depth - 1, causal, pool), _tree(rng, depth - 1, causal, pool)]
    inner = rng.choice([["z"], ["pow", ["z"], -1], ["pow", ["z"], -2], _mono(rng, pool)]) if rng.random() < 0.45 \
        else _tree(rng, min(depth - 1, 1), False, pool)
    outer = _leaf(rng, rng.random() < 0.5, pool)
    return ["subst", outer, inner]


def _span(t):
    """crude upper bound (numerator span, denominator span) of the result, to keep cases small"""
    op = t[0]
    if op == "f":
        sp = lambda ps: (max(k for k, _ in ps) - min(k for k, _ in ps) + abs(min(k for k, _ in ps))) if ps else 0
        return sp(t[1]) + 1, sp(t[2]) + 1
    if op == "fl":
        return len(t[1]), len(t[2])
    if op == "z":
        return 1, 0
    if op == "s":
        return 0, 0
    if op in UN or op in ("cast", "lfcast", "castdivs"):
        return _span(t[1])
    if op in ("dom", "rdom"):
        (a, b), (c, d) = _span(t[2]), _span(t[3])
        return max(a + d, c + b), b + d
    if op == "castdiv":
        (a, b), (c, d) = _span(t[1]), _span(t[2])
        return a + d, b + c
    if op == "powk":
        a, b = _span(t[1])
        n = max(abs(t[2]), 1)
        return max(a, b) * n, max(a, b) * n
    if op in SCAL_L or op in SCAL_R:
        n, d = _span(t[2] if op in SCAL_R else t[1])
        return (n + d, n + d) if op == "rdivs" else (max(n, d), d)
    if op in ("add", "sub"):
        (a, b), (c, d) = _span(t[1]), _span(t[2])
        return max(a + d, c + b), b + d
    if op == "mul":
        (a, b), (c, d) = _span(t[1]), _span(t[2])
        return a + c, b + d
    if op == "div":
        (a, b), (c, d) = _span(t[1]), _span(t[2])
        return a + d, b + c
    if op == "pow":
        a, b = _span(t[1])
        n = max(abs(t[2]), 1)
        return max(a, b) * n, max(a, b) * n
    if op == "subst":
        (a, b), (c, d) = _span(t[1]), _span(t[2])
        g = max(c, d, 1)
        s = (a * (a + 1) // 2 + b * (b + 1) // 2 + a + b) * g
        return s, s
    raise ValueError(op)


def _gen_tree(rng, depth, causal=False, pool=COEFFS, limit=26):
    for _ in range(60):
        t = _tree(rng, depth, causal, pool)
        if max(_span(t)) <= limit:
            return t
    return _leaf(rng, causal, pool)


def _signal(rng, n=None):
    n = rng.choice([0, 1, 3, 5, 6, 8]) if n is None else n
    pool = [F(0), F(1), F(-1), F(2), F(3), F(1, 2), F(-3, 2), F(5), F(-4), F(7, 4)]
    return [enc(rng.choice(pool)) for _ in range(n)]


def _perturb(rng, ps):
    ps = [list(p) for p in ps]
    if not ps:
        return [[rng.randint(0, 3), enc(rng.choice(COEFFS))]]
    i = rng.randrange(len(ps))
    r = rng.random()
    if r < 0.45:
        ps[i][1] = enc(dec(ps[i][1]) + rng.choice([F(1), F(-1, 2), F(3)]))
        if dec(ps[i][1]) == 0:
            ps[i][1] = 7
    elif r < 0.7:
        ps[i][0] = max(k for k, _ in ps) + rng.choice([1, 2])
    elif r < 0.85 and len(ps) > 1:
        del ps[i]
    else:
        ps.append([max(k for k, _ in ps) + 1, enc(rng.choice(COEFFS))])
    return ps


def _gen_eq(rng):
    """pairs drawn to be equal / different in numerator only / denominator only / both"""
    dlo = 0
    den = _pairs(rng, dlo, rng.choice([1, 2, 3]), COEFFS)
    num = _pairs(rng, rng.choice([0, 0, 1, -1]), rng.choice([0, 1, 2, 3]), COEFFS)
    num = [p for p in num if dec(p[1]) != 0]
    den = [p for p in den if dec(p[1]) != 0] or [[0, 1]]
    p = ["f", num, den]
    sn, sd = list(num), list(den)
    rng.shuffle(sn)
    rng.shuffle(sd)
    kind = rng.choice(["equal", "equal", "num", "num", "den", "den", "both", "algebra", "shifted"])
    if kind == "equal":
        q = ["f", sn + ([[9, 0]] if rng.random() < 0.3 else []), sd]
    elif kind == "num":
        q = ["f", _perturb(rng, sn), sd]
    elif kind == "den":
        q = ["f", sn, _perturb(rng, sd)]
    elif kind == "both":
        q = ["f", _perturb(rng, sn), _perturb(rng, sd)]
    elif kind == "shifted":
        s = rng.choice([1, 2, -1])      # same filter written with a common delay: the constructor normalises it
        q = ["f", [[k + s, c] for k, c in sn], [[k + s, c] for k, c in sd]]
    else:
        t = _leaf(rng)
        q = rng.choice([["sub", ["add", p, t], t], ["mul", p, ["s", 1]], ["add", ["s", 0], p], ["pos", p],
                        ["neg", ["neg", p]], ["pow", p, 1], ["muls", p, 2]])
    return {"entry": "eq", "p": p, "q": q, "kind": kind}


def _gen_list(rng, quick):
    kind = rng.choice(["cascade", "parallel", "parallel"])
    n = rng.choice([0, 1, 2, 2, 3, 3, 4])
    pool = INTS if rng.random() < 0.75 else DYADIC
    fs = []
    for i in range(n):
        if fs and rng.random() < 0.35:
            base = rng.choice(fs)
            fs.append(_same_den(rng, base, pool) if base[0] in ("f", "fl") and rng.random() < 0.7 else base)
        else:
            fs.append(_leaf(rng, causal=rng.random() < 0.9, pool=pool))
    return {"entry": "list", "kind": kind, "fs": fs, "xs": _signal(rng)}


# ----------------------------------------------------------------------------
# filter list objects: nested structures, constructor call shapes, list methods
# ----------------------------------------------------------------------------
SHAPES = ("star", "star", "star", "list", "tuple", "gen")
_FL_CHILD = {"new", "add", "mul", "rmul", "append", "extend", "imul"}


def _part_leaf(rng, pool, fn_p=0.05, num_p=0.1):
    r = rng.random()
    if r < fn_p:
        return ["fn", rng.randint(0, 3)]
    if r < fn_p + num_p:
        return ["n", enc(rng.choice([F(0), F(1), F(2), F(-1), F(3), F(1, 2)]))]
    for _ in range(20):
        t = _leaf(rng, causal=rng.random() < 0.93, pool=pool)
        # a zero filter next to a filter list in a parallel makes `zf + ZFilter([filter_list])` succeed with a filter list as
        # a coefficient (no coefficient arithmetic happens): kept rare, see _garbage_possible
        if rng.random() < 0.1 or (t[0] in ("f", "fl") and any(dec(v if not isinstance(v, list) else v[1]) != 0 for v in t[1])):
            return ["zf", t]
    return ["zf", ["fl", [1], [1]]]


def _gen_node(rng, depth, pool, fn_p=0.05):
    """a filter list expression: any mixture of kinds, 0 / 1 / many parts, every constructor call shape"""
    par = rng.random() < 0.5
    sub = rng.choice([0, 0, 0, 0, 0, 1, 1, 2])
    n = rng.choice([0, 1, 1, 1, 2, 2, 2, 3])
    parts = []
    for _ in range(n):
        if depth > 0 and rng.random() < 0.5:
            parts.append(_gen_fl(rng, depth - 1, pool, fn_p))
        else:
            parts.append(_part_leaf(rng, pool, fn_p))
    shape = rng.choice(SHAPES)
    if shape == "star" and n == 1 and parts[0][0] in _FL_CHILD and rng.random() < 0.3:
        pass                    # K(P): the lone filter list of whatever kind is ONE part
    return ["new", par, sub, shape, parts]


def _gen_fl(rng, depth, pool, fn_p=0.05):
    """a filter list built by the constructor or by a `list` method of another one"""
    r = rng.random()
    if depth <= 0 or r < 0.62:
        return _gen_node(rng, depth, pool, fn_p)
    a = _gen_node(rng, depth - 1, pool, fn_p)
    if r < 0.72:
        b = _gen_node(rng, depth - 1, pool, fn_p) if rng.random() < 0.6 else \
            ["plain", False, [_part_leaf(rng, pool, fn_p) for _ in range(rng.choice([0, 1, 2]))]]
        return ["add", a, b]
    if r < 0.79:
        return [rng.choice(["mul", "rmul", "imul"]), a, rng.choice([0, 1, 2, 2, -1])] if rng.random() < 0.67 else \
            ["rmul", rng.choice([0, 1, 2]), a]
    if r < 0.87:
        x = _gen_node(rng, depth - 1, pool, fn_p) if rng.random() < 0.5 else _part_leaf(rng, pool, fn_p)
        return ["append", a, x]
    if r < 0.95:
        b = _gen_node(rng, depth - 1, pool, fn_p) if rng.random() < 0.5 else \
            ["plain", rng.random() < 0.5, [_part_leaf(rng, pool, fn_p) for _ in range(rng.choice([0, 1, 2]))]]
        return ["extend", a, b]
    # a slice is a plain list: handed alone to a constructor it is unpacked again
    n = rng.choice([0, 1, 2])
    return ["new", rng.random() < 0.5, 0, "star", [["slice", a, rng.choice([0, 0, 1]), rng.choice([1, 2, 3])]]]


def _fix_ops(t):
    if t[0] == "rmul" and isinstance(t[1], list):
        return ["rmul", t[2], t[1]]
    return t


def _norm_obj(t):
    """rmul is written ["rmul", n, obj]"""
    if not isinstance(t, list) or not t:
        return t
    t = _fix_ops(t)
    op = t[0]
    if op in ("zf", "n", "fn"):
        return t
    if op == "new":
        return t[:4] + [[_norm_obj(x) for x in t[4]]]
    if op == "plain":
        return t[:2] + [[_norm_obj(x) for x in t[2]]]
    if op == "rmul":
        return ["rmul", t[1], _norm_obj(t[2])]
    return [op] + [_norm_obj(x) if isinstance(x, list) else x for x in t[1:]]


def _gen_nest(rng, quick):
    pool = INTS if rng.random() < 0.8 else DYADIC
    depth = rng.choice([0, 1, 1, 2, 2, 3])
    r = rng.random()
    if r < 0.08:
        obj = ["slice", _gen_node(rng, 1, pool), rng.choice([0, 1]), rng.choice([1, 2, 3])]
    elif r < 0.12:
        obj = ["add", ["plain", False, [_part_leaf(rng, pool)]], _gen_node(rng, 1, pool)]
    elif r < 0.16:
        obj = ["add", _gen_node(rng, 1, pool), rng.choice([["plain", True, [_part_leaf(rng, pool)]], ["zf", _leaf(rng, True, pool)],
                                                      ["n", 2]])]
    else:
        obj = _gen_fl(rng, depth, pool)
    return {"entry": "nest", "obj": _norm_obj(obj), "xs": _signal(rng, rng.choice([0, 1, 3, 5]))}


def _gen_eqm(rng):
    """a pool of objects of every sort that can meet in a comparison; both operand orders are in the matrix"""
    pool = INTS
    f, g = _leaf(rng, True, pool), _leaf(rng, True, pool)
    if rng.random() < 0.3:
        g = _same_den(rng, f, pool) if f[0] in ("f", "fl") else g
    zf = lambda t: ["zf", t]
    new = lambda par, shape, parts, sub=0: ["new", par, sub, shape, parts]
    cand = [
        new(False, "star", [zf(f), zf(g)]), new(False, "list", [zf(f), zf(g)]), new(True, "star", [zf(f), zf(g)]),
        new(True, "tuple", [zf(f), zf(g)]), new(False, "star", [zf(g), zf(f)]), new(False, "star", [zf(f)]),
        new(True, "star", [zf(f)]), new(False, "star", []), new(True, "star", []), ["plain", False, [zf(f), zf(g)]],
        ["plain", True, [zf(f), zf(g)]], ["plain", False, []], ["plain", True, [zf(f)]], zf(f), zf(g), zf(["cast", f]),
        zf(["lfcast", f]), zf(["pos", f]), ["n", 1], ["n", 0], ["n", enc(rng.choice(INTS))], ["fn", 0], ["fn", 2],
        new(False, "star", [["fn", 0]]), new(True, "star", [["fn", 0]]), new(False, "star", [["n", 1]]),
        new(False, "star", [zf(f), zf(g)], 1), new(True, "star", [zf(f), zf(g)], 1), new(False, "star", [zf(f), zf(g)], 2),
        new(False, "star", [new(True, "star", [zf(f), zf(g)])]), new(True, "star", [new(False, "star", [zf(f), zf(g)])]),
        new(False, "list", [new(True, "star", [zf(f), zf(g)])]), new(True, "star", [new(True, "star", [zf(f), zf(g)])]),
        ["add", new(False, "star", [zf(f)]), new(True, "star", [zf(g)])], ["add", new(True, "star", [zf(f)]), ["plain", False, [zf(g)]]],
        ["mul", new(False, "star", [zf(f)]), 2], new(False, "star", [zf(f), zf(f)]),
        ["extend", new(True, "star", [zf(f)]), ["plain", True, [zf(g)]]], ["slice", new(False, "star", [zf(f), zf(g)]), 0, 2],
        _gen_node(rng, 1, pool), _gen_node(rng, 2, pool),
    ]
    k = rng.choice([6, 8, 10])
    chosen = rng.sample(cand, k)
    if rng.random() < 0.7:          # make sure a cascade and a parallel with the same parts meet
        chosen[0], chosen[1] = cand[0], cand[2]
    return {"entry": "eqm", "pool": [_norm_obj(x) for x in chosen]}


def _gen_frac(rng):
    """filters with fractional delays (dyadic, so that the floats are exact) and their linearisation"""
    half = [F(1, 2), F(1, 4), F(3, 4), F(5, 4), F(9, 4), F(7, 2), F(17, 4), F(-1, 2), F(-5, 4), F(2), F(0), F(1), F(3), F(-1)]
    if rng.random() < 0.25:
        return {"entry": "frac", "via": "zpow", "e": enc(rng.choice([F(-17, 4), F(-1, 2), F(1, 2), F(-2), F(-9, 4), F(3, 4), F(5, 4)])),
                "num": [], "den": [[0, 1]]}
    ks = rng.sample(half, rng.choice([1, 2, 3]))
    num = [[enc(k), enc(rng.choice(DYADIC))] for k in ks]
    den = [[0, enc(rng.choice(UNITS))]] + [[k, enc(rng.choice(DYADIC))] for k in rng.sample([1, 2, 3], rng.choice([0, 1]))]
    if rng.random() < 0.2:
        den.append([enc(rng.choice([F(1, 2), F(5, 4), F(7, 2)])), enc(rng.choice(DYADIC))])
    return {"entry": "frac", "via": rng.choice(["dict", "dict", "fraction-keys"]), "num": num, "den": den}


# ----------------------------------------------------------------------------
# histories of one mutable filter list (entry "hist") and substitution against evaluation at points (entry "substpt")
# ----------------------------------------------------------------------------
def _hist_leaf(rng, pool):
    """a causal ZFilter given as normalised dictionaries (the constructor keeps the powers)"""
    den = [[0, enc(rng.choice(_units(pool)))]] + [[k, enc(rng.choice([c for c in pool if c != 0]))]
                                                  for k in sorted(rng.sample([1, 2, 3], rng.choice([0, 1, 1, 2])))]
    num = [[k, enc(rng.choice([c for c in pool if c != 0]))] for k in sorted(rng.sample([0, 1, 2, 3], rng.choice([1, 2, 2, 3])))]
    if rng.random() < 0.08:
        num = [[-1, enc(rng.choice([c for c in pool if c != 0]))]] + num       # non-causal: numlist / call raise ValueError
    return ["zf", ["f", num, den]]


def _same_powers(rng, leaf, pool):
    """another filter with the SAME powers in both polynomials and other coefficients (LinearFilter.__hash__ is the
    same: it hashes only the powers)"""
    t = leaf[1]
    nz = [c for c in pool if c != 0]
    for _ in range(10):
        num = [[k, enc(rng.choice(nz))] for k, _ in t[1]]
        den = [[k, enc(rng.choice(_units(pool)) if k == 0 else rng.choice(nz))] for k, _ in t[2]]
        if num != t[1] or den != t[2]:
            return ["zf", ["f", num, den]]
    return ["zf", ["f", [[k, enc(-dec(v))] for k, v in t[1]], t[2]]]


def _hist_part(rng, pool, depth=1):
    r = rng.random()
    if r < 0.08:
        return ["n", enc(rng.choice([F(1), F(2), F(-1), F(3)]))]
    if r < 0.2 and depth > 0:
        return ["new", rng.random() < 0.5, 0, "star", [_hist_part(rng, pool, 0) for _ in range(rng.choice([1, 2]))]]
    if r < 0.23:
        return ["fn", rng.randint(0, 3)]
    return _hist_leaf(rng, pool)


def _gen_hist(rng):
    pool = rng.choice([INTS, INTS, DYADIC])
    par = rng.random() < 0.6
    parts = [_hist_part(rng, pool) for _ in range(rng.choice([1, 2, 2, 3]))]
    obj = ["new", par, rng.choice([0, 0, 0, 1]), "star", parts]
    cur = list(parts)
    evs = []
    read = lambda: rng.choice([["polys"], ["polys"], ["lists"], ["call", _signal(rng, rng.choice([1, 3, 4]))]])
    evs.append(read())
    for _ in range(rng.choice([1, 2, 2, 3])):
        r = rng.random()
        if r < 0.55 and cur:
            i = rng.randrange(len(cur))
            g = _same_powers(rng, cur[i], pool) if cur[i][0] == "zf" and rng.random() < 0.75 else _hist_part(rng, pool)
            evs.append(["set", i if rng.random() < 0.6 else i - len(cur), g])
            cur[i] = g
        elif r < 0.75:
            cur = [(_same_powers(rng, x, pool) if x[0] == "zf" and rng.random() < 0.6 else _hist_part(rng, pool)) for x in cur] \
                if rng.random() < 0.6 and cur else [_hist_part(rng, pool) for _ in range(rng.choice([1, 2]))]
            evs.append(["setall", list(cur)])
        elif r < 0.9:
            g = _hist_part(rng, pool)
            evs.append(["append", g])
            cur.append(g)
        else:
            gs = [_hist_part(rng, pool) for _ in range(rng.choice([1, 2]))]
            evs.append(["extend", gs])
            cur.extend(gs)
        evs.append(read())
        if rng.random() < 0.5:
            evs.append(read())
    return {"entry": "hist", "obj": obj, "evs": evs}


GAINS = [F(2), F(1, 2), F(1, 3), F(-2), F(3), F(-1, 2), F(3, 2), F(1), F(-1)]
POINTS = [F(2), F(-1), F(1, 2), F(3), F(-3, 2), F(1, 3), F(5, 2)]


def _gen_substpt(rng):
    pool = rng.choice([COEFFS, INTS, DYADIC])
    f = _small(rng, pool) if rng.random() < 0.7 else _leaf(rng, causal=True, pool=pool)
    r = rng.random()
    if r < 0.6:
        # a monomial gain * z**-delay with a non-unit gain, spelled as the user writes it
        c, d = rng.choice(GAINS), rng.choice([-2, -1, -1, 1, 1, 2, 3])
        g = ["muls", ["pow", ["z"], -d], enc(c), "fraction"] if rng.random() < 0.5 else ["rmuls", enc(c), ["pow", ["z"], -d], "fraction"]
    elif r < 0.75:
        g = _mono(rng, pool)
    else:
        g = _small(rng, pool)
    return {"entry": "substpt", "f": f, "g": g, "pts": [enc(z) for z in rng.sample(POINTS, 3)]}


def _fixed_objs():
    f = ["zf", ["fl", [1, "1/2"], [1]]]
    g = ["zf", ["fl", [2, 0, -1], [1, "-1/4"]]]
    h = ["zf", ["fl", [0, 1], [1]]]
    k = ["zf", ["fl", [1], [1, "1/2"]]]
    xs = [1, -2, 3, 5, 0]
    new = lambda par, shape, parts, sub=0: ["new", par, sub, shape, parts]
    out = []
    P, C = new(True, "star", [f, g]), new(False, "star", [f, g])
    P2, C2 = new(True, "star", [h, k]), new(False, "star", [h, k])
    for par in (False, True):
        for inner in (P, C, new(True, "star", []), new(False, "star", []), f, ["n", 2], ["fn", 0]):
            for shape in ("star", "list", "tuple", "gen"):
                out.append({"entry": "nest", "obj": new(par, shape, [inner]), "xs": xs})
            out.append({"entry": "nest", "obj": new(par, "star", [new(par, "star", [inner]), f]), "xs": xs})
            out.append({"entry": "nest", "obj": new(par, "star", [inner], 1), "xs": xs})
        for a in (P, C, f, ["n", 2]):
            for b in (P2, C2, h, ["n", 3]):
                out.append({"entry": "nest", "obj": new(par, "star", [a, b]), "xs": xs})
        out.append({"entry": "nest", "obj": new(par, "star", []), "xs": xs})
    for a in (P, C, new(False, "star", [f, g], 1), new(True, "star", [f, g], 2)):
        for b in (P2, C2, ["plain", False, [h]], ["plain", True, [h]], h):
            out.append({"entry": "nest", "obj": ["add", a, b], "xs": xs})
        for n in (0, 1, 2, -1):
            out.append({"entry": "nest", "obj": ["mul", a, n], "xs": xs})
            out.append({"entry": "nest", "obj": ["rmul", n, a], "xs": xs})
            out.append({"entry": "nest", "obj": ["imul", a, n], "xs": xs})
        out.append({"entry": "nest", "obj": ["append", a, P2], "xs": xs})
        out.append({"entry": "nest", "obj": ["extend", a, C2], "xs": xs})
        out.append({"entry": "nest", "obj": ["extend", a, ["plain", True, [h, k]]], "xs": xs})
        out.append({"entry": "nest", "obj": ["slice", a, 0, 1], "xs": xs})
    pool = [C, new(False, "list", [f, g]), P, new(True, "gen", [f, g]), new(False, "star", [g, f]), new(False, "star", [f]),
            new(True, "star", [f]), new(False, "star", []), new(True, "star", []), f, g, ["zf", ["cast", f[1]]],
            ["zf", ["lfcast", f[1]]], ["plain", False, [f, g]], ["plain", True, [f, g]], ["n", 1], ["fn", 0],
            new(False, "star", [f, g], 1), new(False, "star", [P]), new(True, "star", [C])]
    out.append({"entry": "eqm", "pool": pool})
    out.append({"entry": "frac", "via": "dict", "num": [["17/4", 1], ["-1/2", 2], [2, 3], [3, 1]], "den": [[0, 1], [1, "1/2"]]})
    out.append({"entry": "frac", "via": "zpow", "e": "-17/4", "num": [], "den": [[0, 1]]})
    out.append({"entry": "frac", "via": "zpow", "e": "1/2", "num": [], "den": [[0, 1]]})
    return out


def _fixed_cases():
    """small exhaustive universe: every operator on every pair of a fixed set of small filters"""
    base = [["z"], ["s", 0], ["s", 2], ["f", [[0, 1], [1, 1]], [[0, 1], [1, "-1/2"]]],
            ["f", [[1, 2]], [[0, 1]]], ["f", [[0, 1]], [[0, 2], [2, 1]]], ["fl", [1, -1], [1]],
            ["f", [], [[0, 1], [1, 1]]], ["f", [[0, 3], [2, "1/2"]], [[1, 1], [2, -1]]],
            ["f", [[-1, 1], [0, 1]], [[0, 1]]]]
    xs = [1, 2, 0, -1, "1/2"]
    out = []
    for a in base:
        for b in base:
            for op in BIN + ("subst",):
                out.append({"entry": "tree", "tree": [op, a, b], "xs": xs})
        for n in (-2, -1, 0, 1, 2, 3):
            out.append({"entry": "tree", "tree": ["pow", a, n], "xs": xs})
        for op in UN:
            out.append({"entry": "tree", "tree": [op, a], "xs": xs})
        for c in (0, 1, 2, "-1/2"):
            for op in SCAL_L:
                out.append({"entry": "tree", "tree": [op, a, c], "xs": xs})
            for op in SCAL_R:
                out.append({"entry": "tree", "tree": [op, c, a], "xs": xs})
    f = ["f", [[0, 1], [1, 1]], [[0, 1], [1, "-1/2"]]]
    g = ["f", [[0, 1], [1, 2]], [[0, 1], [1, "-1/2"]]]
    h = ["f", [[0, 1], [1, 1]], [[0, 1], [1, "1/2"]]]
    for q, kind in ((f, "equal"), (g, "num"), (h, "den"), (["f", [[0, 2]], [[0, 1], [2, 1]]], "both")):
        out.append({"entry": "eq", "p": f, "q": q, "kind": kind})
    out.append({"entry": "list", "kind": "parallel", "fs": [f, f], "xs": xs})
    out.append({"entry": "list", "kind": "parallel", "fs": [f, g, h], "xs": xs})
    out.append({"entry": "list", "kind": "parallel", "fs": [f, h], "xs": xs})
    out.append({"entry": "list", "kind": "cascade", "fs": [f, h, g], "xs": xs})
    out.append({"entry": "list", "kind": "cascade", "fs": [], "xs": xs})
    out.append({"entry": "list", "kind": "parallel", "fs": [], "xs": xs})
    out.append({"entry": "tree", "tree": ["f", [[0, 1]], []], "xs": xs})          # empty denominator: ValueError
    out.append({"entry": "tree", "tree": ["f", [[0, 1]], [[0, 0]]], "xs": xs})
    for a in base:
        for op in BIN:
            out.append({"entry": "tree", "tree": ["dom", op, a, base[3]], "xs": xs})
            out.append({"entry": "tree", "tree": ["rdom", op, a, base[3]], "xs": xs})
        for kind in KINDS:
            for n in ((0, 1) if kind == "bool" else (-2, -1, 0, 1, 2)):
                out.append({"entry": "tree", "tree": ["powk", a, n, kind], "xs": xs})
        out.append({"entry": "tree", "tree": ["cast", a], "xs": xs})
        out.append({"entry": "tree", "tree": ["castdiv", a, base[5]], "xs": xs})
        for c, kind in ((2, "int"), (2, "float"), (2, "fraction"), (1, "bool"), (0, "bool"), (0, "int"), ("1/2", "float")):
            out.append({"entry": "tree", "tree": ["castdivs", a, c, kind], "xs": xs})
            for op in SCAL_L:
                out.append({"entry": "tree", "tree": [op, a, c, kind], "xs": xs})
            for op in SCAL_R:
                out.append({"entry": "tree", "tree": [op, c, a, kind], "xs": xs})
    out.extend(_fixed_objs())
    return out


def generate(rng, tier, scale=1):
    quick = tier == "quick"
    n_tree = (1400 if quick else 40000) * scale
    n_laws = (600 if quick else 9000) * scale
    n_eq = (700 if quick else 12000) * scale
    n_list = (400 if quick else 8000) * scale
    n_nest = (900 if quick else 16000) * scale
    n_eqm = (120 if quick else 2000) * scale
    n_frac = (150 if quick else 2000) * scale
    depth = 3 if quick else 4
    cases = []
    if scale == 1:
        cases.extend(_fixed_cases())
    for i in range(n_tree):
        causal = rng.random() < 0.35
        pool = rng.choice([INTS, INTS, DYADIC]) if (causal or rng.random() < 0.3) else COEFFS
        t = _gen_tree(rng, rng.choice([1, 2, 2, depth, depth]), causal, pool)
        cases.append({"entry": "tree", "tree": t, "xs": _signal(rng)})
    for i in range(n_laws):
        causal = rng.random() < 0.7
        d = rng.choice([0, 0, 1, 1, 2])
        pool = rng.choice([INTS, INTS, INTS, DYADIC]) if causal else rng.choice([COEFFS, INTS])
        if i % 3 == 0:
            # substitution laws: small operands (the degree of f(h) grows with order(f)^2 * order(h))
            cases.append({"entry": "laws", "subst": True,
                          "f": _small(rng, pool), "g": _small(rng, pool),
                          "h": rng.choice([["z"], ["pow", ["z"], -1], ["pow", ["z"], -2], _mono(rng, pool), _small(rng, pool),
                                           _small(rng, pool)]),
                          "n": rng.choice([0, 1, 2]), "m": rng.choice([0, 1]), "k": rng.choice([0, 1, 2]),
                          "c": enc(_coeff(rng, pool if pool is INTS else DYADIC, 0.1)), "xs": _signal(rng, rng.choice([1, 4]))})
            continue
        cases.append({"entry": "laws", "subst": False,
                      "f": _gen_tree(rng, d, causal, pool, 8), "g": _gen_tree(rng, d, causal, pool, 8),
                      "h": _gen_tree(rng, min(d, 1), causal, pool, 6),
                      "n": rng.choice([0, 1, 2, 2, 3]), "m": rng.choice([0, 1, 1, 2]),
                      "k": rng.choice([0, 1, 2, 3, 5]), "c": enc(_coeff(rng, pool if pool is INTS else DYADIC, 0.1)),
                      "xs": _signal(rng, rng.choice([1, 4, 6, 8]))})
    for i in range(n_eq):
        cases.append(_gen_eq(rng))
    for i in range(n_list):
        cases.append(_gen_list(rng, quick))
    for i in range(n_nest):
        cases.append(_gen_nest(rng, quick))
    for i in range(n_eqm):
        cases.append(_gen_eqm(rng))
    for i in range(n_frac):
        cases.append(_gen_frac(rng))
    for i in range((260 if quick else 5000) * scale):
        cases.append(_gen_hist(rng))
    for i in range((260 if quick else 5000) * scale):
        cases.append(_gen_substpt(rng))
    return cases


# ----------------------------------------------------------------------------
# the real code
# ----------------------------------------------------------------------------
_BR = []      # branch labels of the modelled code reached while building the current case (histograms only)


def _mk(num, den):
    from audiolazy import ZFilter, Poly
    return ZFilter(Poly(num, zero=Z), Poly(den, zero=Z))


def _od(pairs):
    return OrderedDict((int(k), dec(c)) for k, c in pairs)


def _len2(f):
    return len(f.numpoly) >= 2 or len(f.denpoly) >= 2


def _build(t):
    from audiolazy import ZFilter, z
    op = t[0]
    if op == "f":
        return _mk(_od(t[1]), _od(t[2]))
    if op == "fl":
        return _mk([dec(c) for c in t[1]], [dec(c) for c in t[2]])
    if op == "z":
        return z
    if op == "s":
        return ZFilter([dec(t[1])])
    if op == "neg":
        return -_build(t[1])
    if op == "pos":
        return +_build(t[1])
    if op in BIN:
        a, b = _build(t[1]), _build(t[2])
        if op in ("add", "sub"):
            _BR.append("add:same denominator (shortcut)" if a.denpoly == b.denpoly else "add:general")
        r = {"add": operator.add, "sub": operator.sub, "mul": operator.mul, "div": operator.truediv}[op](a, b)
        return r
    if op == "pow":
        a = _build(t[1])
        n = t[2]
        _BR.append("pow:n<0 flip" if (n < 0 and _len2(a)) else ("pow:n<0 monomials" if n < 0 else
                                                                  ("pow:n=0" if n == 0 else "pow:n>0")))
        return a ** n
    if op == "subst":
        a, b = _build(t[1]), _build(t[2])
        _BR.append("subst:%s numerator, %s argument" % ("empty" if len(a.numpoly) == 0 else "non-empty",
                                                         "monomial" if not _len2(b) else "general"))
        return a(b)
    if op in SCAL_L:
        a, c = _build(t[1]), dec(t[2])
        if len(t) > 3:
            c = _number(t[2], t[3])
            _BR.append("scalar spelled %s" % t[3])
        return {"adds": operator.add, "subs": operator.sub, "muls": operator.mul, "divs": operator.truediv}[op](a, c)
    if op in SCAL_R:
        c, a = dec(t[1]), _build(t[2])
        if len(t) > 3:
            c = _number(t[1], t[3])
            _BR.append("scalar spelled %s (reflected)" % t[3])
        return {"radds": operator.add, "rsubs": operator.sub, "rmuls": operator.mul, "rdivs": operator.truediv}[op](c, a)
    if op == "dom":
        # the right operand is a LinearFilter that is not a ZFilter
        from audiolazy import LinearFilter
        a, b = _build(t[2]), LinearFilter(_build(t[3]))
        _BR.append("domain: ZFilter %s LinearFilter" % t[1])
        return {"add": operator.add, "sub": operator.sub, "mul": operator.mul, "div": operator.truediv}[t[1]](a, b)
    if op == "rdom":
        # a ZFilter handed to a reflected dunder
        a, b = _build(t[2]), _build(t[3])
        _BR.append("domain: reflected dunder with a ZFilter")
        return getattr(a, {"add": "__radd__", "sub": "__rsub__", "mul": "__rmul__", "div": "__rtruediv__"}[t[1]])(b)
    if op == "powk":
        a = _build(t[1])
        n = {"int": int, "bool": bool, "float": float, "fraction": F, "complex": complex}[t[3]](t[2])
        _BR.append("pow: exponent spelled %s, %s" % (t[3], "general" if _len2(a) else "monomials"))
        return a ** n
    if op == "cast":
        _BR.append("constructor: ZFilter(filter)")
        return ZFilter(_build(t[1]))
    if op == "lfcast":
        from audiolazy import LinearFilter
        _BR.append("constructor: LinearFilter(filter)")
        return LinearFilter(_build(t[1]))
    if op == "castdiv":
        a, b = _build(t[1]), _build(t[2])
        _BR.append("constructor: ZFilter(filter, filter)")
        return ZFilter(a, b)
    if op == "castdivs":
        a = _build(t[1])
        kind = t[3] if len(t) > 3 else "fraction"
        _BR.append("constructor: ZFilter(filter, number spelled %s)" % kind)
        return ZFilter(a, _number(t[2], kind))
    raise ValueError("bad tree op %r" % (op,))


def _strip(t):
    """the tree as the driver reads it: spellings of the scalars removed (the value is what the model sees)"""
    if not isinstance(t, list) or not t or not isinstance(t[0], str):
        return t
    op = t[0]
    if (op in SCAL_L or op in SCAL_R or op == "castdivs") and len(t) > 3:
        t = t[:3]
    if op in ("f", "fl", "s", "z", "n", "fn"):
        return t
    return [op] + [_strip(x) if (isinstance(x, list) and x and isinstance(x[0], str)) else
                   ([_strip(y) for y in x] if isinstance(x, list) and op in ("new", "plain") else x) for x in t[1:]]


def request(c):
    r = dict(c)
    for k in ("tree", "f", "g", "h", "p", "q", "obj"):
        if k in r:
            r[k] = _strip(r[k])
    if "fs" in r:
        r["fs"] = [_strip(t) for t in r["fs"]]
    if "pool" in r:
        r["pool"] = [_strip(t) for t in r["pool"]]
    if "evs" in r:
        r["evs"] = [[ev[0]] + [(_strip(x) if isinstance(x, list) and x and isinstance(x[0], str) else
                                ([_strip(y) for y in x] if ev[0] in ("setall", "extend") else x)) for x in ev[1:]]
                    for ev in r["evs"]]
    if r.get("entry") == "frac" and r.get("via") == "zpow":
        r["num"] = [[enc(-dec(r["e"])), 1]]          # z ** e : the numerator {-e: 1}
    return r


# ----------------------------------------------------------------------------
# filter list objects on the real code
# ----------------------------------------------------------------------------
_CLS = {}
_FNS = {}


def _cls(par, sub):
    from audiolazy import CascadeFilter, ParallelFilter
    key = (bool(par), int(sub))
    if key not in _CLS:
        if sub == 0:
            _CLS[key] = ParallelFilter if par else CascadeFilter
        else:
            base = _cls(par, sub - 1)
            _CLS[key] = type("My%s%d" % ("P" if par else "C", sub), (base,), {})
    return _CLS[key]


def _fn(i):
    """callables that are not linear filters; identity i, behaviour i % 2 (the driver's envFn)"""
    from audiolazy import Stream
    if i not in _FNS:
        if i % 2 == 0:
            _FNS[i] = lambda seq, zero=0, **kw: Stream(seq).map(lambda v: v * v)
        else:
            _FNS[i] = lambda seq, zero=0, **kw: Stream(seq).map(lambda v: v + 1)
    return _FNS[i]


def _build_obj(t):
    op = t[0]
    if op == "zf":
        return _build(t[1])
    if op == "n":
        c = dec(t[1])
        return int(c) if c.denominator == 1 else c
    if op == "fn":
        return _fn(t[1])
    if op == "plain":
        items = [_build_obj(x) for x in t[2]]
        return tuple(items) if t[1] else items
    if op == "new":
        cls = _cls(t[1], t[2])
        parts = [_build_obj(x) for x in t[4]]
        shape = t[3]
        _BR.append("constructor: %s with %s" % (shape, "1 part" if len(parts) == 1 else ("no part" if not parts else "parts")))
        if shape == "star":
            return cls(*parts)
        if shape == "list":
            return cls(list(parts))
        if shape == "tuple":
            return cls(tuple(parts))
        return cls(p for p in parts)
    if op == "add":
        return _build_obj(t[1]) + _build_obj(t[2])
    if op == "mul":
        return _build_obj(t[1]) * t[2]
    if op == "rmul":
        return t[1] * _build_obj(t[2])
    if op == "imul":
        a = _build_obj(t[1])
        a *= t[2]
        return a
    if op == "append":
        a = _build_obj(t[1])
        a.append(_build_obj(t[2]))
        return a
    if op == "extend":
        a, b = _build_obj(t[1]), _build_obj(t[2])
        if len(t[2]) > 2 and t[2][0] == "plain" and t[2][1]:
            a += b              # `+=` is list.__iadd__: any iterable
        else:
            a.extend(b)
        return a
    if op == "slice":
        return _build_obj(t[1])[t[2]:t[3]]
    raise ValueError("bad object op %r" % (op,))


def _shape(o):
    from audiolazy import CascadeFilter, ParallelFilter, LinearFilter
    from audiolazy.lazy_filters import FilterList
    if isinstance(o, FilterList):
        par = isinstance(o, ParallelFilter)
        base = ParallelFilter if par else CascadeFilter
        return [par, type(o).__mro__.index(base), [_shape(x) for x in o]]
    if isinstance(o, LinearFilter):
        return "Z"
    if isinstance(o, (list, tuple)):
        return ["tuple" if isinstance(o, tuple) else "list", [_shape(x) for x in o]]
    if callable(o):
        for i, fn in _FNS.items():
            if fn is o:
                return ["F", i]
        return ["F", -1]
    return "N"


def _hash_obs(o):
    try:
        return {"value": hash(o)}
    except Exception as ex:
        return {"err": err_kind(ex)}


def _freq(o, ws):
    out = []
    for w in ws:
        try:
            v = complex(o.freq_response(w))
            out.append([v.real, v.imag])
        except Exception as ex:
            out.append({"err": err_kind(ex)})
    return out


FREQS = [0.0, 0.3, 1.1, 2.5]


def _impl_nest(c):
    from audiolazy.lazy_filters import FilterList
    del _BR[:]
    try:
        o = _build_obj(c["obj"])
    except Exception as ex:
        return {"err": err_kind(ex), "branches": list(_BR)}
    res = {"shape": _shape(o), "branches": list(_BR), "hash": _hash_obs(o)}
    try:
        res["len"] = len(o)
    except Exception:
        res["len"] = None
    if isinstance(o, FilterList):
        def poly(name):
            try:
                p = getattr(o, name)
                return {"terms": _terms(p), "float": _has_float(p)}
            except Exception as ex:
                return {"err": err_kind(ex)}
        res["numpoly"], res["denpoly"] = poly("numpoly"), poly("denpoly")
        if ("err" in res["numpoly"]) != ("err" in res["denpoly"]):
            # `zf + filter_list` is `zf + ZFilter([filter_list])`: when no coefficient arithmetic happens to fail, the "sum"
            # is a filter with a filter list as a coefficient; such a pair is observed as the TypeError it stands for
            bad = res["numpoly"] if "err" in res["numpoly"] else res["denpoly"]
            res["numpoly"] = res["denpoly"] = {"err": bad["err"], "garbage": True}
        res["out"] = _out(o, c.get("xs", []))
        try:
            res["linear"] = bool(o.is_linear())
        except Exception as ex:
            res["linear"] = {"err": err_kind(ex)}
        res["freq"] = _freq(o, FREQS) if "err" not in res["numpoly"] else None
    return res


def _impl_eqm(c):
    objs = [_build_obj(t) for t in c["pool"]]
    eq, ne, bools = [], [], True
    for a in objs:
        re_, rn = [], []
        for b in objs:
            x, y = (a == b), (a != b)
            bools = bools and isinstance(x, bool) and isinstance(y, bool)
            re_.append(bool(x))
            rn.append(bool(y))
        eq.append(re_)
        ne.append(rn)
    return {"eq": eq, "ne": ne, "bools": bools, "hash": [_hash_obs(o) for o in objs], "shape": [_shape(o) for o in objs]}


def _impl_frac(c):
    from audiolazy import ZFilter, z
    via = c.get("via", "dict")
    if via == "zpow":
        f = z ** float(dec(c["e"]))
    else:
        key = (lambda k: dec(k)) if via == "fraction-keys" else \
              (lambda k: int(dec(k)) if dec(k).denominator == 1 else float(dec(k)))
        f = ZFilter(OrderedDict((key(k), dec(v)) for k, v in c["num"]), OrderedDict((key(k), dec(v)) for k, v in c["den"]))
    before = {"num": [[enc(k), enc(v)] for k, v in f.numpoly.terms()], "den": [[enc(k), enc(v)] for k, v in f.denpoly.terms()]}
    g = f.linearize()
    return {"before": before, "num": _terms(g.numpoly), "den": _terms(g.denpoly),
            "int_keys": all(isinstance(k, int) for p in (g.numpoly, g.denpoly) for k, _ in p.terms())}


def _terms(p):
    return [[k, enc(v)] for k, v in p.terms()]


def _items(p):
    return [[k, enc(v)] for k, v in p.terms(sort=False)]


def _has_float(*polys):
    return any(isinstance(v, float) for p in polys for _, v in p.terms(sort=False))


def _out(f, xs):
    try:
        ys = list(f([dec(x) for x in xs], zero=Z))
    except Exception as e:
        return {"err": err_kind(e)}
    return {"float": any(isinstance(y, float) for y in ys), "ys": [enc(y) for y in ys]}


def _pair(f):
    return terms_to_dict(_terms(f.numpoly)), terms_to_dict(_terms(f.denpoly))


def _impl_hist(c):
    o = _build_obj(c["obj"])
    obs = []

    def poly(name):
        try:
            q = getattr(o, name)
            return {"terms": _terms(q), "float": _has_float(q)}
        except Exception as ex:
            return {"err": err_kind(ex)}

    def lst(name):
        try:
            return {"vals": [enc(v) for v in getattr(o, name)]}
        except Exception as ex:
            return {"err": err_kind(ex)}
    for ev in c["evs"]:
        k = ev[0]
        if k == "set":
            o[ev[1]] = _build_obj(ev[2])
        elif k == "setall":
            o[:] = [_build_obj(x) for x in ev[1]]
        elif k == "append":
            o.append(_build_obj(ev[1]))
        elif k == "extend":
            o.extend([_build_obj(x) for x in ev[1]])
        elif k == "polys":
            obs.append({"numpoly": poly("numpoly"), "denpoly": poly("denpoly")})
        elif k == "lists":
            obs.append({"numlist": lst("numlist"), "denlist": lst("denlist")})
        elif k == "call":
            obs.append({"out": _out(o, ev[1])})
        else:
            raise ValueError("bad event %r" % (k,))
    return {"obs": obs, "shape": _shape(o)}


def _peval(terms, z0):
    return sum((dec(v) * z0 ** (-k) for k, v in terms), F(0))


def _impl_substpt(c):
    f, g = _build(c["f"]), _build(c["g"])
    h = f(g)
    num, den = _terms(h.numpoly), _terms(h.denpoly)
    if _has_float(h.numpoly, h.denpoly):
        return {"num": num, "den": den, "float": True, "vals": []}
    vals = []
    for z in c["pts"]:
        z0 = dec(z)
        d = _peval(den, z0)
        vals.append(None if d == 0 else enc(_peval(num, z0) / d))
    return {"num": num, "den": den, "float": False, "vals": vals}


def _laws(c):
    from audiolazy import ZFilter, z, CascadeFilter, ParallelFilter
    f, g, h = _build(c["f"]), _build(c["g"]), _build(c["h"])
    n, m, k, cc = c["n"], c["m"], c["k"], dec(c["c"])
    xs = [dec(x) for x in c["xs"]]
    one, zero = ZFilter([F(1)]), ZFilter([F(0)])
    flt = [False]

    def equiv(a, b):
        a, b = a(), b()
        if _has_float(a.numpoly, a.denpoly, b.numpoly, b.denpoly):
            flt[0] = True
        (n1, d1), (n2, d2) = _pair(a), _pair(b)
        return cross_equal(n1, d1, n2, d2, 1e-9 if flt[0] else 0)

    def run(filt, x):
        return list(filt(x, zero=Z))

    def sig(a, b):
        a, b = a(), b()
        if any(isinstance(v, float) for v in a + b):
            # the impl's generated loop went through binary floats (a non-integer coefficient was formatted into
            # the source): rounding errors are amplified by the poles, so the law is only compared in the exact regime
            flt[0] = True
            return None
        return sig_close(a, b, 0)

    def it(filt, cnt, x):
        for _ in range(cnt):
            x = run(filt, x)
        return list(x)

    L = OrderedDict()
    L["add_comm"] = lambda: equiv(lambda: f + g, lambda: g + f)
    L["add_assoc"] = lambda: equiv(lambda: (f + g) + h, lambda: f + (g + h))
    L["mul_comm"] = lambda: equiv(lambda: f * g, lambda: g * f)
    L["mul_assoc"] = lambda: equiv(lambda: (f * g) * h, lambda: f * (g * h))
    L["distrib"] = lambda: equiv(lambda: f * (g + h), lambda: f * g + f * h)
    L["sub_self"] = lambda: equiv(lambda: f - f, lambda: zero)
    L["add_neg"] = lambda: equiv(lambda: f - g, lambda: f + (-g))
    L["div_self"] = lambda: equiv(lambda: f / f, lambda: one)
    L["div_mul_cancel"] = lambda: equiv(lambda: (f / g) * g, lambda: f)
    L["pow_add"] = lambda: equiv(lambda: f ** (n + m), lambda: f ** n * f ** m)
    L["pow_neg"] = lambda: equiv(lambda: f ** (-n), lambda: one / f ** n)
    L["pow_nfold"] = lambda: equiv(lambda: f ** n, lambda: reduce(operator.mul, [f] * n, one))
    L["scalar_mul"] = lambda: equiv(lambda: f * cc, lambda: ZFilter([cc]) * f)
    if c.get("subst"):
        L["subst_add"] = lambda: equiv(lambda: (f + g)(h), lambda: f(h) + g(h))
        L["subst_mul"] = lambda: equiv(lambda: (f * g)(h), lambda: f(h) * g(h))
        L["subst_z"] = lambda: equiv(lambda: f(z), lambda: f)
    L["sig_add"] = lambda: sig(lambda: run(f + g, xs), lambda: [a + b for a, b in zip(run(f, xs), run(g, xs))])
    L["sig_sub"] = lambda: sig(lambda: run(f - g, xs), lambda: [a - b for a, b in zip(run(f, xs), run(g, xs))])
    L["sig_scale"] = lambda: sig(lambda: run(f * cc, xs), lambda: [cc * a for a in run(f, xs)])
    L["sig_rscale"] = lambda: sig(lambda: run(cc * f, xs), lambda: [cc * a for a in run(f, xs)])
    L["sig_mul"] = lambda: sig(lambda: run(f * g, xs), lambda: run(f, run(g, xs)))
    L["sig_mul_comm"] = lambda: sig(lambda: run(f, run(g, xs)), lambda: run(g, run(f, xs)))
    L["sig_div_mul"] = lambda: sig(lambda: run((f / g) * g, xs), lambda: run(f, xs))
    L["sig_pow"] = lambda: sig(lambda: run(f ** n, xs), lambda: it(f, n, xs))
    L["sig_delay"] = lambda: sig(lambda: run(z ** -k, xs), lambda: ([Z] * k + xs)[:len(xs)])
    L["sig_cascade"] = lambda: sig(lambda: run(CascadeFilter(f, g, h), xs), lambda: run((f * g) * h, xs))
    L["sig_parallel"] = lambda: sig(lambda: run(ParallelFilter(f, g, h), xs), lambda: run((f + g) + h, xs))
    out = OrderedDict()
    for name, fn in L.items():
        try:
            r = fn()
            out[name] = None if r is None else bool(r)
        except Exception as e:
            out[name] = "err:" + err_kind(e)
    return out, flt[0]


def impl(c):
    e = c["entry"]
    if e == "tree":
        del _BR[:]
        try:
            f = _build(c["tree"])
        except Exception as ex:
            return {"err": err_kind(ex), "branches": list(_BR)}
        try:
            causal = bool(f.is_causal())
        except Exception as ex:
            causal = {"err": err_kind(ex)}
        try:
            g = f.linearize()
            lin = {"num": _terms(g.numpoly), "den": _terms(g.denpoly)}
        except Exception as ex:
            lin = {"err": err_kind(ex)}
        return {"num": _terms(f.numpoly), "den": _terms(f.denpoly), "linearize": lin,
                "items_num": _items(f.numpoly), "items_den": _items(f.denpoly),
                "float": _has_float(f.numpoly, f.denpoly), "causal": causal,
                "out": _out(f, c.get("xs", [])), "branches": list(_BR)}
    if e == "laws":
        try:
            L, flt = _laws(c)
            return {"laws": L, "float": flt}
        except Exception as ex:
            return {"err": err_kind(ex)}
    if e == "eq":
        try:
            p, q = _build(c["p"]), _build(c["q"])
            return {"eq": bool(p == q), "ne": bool(p != q), "hash_equal": hash(p) == hash(q),
                    "num_equal": bool(p.numpoly == q.numpoly), "den_equal": bool(p.denpoly == q.denpoly),
                    "float": _has_float(p.numpoly, p.denpoly, q.numpoly, q.denpoly)}
        except Exception as ex:
            return {"err": err_kind(ex)}
    if e == "list":
        from audiolazy import CascadeFilter, ParallelFilter
        try:
            fs = [_build(t) for t in c["fs"]]
        except Exception as ex:
            return {"err": err_kind(ex)}
        filt = (CascadeFilter if c["kind"] == "cascade" else ParallelFilter)(*fs)

        def poly(name):
            try:
                p = getattr(filt, name)
                return {"terms": _terms(p), "float": _has_float(p)}
            except Exception as ex:
                return {"err": err_kind(ex)}
        shortcut = False
        if c["kind"] == "parallel" and fs:
            try:
                acc = fs[0]
                for g in fs[1:]:
                    shortcut = shortcut or bool(acc.denpoly == g.denpoly)
                    acc = acc + g
            except Exception:
                pass
        amp = 1.0
        for f in fs:
            try:
                amp *= _amplification(_pair(f)[1], len(c.get("xs", [])))
            except Exception:
                pass
        return {"numpoly": poly("numpoly"), "denpoly": poly("denpoly"), "shortcut": shortcut,
                "out": _out(filt, c.get("xs", [])), "amp": amp}
    if e == "nest":
        return _impl_nest(c)
    if e == "eqm":
        try:
            return _impl_eqm(c)
        except Exception as ex:
            return {"err": err_kind(ex)}
    if e == "frac":
        try:
            return _impl_frac(c)
        except Exception as ex:
            return {"err": err_kind(ex)}
    if e == "hist":
        try:
            return _impl_hist(c)
        except Exception as ex:
            return {"err": err_kind(ex)}
    if e == "substpt":
        try:
            return _impl_substpt(c)
        except Exception as ex:
            return {"err": err_kind(ex)}
    raise ValueError("unknown entry " + e)


# ----------------------------------------------------------------------------
# comparison
# ----------------------------------------------------------------------------
def _amplification(den, n):
    """sum |impulse response of 1/den| over n samples (exact): how much the recursion amplifies a rounding error"""
    if not den or 0 not in den or den[0] == 0:
        return 1.0
    a0 = den[0]
    g = []
    for i in range(max(n, 1)):
        acc = F(1) if i == 0 else F(0)
        for k, v in den.items():
            if 0 < k <= i:
                acc -= v * g[i - k]
        g.append(acc / a0)
    return float(sum(abs(v) for v in g)) + 1.0


def _cmp_out(io_out, want, tol_hint, amp=1.0):
    """impl output observation vs a list (or {"err":..}) from the driver; returns None when equal"""
    if isinstance(want, dict) and "err" in want:
        if "err" in io_out and io_out["err"] == want["err"]:
            return None
        return "impl %s, expected %s" % (json.dumps(io_out)[:120], want["err"])
    if "err" in io_out:
        return "impl raised %s, expected %s" % (io_out["err"], json.dumps(want)[:120])
    tol = 1e-10 * amp if (io_out["float"] or tol_hint) else 0
    a, b = [dec(v) for v in io_out["ys"]], [dec(v) for v in want]
    if sig_close(a, b, tol):
        return None
    return "outputs %s vs %s" % (json.dumps(io_out["ys"])[:160], json.dumps(want)[:160])


def compare(c, io, drv):
    out = []
    e = c["entry"]
    m, s = drv.get("model"), drv.get("spec")
    if e == "tree":
        if "err" in io:
            if not (isinstance(m, dict) and m.get("err") == io["err"]):
                out.append(("model", "impl raised %s, model gives %s" % (io["err"], json.dumps(m)[:200])))
            if s is not None:
                out.append(("spec", "impl raised %s where the rational function is %s / %s" % (
                    io["err"], json.dumps(s["num"])[:120], json.dumps(s["den"])[:120])))
            return out
        tol = 1e-9 if io["float"] else 0
        ni, di = terms_to_dict(io["num"]), terms_to_dict(io["den"])
        if "err" in m:
            out.append(("model", "model predicts %s, impl returned %s / %s" % (m["err"], io["num"], io["den"])))
        else:
            nm, dm = terms_to_dict(m["num"]), terms_to_dict(m["den"])
            if not cross_equal(ni, di, nm, dm, tol):
                out.append(("model", "num/den: impl=%s / %s model=%s / %s" % (
                    json.dumps(io["num"])[:120], json.dumps(io["den"])[:120], json.dumps(m["num"])[:120], json.dumps(m["den"])[:120])))
            if not di:
                out.append(("model", "impl denominator is empty"))
            if io["causal"] != m["causal"]:
                out.append(("model", "is_causal: impl=%r model=%r" % (io["causal"], m["causal"])))
            amp = _amplification(dm, len(c.get("xs", [])))
            d = _cmp_out(io["out"], m["out"], tol, amp)
            if d:
                out.append(("model", "call: " + d))
            li, lm = io["linearize"], m["linearize"]
            if ("err" in li) != ("err" in lm) or ("err" in li and li["err"] != lm["err"]):
                out.append(("model", "linearize: impl=%s model=%s" % (json.dumps(li)[:100], json.dumps(lm)[:100])))
            elif "err" not in li:
                if not cross_equal(terms_to_dict(li["num"]), terms_to_dict(li["den"]),
                                   terms_to_dict(lm["num"]), terms_to_dict(lm["den"]), tol):
                    out.append(("model", "linearize: impl=%s model=%s" % (json.dumps(li)[:100], json.dumps(lm)[:100])))
                if not cross_equal(terms_to_dict(li["num"]), terms_to_dict(li["den"]), ni, di, tol):
                    out.append(("spec", "linearize() of a filter with integer delays changed the rational function"))
        if s is not None:
            ns, ds = terms_to_dict(s["num"]), terms_to_dict(s["den"])
            if not cross_equal(ni, di, ns, ds, tol) or not di:
                out.append(("spec", "rational function: impl=%s / %s spec=%s / %s" % (
                    json.dumps(io["num"])[:120], json.dumps(io["den"])[:120], json.dumps(s["num"])[:120], json.dumps(s["den"])[:120])))
            elif s["out"] is not None:
                d = _cmp_out(io["out"], s["out"], tol, _amplification(di, len(c.get("xs", []))))
                if d:
                    out.append(("spec", "response of a causal filter: " + d))
        return out
    if e == "laws":
        if "err" in io:
            if isinstance(m, dict) and m.get("err") == io["err"]:
                return []          # an operand does not exist (both sides agree on the exception)
            return [("model", "impl raised %s, model: %s" % (io["err"], json.dumps(m)[:120]))]
        if "err" in m:
            return [("model", "model predicts %s, impl evaluated the laws" % m["err"])]
        for name, mv in m.items():
            iv = io["laws"].get(name)
            if mv is None or iv is None:
                continue               # operand missing / law not applicable in the model / float regime on the impl side
            if iv != mv:
                out.append(("model", "law %s: impl=%r model=%r" % (name, iv, mv)))
            if iv is not True:
                out.append(("spec", "law %s fails on the impl: %r" % (name, iv)))
        return out
    if e == "eq":
        if "err" in io:
            if isinstance(m, dict) and m.get("err") == io["err"]:
                return []
            return [("model", "impl raised " + io["err"])]
        if "err" in m:
            return [("model", "model predicts %s" % m["err"])]
        if io["float"]:
            return []
        # two code shapes are accepted for `!=`: as coded (num != and den !=) and the repair proposed for D2
        if io["eq"] != m["eq"] or (io["ne"] != m["ne"] and io["ne"] != m["ne_fixed"]):
            out.append(("model", "eq/ne: impl=%r/%r model=%r/%r (repaired ne: %r)" % (
                io["eq"], io["ne"], m["eq"], m["ne"], m["ne_fixed"])))
        # the model's hash key (tuple of sorted powers) is tallied only: the property demands `==` => equal hashes,
        # so a finer hash (e.g. over the items) must stay quiet
        if s is not None:
            if c["p"][0] in ("f", "fl") and c["q"][0] in ("f", "fl"):
                # two filters built directly from coefficients: `==` compares the normalised polynomials
                if io["eq"] != s["eq"]:
                    out.append(("spec", "== is %r but the normalised numerator/denominator pairs are %s" % (
                        io["eq"], "equal" if s["eq"] else "different")))
            elif io["eq"] and not s["equiv"]:
                # results of operators: which representation they return is not fixed by the property
                # (shortcuts, uncancelled factors); equal objects must at least denote the same function
                out.append(("spec", "== is True but the two filters denote different rational functions"))
        if io["eq"] and not io["hash_equal"]:
            out.append(("spec", "f == g but hash(f) != hash(g)"))
        if io["ne"] == io["eq"]:
            out.append(("spec", "f == g is %r and f != g is %r: not exactly one of them holds" % (io["eq"], io["ne"])))
        return out
    if e == "list":
        if "err" in io:
            if isinstance(m, dict) and m.get("err") == io["err"]:
                return []
            return [("model", "impl raised %s building the parts, model: %s" % (io["err"], json.dumps(m)[:120]))]
        if "err" in m:
            return [("model", "model predicts %s" % m["err"])]
        pi_n, pi_d = io["numpoly"], io["denpoly"]
        errs = [p["err"] for p in (pi_n, pi_d) if "err" in p]
        if errs:
            if not ("err" in m["numpoly"] and m["numpoly"]["err"] == errs[0]):
                out.append(("model", "numpoly/denpoly raised %s, model: %s" % (errs, json.dumps(m["numpoly"])[:100])))
        elif isinstance(m["numpoly"], dict) or isinstance(m["denpoly"], dict):
            out.append(("model", "model predicts an exception for numpoly/denpoly, impl returned polynomials"))
        else:
            tol = 1e-9 if (pi_n["float"] or pi_d["float"]) else 0
            ni, di = terms_to_dict(pi_n["terms"]), terms_to_dict(pi_d["terms"])
            shapes = [(m["numpoly"], m["denpoly"])]
            if "denpoly_fixed" in m and not isinstance(m["denpoly_fixed"], dict):
                shapes.append((m["numpoly"], m["denpoly_fixed"]))     # the repair proposed for D12
            if not any(cross_equal(ni, di, terms_to_dict(a), terms_to_dict(b), tol) for a, b in shapes):
                out.append(("model", "numpoly/denpoly: impl=%s / %s model=%s / %s" % (
                    json.dumps(pi_n["terms"])[:120], json.dumps(pi_d["terms"])[:120],
                    json.dumps(m["numpoly"])[:120], json.dumps(m["denpoly"])[:120])))
            if s is not None and not cross_equal(ni, di, terms_to_dict(s["num"]), terms_to_dict(s["den"]), tol):
                out.append(("spec", "%s numpoly/denpoly = %s / %s is not the %s of the parts %s / %s" % (
                    c["kind"], json.dumps(pi_n["terms"])[:100], json.dumps(pi_d["terms"])[:100],
                    "product" if c["kind"] == "cascade" else "sum", json.dumps(s["num"])[:100], json.dumps(s["den"])[:100])))
        d = _cmp_out(io["out"], m["out"], 0, io.get("amp", 1.0))
        if d:
            out.append(("model", "call: " + d))
        if s is not None and s["out"] is not None:
            d = _cmp_out(io["out"], s["out"], 0, io.get("amp", 1.0))
            if d:
                out.append(("spec", "%s output is not the %s of the parts' outputs: %s" % (
                    c["kind"], "composition" if c["kind"] == "cascade" else "sum", d)))
        return out
    if e == "nest":
        return _cmp_nest(c, io, m)
    if e == "eqm":
        return _cmp_eqm(c, io, m)
    if e == "frac":
        return _cmp_frac(c, io, m, s)
    if e == "hist":
        return _cmp_hist(c, io, m if m is not None else {"err": drv.get("err")})
    if e == "substpt":
        return _cmp_substpt(c, io, drv)
    return [("model", "unknown entry")]


def _cmp_hist(c, io, m):
    if "err" in io:
        return [("model", "history: impl raised %s, model gives %s" % (io["err"], json.dumps(m)[:160]))]
    if "err" in m:
        return [("model", "history: model predicts %s" % m["err"])]
    out = []
    reads = [ev for ev in c["evs"] if ev[0] in ("polys", "lists", "call")]
    cached = m.get("regress_cached")
    pi = 0
    for n, (ev, a, b) in enumerate(zip(reads, io["obs"], m["obs"])):
        where = "read #%d (%s) after %s" % (n, ev[0], json.dumps([x[0] for x in c["evs"]])[:80])
        if ev[0] == "polys":
            flt = any(q.get("float") for q in (a["numpoly"], a["denpoly"]))
            if not _polys_match(a, b["polys"], 1e-9 if flt else 0):
                stale = cached is not None and pi < len(cached) and _polys_match(a, cached[pi], 1e-9 if flt else 0)
                out.append(("model", "%s: numpoly/denpoly are not those of the CURRENT parts: impl=%s / %s model=%s%s" % (
                    where, json.dumps(a["numpoly"])[:100], json.dumps(a["denpoly"])[:100], json.dumps(b["polys"])[:140],
                    " (the impl agrees with the regression model: a sum cached under hash(tuple(self)))" if stale else "")))
            pi += 1
        elif ev[0] == "lists":
            for name in ("numlist", "denlist"):
                x, y = a[name], b[name]
                if "err" in x or (isinstance(y, dict) and "err" in y):
                    if not (isinstance(y, dict) and x.get("err") == y.get("err")):
                        out.append(("model", "%s: %s impl=%s model=%s" % (where, name, json.dumps(x)[:100], json.dumps(y)[:100])))
                elif not _lists_same(x["vals"], y):
                    out.append(("model", "%s: %s is not that of the CURRENT parts: impl=%s model=%s" % (
                        where, name, json.dumps(x["vals"])[:100], json.dumps(y)[:100])))
        else:
            d = _cmp_out(a["out"], b["out"], 0, 1.0)
            if d:
                out.append(("model", "%s: call: %s" % (where, d)))
    if len(io["obs"]) != len(m["obs"]):
        out.append(("model", "history: %d reads in the impl, %d in the model" % (len(io["obs"]), len(m["obs"]))))
    return out


def _lists_same(a, b):
    if len(a) != len(b):
        return False
    for x, y in zip(a, b):
        x, y = dec(x), dec(y)
        if isinstance(x, float) or isinstance(y, float):
            if abs(float(x) - float(y)) > 1e-9 * (1 + abs(float(y))):
                return False
        elif x != y:
            return False
    return True


def _cmp_substpt(c, io, drv):
    m, s = drv.get("model"), drv.get("spec")
    if "err" in drv and m is None:
        m = {"err": drv["err"]}
    if "err" in io:
        if not (isinstance(m, dict) and m.get("err") == io["err"]):
            return [("model", "f(g): impl raised %s, model gives %s" % (io["err"], json.dumps(m)[:160]))]
        return []
    if m is None or "err" in m:
        return [("model", "f(g): model predicts %s, impl returned %s / %s" % (json.dumps(m), io["num"], io["den"]))]
    out = []
    tol = 1e-9 if io["float"] else 0
    ni, di = terms_to_dict(io["num"]), terms_to_dict(io["den"])
    if not cross_equal(ni, di, terms_to_dict(m["num"]), terms_to_dict(m["den"]), tol):
        out.append(("model", "f(g): impl=%s / %s model=%s / %s" % (io["num"], io["den"], m["num"], m["den"])))
    if s and s.get("mono") is not None:
        if not cross_equal(ni, di, terms_to_dict(s["mono"]["num"]), terms_to_dict(s["mono"]["den"]), tol):
            out.append(("spec", "f(gain*z**-delay) is not the closed form (coefficient of z^-k times gain^-k at z^(delay*k)): "
                                "impl=%s / %s closed form=%s / %s" % (io["num"], io["den"], s["mono"]["num"], s["mono"]["den"])))
        if m.get("mono_equiv") is False:
            out.append(("model", "the model's f(g) is not the closed form"))
    if s and not io["float"]:
        for z, got, mv, want in zip(c["pts"], io["vals"], m["vals"], s["comp"]):
            if got is not None and want is not None and dec(got) != dec(want):
                out.append(("spec", "f(g)(%s) = %s but f(g(%s)) = %s" % (z, got, z, want)))
                break
            if got is not None and mv is not None and dec(got) != dec(mv):
                out.append(("model", "f(g)(%s): impl=%s model=%s" % (z, got, mv)))
                break
    return out


def _polys_match(io, shape, tol):
    """impl (numpoly, denpoly) observation against one model shape ({"num","den"} | {"err"} | None)"""
    if shape is None:
        return False
    errs = [p["err"] for p in (io["numpoly"], io["denpoly"]) if "err" in p]
    if "err" in shape:
        return len(errs) == 2 and errs[0] == shape["err"] and errs[1] == shape["err"]
    if errs:
        return False
    return cross_equal(terms_to_dict(io["numpoly"]["terms"]), terms_to_dict(io["denpoly"]["terms"]),
                       terms_to_dict(shape["num"]), terms_to_dict(shape["den"]), tol)


def _eval_poly(p, w):
    import cmath
    x = cmath.exp(-1j * w)
    return sum(complex(float(v)) * x ** k for k, v in p.items())


def _cmp_nest(c, io, m):
    out = []
    if "err" in io:
        if not (isinstance(m, dict) and m.get("err") == io["err"]):
            out.append(("model", "building the object: impl raised %s, model gives %s" % (io["err"], json.dumps(m)[:160])))
        return out
    if "err" in m:
        return [("model", "model predicts %s building the object, impl returned %s" % (m["err"], json.dumps(io["shape"])[:160]))]
    if io["shape"] != m["shape"]:
        out.append(("model", "structure (classes, parts): impl=%s model=%s" % (json.dumps(io["shape"])[:200], json.dumps(m["shape"])[:200])))
    if io.get("len") != m.get("len"):
        out.append(("model", "len: impl=%r model=%r" % (io.get("len"), m.get("len"))))
    if ("err" in io["hash"]) != ("err" in m["hash"]) or ("err" in io["hash"] and io["hash"]["err"] != m["hash"]["err"]):
        out.append(("model", "hash: impl=%s model=%s" % (json.dumps(io["hash"])[:80], json.dumps(m["hash"])[:80])))
    if "out" not in io:
        return out                                  # a plain list / tuple: structure only
    if io["linear"] != m["linear"]:
        out.append(("model", "is_linear: impl=%r model=%r" % (io["linear"], m["linear"])))
    d = _cmp_out(io["out"], m["out"], 0, 1.0)
    if d:
        out.append(("model", "call: " + d))
    if m["spec_out"] is not None:
        d = _cmp_out(io["out"], m["spec_out"], 0, 1.0)
        if d:
            out.append(("spec", "the output is not the composition / sum of the parts' outputs: " + d))
    flt = any(p.get("float") for p in (io["numpoly"], io["denpoly"]))
    tol = 1e-9 if flt else 0
    # the model follows the code as it stands (D22 repaired in /repo 04c3c25: `_sum_filter` adds the parts as filters,
    # `FL.polys`); the old shape (`FL.polysC`: reduce(operator.add, self) on the raw elements) is only kept as a
    # regression model that names the defect when the code falls back to it
    if not _polys_match(io, m["polys_fixed"], tol):
        back = _polys_match(io, m["polys_coded"], tol) or _garbage_possible(c["obj"])
        out.append(("model", "numpoly/denpoly: impl=%s / %s model=%s%s" % (
            json.dumps(io["numpoly"])[:120], json.dumps(io["denpoly"])[:120], json.dumps(m["polys_fixed"])[:160],
            " (the impl agrees with the regression model of D22 %s)" % json.dumps(m["polys_coded"])[:120] if back else "")))
    sp = m.get("spec")
    if sp is not None and "err" not in m["polys_fixed"]:
        kind = "parallel" if c["obj"][0] == "new" and c["obj"][1] else "filter list"
        if "err" in io["numpoly"] or "err" in io["denpoly"]:
            out.append(("spec", "numpoly/denpoly of a %s of linear parts raises %s where the product / sum of the parts is %s / %s" % (
                kind, io["numpoly"].get("err") or io["denpoly"].get("err"), json.dumps(sp["num"])[:100], json.dumps(sp["den"])[:100])))
        else:
            ni, di = terms_to_dict(io["numpoly"]["terms"]), terms_to_dict(io["denpoly"]["terms"])
            if not cross_equal(ni, di, terms_to_dict(sp["num"]), terms_to_dict(sp["den"]), tol):
                out.append(("spec", "numpoly/denpoly = %s / %s is not the product / sum of the parts %s / %s" % (
                    json.dumps(io["numpoly"]["terms"])[:100], json.dumps(io["denpoly"]["terms"])[:100],
                    json.dumps(sp["num"])[:100], json.dumps(sp["den"])[:100])))
            elif io.get("freq"):
                # float-only observable (class g): freq_response is the product / sum of the parts' responses, i.e. the
                # denoted rational function on the unit circle (justified by nested_structure_denotes)
                ns, ds = terms_to_dict(sp["num"]), terms_to_dict(sp["den"])
                for w, v in zip(FREQS, io["freq"]):
                    if isinstance(v, dict):
                        continue
                    den = _eval_poly(ds, w)
                    if abs(den) < 1e-6:
                        continue
                    want = _eval_poly(ns, w) / den
                    got = complex(v[0], v[1])
                    if abs(got - want) > 1e-7 * (1 + abs(want)) / min(1.0, abs(den)):
                        out.append(("spec", "freq_response(%r) = %r is not the product / sum of the parts' responses %r" % (w, got, want)))
                        break
    return out


def _cmp_eqm(c, io, m):
    out = []
    if "err" in io:
        if isinstance(m, dict) and m.get("err") == io["err"]:
            return []
        return [("model", "building the pool: impl raised %s, model %s" % (io["err"], json.dumps(m)[:100]))]
    if "err" in m:
        return [("model", "model predicts %s building the pool" % m["err"])]
    n = len(c["pool"])
    if not io["bools"]:
        out.append(("spec", "== / != returned something that is not a bool"))
    for i in range(n):
        hi, hm = io["hash"][i], m["hash"][i]
        if ("err" in hi) != ("err" in hm) or ("err" in hi and hi["err"] != hm["err"]):
            out.append(("model", "hash of object %d (%s): impl=%s model=%s" % (i, json.dumps(io["shape"][i])[:60], json.dumps(hi)[:60],
                                                                                json.dumps(hm)[:60])))
        for j in range(n):
            e, ne = io["eq"][i][j], io["ne"][i][j]
            who = "objects %d, %d (%s vs %s)" % (i, j, json.dumps(io["shape"][i])[:70], json.dumps(io["shape"][j])[:70])
            if e != m["eq"][i][j] or ne != m["ne"][i][j]:
                out.append(("model", "%s: impl ==/!= %r/%r model %r/%r" % (who, e, ne, m["eq"][i][j], m["ne"][i][j])))
            if e == ne:
                out.append(("spec", "%s: a == b is %r and a != b is %r: not exactly one of them holds" % (who, e, ne)))
            if e and "value" in io["hash"][i] and "value" in io["hash"][j] and io["hash"][i]["value"] != io["hash"][j]["value"]:
                out.append(("spec", "%s: equal but the hashes differ" % who))
            if e and ("err" in io["hash"][i]) != ("err" in io["hash"][j]):
                out.append(("spec", "%s: equal but only one of them is hashable" % who))
    return out[:12]


def _cmp_frac(c, io, m, s):
    if "err" in io:
        if isinstance(m, dict) and m.get("err") == io["err"]:
            return []
        return [("model", "linearize: impl raised %s, model %s" % (io["err"], json.dumps(m)[:100]))]
    if "err" in m:
        return [("model", "linearize: model predicts %s" % m["err"])]
    out = []
    ni, di = terms_to_dict(io["num"]), terms_to_dict(io["den"])
    nm, dm = terms_to_dict(m["num"]), terms_to_dict(m["den"])
    drop = lambda d: {k: v for k, v in d.items() if v != 0}
    if drop(ni) != drop(nm) or drop(di) != drop(dm):
        out.append(("model", "linearize: impl=%s / %s model=%s / %s" % (json.dumps(io["num"])[:120], json.dumps(io["den"])[:120],
                                                                        json.dumps(m["num"])[:120], json.dumps(m["den"])[:120])))
    if not io["int_keys"]:
        out.append(("spec", "linearize() left a fractional delay"))
    if c.get("via") != "zpow" and s is not None:
        # the two weights of a term add up to one: the gain at z = 1 is kept (linPairs_sum); the constructor may have
        # shifted both polynomials by a common delay, which does not change the sums either
        if sum(ni.values()) != dec(s["sum_num"]) or sum(di.values()) != dec(s["sum_den"]):
            out.append(("spec", "linearize() changed the sum of the coefficients: %s / %s" % (json.dumps(io["num"])[:100], json.dumps(io["den"])[:100])))
    return out


def nontrivial(c, io):
    return "err" not in io


# ----------------------------------------------------------------------------
# histograms
# ----------------------------------------------------------------------------
def _subtrees(t):
    for s in t[1:]:
        if isinstance(s, list) and s and isinstance(s[0], str) and s[0] in _ALLOPS:
            yield s


def _ops(t, acc):
    acc.append(t[0])
    for s in _subtrees(t):
        _ops(s, acc)
    return acc


def _depth(t):
    return 1 + max([_depth(s) for s in _subtrees(t)] + [0])


def tally(eng, c, io):
    e = c["entry"]
    eng.count("entry", e)
    if e == "hist":
        eng.count("hist_kind", "parallel" if c["obj"][1] else "cascade")
        for ev in c["evs"]:
            eng.count("hist_event", ev[0])
        if "err" in io:
            eng.count("hist_result", "raises " + io["err"])
        else:
            for o in io["obs"]:
                for k, v in o.items():
                    eng.count("hist_read", k + (": " + v["err"] if isinstance(v, dict) and "err" in v else ""))
        return
    if e == "substpt":
        g = c["g"]
        eng.count("substpt_arg", "gain*z**-d (non-unit gain)" if g[0] in ("muls", "rmuls") and dec(g[2] if g[0] == "muls" else g[1]) not in (1, -1)
                  else ("gain*z**-d (unit gain)" if g[0] in ("muls", "rmuls") else ("monomial dict" if len(g[1]) == 1 and len(g[2]) == 1 else "general")))
        eng.count("substpt_result", ("raises " + io["err"]) if "err" in io else ("float" if io["float"] else "exact"))
        return
    if e == "tree":
        t = c["tree"]
        eng.count("top_op", t[0])
        for o in set(_ops(t, [])):
            eng.count("op_used", o)
        eng.count("depth", _depth(t))
        for b in io.get("branches", []):
            eng.count("code_branch", b)
        if "err" in io:
            eng.count("impl_error", t[0] + ":" + io["err"])
            return
        eng.count("regime", "float (impl-injected, tol 1e-9)" if io["float"] or io["out"].get("float") else "exact")
        eng.count("result_order", min(max([k for k, _ in io["num"]] + [k for k, _ in io["den"]] + [0]), 16))
        eng.count("result_causal", str(io["causal"]))
        eng.count("call", io["out"].get("err", "samples:%d" % len(io["out"].get("ys", []))))
        eng.count("insertion_order", "sorted" if io["items_num"] == io["num"] and io["items_den"] == io["den"] else "unsorted")
    elif e == "laws":
        eng.count("regime", "float (impl-injected, tol 1e-9)" if io.get("float") else "exact")
        for k, v in io.get("laws", {}).items():
            eng.count("law_" + k, v)
    elif e == "eq":
        if "eq" in io:
            eng.count("eq_drawn", c.get("kind", "?"))
            eng.count("eq_outcome", "eq=%r ne=%r num_equal=%r den_equal=%r hash_equal=%r" % (
                io["eq"], io["ne"], io["num_equal"], io["den_equal"], io["hash_equal"]))
    elif e == "nest":
        for b in io.get("branches", []):
            eng.count("code_branch", b)
        for k in _obj_stats(c["obj"]):
            eng.count("nest_" + k[0], k[1])
        if "err" in io:
            eng.count("nest_result", "raises " + io["err"])
        else:
            eng.count("nest_result", "plain %s" % io["shape"][0] if "out" not in io else "filter list")
            if "out" in io:
                eng.count("nest_polys", io["numpoly"].get("err", "polynomials"))
                eng.count("nest_call", io["out"].get("err", "samples"))
                eng.count("nest_linear", str(io["linear"]))
    elif e == "eqm":
        if "eq" in io:
            n = len(c["pool"])
            for i in range(n):
                for j in range(n):
                    if i != j:
                        eng.count("eqm_pair", "%s vs %s: eq=%r ne=%r" % (_sort_of(io["shape"][i]), _sort_of(io["shape"][j]),
                                                                         io["eq"][i][j], io["ne"][i][j]))
            for h in io["hash"]:
                eng.count("eqm_hash", h.get("err", "hashable"))
    elif e == "frac":
        eng.count("frac_via", c.get("via", "dict"))
        if "err" in io:
            eng.count("frac_result", "raises " + io["err"])
        else:
            ks = [dec(k) for k, _ in io["before"]["num"]] + [dec(k) for k, _ in io["before"]["den"]]
            eng.count("frac_keys", "negative fractional" if any(k < 0 and k.denominator > 1 for k in ks) else
                      ("fractional" if any(k.denominator > 1 for k in ks) else "integer only"))
    elif e == "list":
        eng.count("list_kind", "%s of %d" % (c["kind"], len(c["fs"])))
        if "err" not in io:
            eng.count("list_polys", io["numpoly"].get("err", "polynomials") + (", shortcut" if io["shortcut"] else ""))
            eng.count("list_call", io["out"].get("err", "samples"))


def _sort_of(sh):
    if sh == "Z":
        return "filter"
    if sh == "N":
        return "number"
    if isinstance(sh, list) and sh and sh[0] == "F":
        return "function"
    if isinstance(sh, list) and sh and isinstance(sh[0], str):
        return sh[0]
    if isinstance(sh, list) and sh:
        return ("parallel" if sh[0] else "cascade") + ("(subclass)" if sh[1] else "")
    return "?"


def _obj_children(t):
    op = t[0]
    if op == "new":
        return list(t[4])
    if op == "plain":
        return list(t[2])
    if op in ("zf", "n", "fn"):
        return []
    return [x for x in t[1:] if isinstance(x, list)]


def _obj_stats(t, depth=0, acc=None, parent=None):
    acc = [] if acc is None else acc
    op = t[0]
    if op == "new":
        acc.append(("node", "%s sub=%d %s of %d" % ("parallel" if t[1] else "cascade", t[2], t[3], len(t[4]))))
        if parent is not None:
            acc.append(("nesting", "%s in %s" % ("parallel" if t[1] else "cascade", parent)))
        if len(t[4]) == 1 and t[4][0][0] in _FL_CHILD | {"slice", "plain"}:
            acc.append(("lone_arg", "%s(%s %s)" % ("parallel" if t[1] else "cascade", t[3], t[4][0][0] if t[4][0][0] != "new" else
                                                    ("parallel" if t[4][0][1] else "cascade"))))
        for x in t[4]:
            _obj_stats(x, depth + 1, acc, "parallel" if t[1] else "cascade")
    else:
        if op not in ("zf",):
            acc.append(("op", op))
        for x in _obj_children(t):
            _obj_stats(x, depth + 1, acc, parent)
    if parent is None:
        acc.append(("depth", _obj_depth(t)))
    return acc


def _obj_depth(t):
    return (1 if t[0] == "new" else 0) + max([_obj_depth(x) for x in _obj_children(t)] + [0])


def _par_holds_list(t):
    """a parallel node is in play (ParallelFilter.numpoly / denpoly run `reduce(operator.add, self)` on the raw elements:
    filter lists are concatenated, numbers stay numbers); the parts themselves are compared through the two models"""
    if t[0] == "new" and t[1]:
        return True
    return any(_par_holds_list(x) for x in _obj_children(t))


def _garbage_possible(t):
    """a parallel node holding both a filter list and a ZFilter / number directly: as coded `zf + filter_list` is
    `zf + ZFilter([filter_list])`, which raises TypeError only if some coefficient arithmetic is attempted; otherwise a
    filter list sits in the polynomial as a coefficient and may even vanish again in a product with a zero polynomial.
    The as-coded model says TypeError; such structures are compared with the repaired shape and the spec only."""
    if t[0] == "new" and t[1]:
        kinds = {("list" if x[0] in _FL_CHILD else "leaf") for x in t[4] if x[0] != "fn"}
        if len(kinds) == 2:
            return True
    return any(_garbage_possible(x) for x in _obj_children(t))


def _shrink_obj(t):
    for x in _obj_children(t):
        if x[0] in _FL_CHILD | {"slice", "plain"}:
            yield x
    op = t[0]
    if op == "new":
        parts = t[4]
        for i in range(len(parts)):
            yield t[:4] + [parts[:i] + parts[i + 1:]]
        if t[2] > 0:
            yield t[:2] + [0] + t[3:]
        if t[3] != "star":
            yield t[:3] + ["star"] + t[4:]
        for i, x in enumerate(parts):
            if x[0] == "zf":
                for j, t2 in enumerate(_shrink_tree(x[1])):
                    if j > 12:
                        break
                    yield t[:4] + [parts[:i] + [["zf", t2]] + parts[i + 1:]]
            else:
                for x2 in _shrink_obj(x):
                    yield t[:4] + [parts[:i] + [x2] + parts[i + 1:]]
    elif op == "plain":
        for i in range(len(t[2])):
            yield t[:2] + [t[2][:i] + t[2][i + 1:]]
    elif op not in ("zf", "n", "fn"):
        for i in range(1, len(t)):
            if isinstance(t[i], list):
                for x2 in _shrink_obj(t[i]):
                    yield t[:i] + [x2] + t[i + 1:]


# ----------------------------------------------------------------------------
# shrinking / neighbours / classification
# ----------------------------------------------------------------------------
def _shrink_tree(t):
    op = t[0]
    for s in _subtrees(t):
        yield s
    if op == "f":
        for idx in (1, 2):
            ps = t[idx]
            for i in range(len(ps)):
                if idx == 1 or len(ps) > 1:
                    yield t[:idx] + [ps[:i] + ps[i + 1:]] + t[idx + 1:]
            for i, (k, cf) in enumerate(ps):
                if cf != 1:
                    yield t[:idx] + [ps[:i] + [[k, 1]] + ps[i + 1:]] + t[idx + 1:]
            srt = sorted(ps)
            if srt != ps:
                yield t[:idx] + [srt] + t[idx + 1:]
    elif op == "fl":
        for idx in (1, 2):
            if len(t[idx]) > (0 if idx == 1 else 1):
                yield t[:idx] + [t[idx][:-1]] + t[idx + 1:]
    elif op == "pow" and abs(t[2]) > 1:
        yield ["pow", t[1], t[2] - (1 if t[2] > 0 else -1)]
    elif op in SCAL_L and t[2] not in (1, 2):
        yield [op, t[1], 2]
    elif op in SCAL_R and t[1] not in (1, 2):
        yield [op, 2, t[2]]
    for i in range(1, len(t)):
        s = t[i]
        if isinstance(s, list) and s and isinstance(s[0], str) and s[0] in _ALLOPS:
            for s2 in _shrink_tree(s):
                yield t[:i] + [s2] + t[i + 1:]


def _shrink_xs(c):
    xs = c.get("xs", [])
    if len(xs) > 1:
        yield dict(c, xs=xs[:-1])
        yield dict(c, xs=xs[:len(xs) // 2])
    for i, x in enumerate(xs):
        if x not in (0, 1):
            yield dict(c, xs=xs[:i] + [1] + xs[i + 1:])


def _sig_class(c):
    """the part of the observation that decides the signature of a comparison / list case; shrinking must not
    leave it (a smaller case of a *different* failure class could be mistaken for a recorded finding)"""
    try:
        io = impl(c)
    except Exception:
        return ("unmapped",)
    if "err" in io:
        return ("err", io["err"])
    if c["entry"] == "eq":
        return (io["eq"], io["ne"], io["num_equal"], io["den_equal"])
    if c["entry"] == "list":
        return (io["shortcut"], "err" in io["numpoly"], "err" in io["denpoly"], "err" in io["out"])
    if c["entry"] == "nest":
        return (_par_holds_list(c["obj"]), _garbage_possible(c["obj"]), io.get("numpoly", {}).get("err"),
                io.get("out", {}).get("err"))
    return ()


def shrink(c):
    if c["entry"] in ("eq", "list", "nest"):
        base = _sig_class(c)
        for cand in _shrink(c):
            if _sig_class(cand) == base:
                yield cand
    else:
        for cand in _shrink(c):
            yield cand


def _shrink(c):
    e = c["entry"]
    if e == "hist":
        evs = c["evs"]
        if len(evs) > 1:
            yield dict(c, evs=evs[:-1])
        for i, ev in enumerate(evs):
            if ev[0] in ("polys", "lists", "call") and len(evs) > 1:
                yield dict(c, evs=evs[:i] + evs[i + 1:])
        return
    if e == "substpt":
        for name in ("f", "g"):
            for i, t in enumerate(_shrink_tree(c[name])):
                if i > 40:
                    break
                yield dict(c, **{name: t})
        if len(c["pts"]) > 1:
            yield dict(c, pts=c["pts"][:1])
        return
    if e == "tree":
        for i, t in enumerate(_shrink_tree(c["tree"])):
            if i > 150:
                break
            yield dict(c, tree=t)
        for x in _shrink_xs(c):
            yield x
    elif e in ("laws", "eq"):
        for name in ("f", "g", "h", "p", "q"):
            if name in c:
                for i, t in enumerate(_shrink_tree(c[name])):
                    if i > 40:
                        break
                    yield dict(c, **{name: t})
        if e == "laws":
            for name in ("n", "m", "k"):
                if c[name] > 0:
                    yield dict(c, **{name: c[name] - 1})
            if c["c"] != 2:
                yield dict(c, c=2)
            for x in _shrink_xs(c):
                yield x
    elif e == "nest":
        for i, t in enumerate(_shrink_obj(c["obj"])):
            if i > 200:
                break
            yield dict(c, obj=t)
        for x in _shrink_xs(c):
            yield x
    elif e == "eqm":
        pool = c["pool"]
        if len(pool) > 2:
            for i in range(len(pool)):
                yield dict(c, pool=pool[:i] + pool[i + 1:])
    elif e == "frac":
        for k in ("num", "den"):
            if len(c[k]) > (0 if k == "num" else 1):
                for i in range(len(c[k])):
                    yield dict(c, **{k: c[k][:i] + c[k][i + 1:]})
    elif e == "list":
        fs = c["fs"]
        if len(fs) > 2:        # two equal-denominator parts is the known D12 shape: never shrink below two
            for i in range(len(fs)):
                yield dict(c, fs=fs[:i] + fs[i + 1:])
        for i, t in enumerate(fs):
            for j, t2 in enumerate(_shrink_tree(t)):
                if j > 30:
                    break
                yield dict(c, fs=fs[:i] + [t2] + fs[i + 1:])
        for x in _shrink_xs(c):
            yield x


def neighbours(c):
    e = c["entry"]
    if e == "tree":
        t = c["tree"]
        for s in _subtrees(t):
            yield dict(c, tree=s)
        subs = list(_subtrees(t))
        if len(subs) >= 2:
            for op in BIN + ("subst",):
                yield dict(c, tree=[op, subs[0], subs[1]])
        if subs:
            for n in (-2, -1, 0, 1, 2, 3):
                yield dict(c, tree=["pow", subs[0], n])
        yield dict(c, xs=[1, 0, 0, 0, 0, 0])
    elif e == "laws":
        yield dict(c, f=c["g"], g=c["f"])
        for n in range(0, 4):
            yield dict(c, n=n)
        yield dict(c, xs=[1, 0, 0, 0, 0, 0])
    elif e == "eq":
        yield dict(c, p=c["q"], q=c["p"])
    elif e == "list":
        fs = c["fs"]
        for i in range(len(fs)):
            yield dict(c, fs=fs[:i] + fs[i + 1:])
        yield dict(c, kind="cascade" if c["kind"] == "parallel" else "parallel")
    elif e == "nest":
        t = c["obj"]
        for x in _obj_children(t):
            if x[0] in _FL_CHILD:
                yield dict(c, obj=x)
        if t[0] == "new":
            yield dict(c, obj=[t[0], not t[1]] + t[2:])
            for shape in ("star", "list", "tuple", "gen"):
                yield dict(c, obj=t[:3] + [shape] + t[4:])
            yield dict(c, obj=["new", False, 0, "star", [t]])
            yield dict(c, obj=["new", True, 0, "star", [t]])
        yield dict(c, xs=[1, 0, 0, 0, 0])
    elif e == "eqm":
        pool = c["pool"]
        for i in range(len(pool)):
            for j in range(len(pool)):
                if i != j:
                    yield dict(c, pool=[pool[i], pool[j]])


def classify(c, io, drv):
    e = c["entry"]
    m = drv.get("model") or {}
    if e == "hist":
        return "hist:" + ("raises:" + io["err"] if "err" in io else "a read after an in-place replacement")
    if e == "substpt":
        return "substpt:" + ("raises:" + io["err"] if "err" in io else "f(g)")
    if e == "eq":
        if "eq" in io and io["eq"] == io["ne"]:
            if not io["eq"] and (io["num_equal"] != io["den_equal"]):
                return "eq:neither == nor !=:filters differ in exactly one of numerator/denominator"
            return "eq:== and != both %r:num_equal=%r den_equal=%r" % (io["eq"], io["num_equal"], io["den_equal"])
        return "eq:other"
    if e == "list":
        if "err" in io:
            return "list:%s:raises:%s" % (c["kind"], io["err"])
        s = drv.get("spec")
        bad_out = s is not None and s.get("out") is not None and _cmp_out(io["out"], s["out"], 0, io.get("amp", 1.0))
        if bad_out:
            return "list:%s:output" % c["kind"]
        if c["kind"] == "parallel" and io.get("shortcut") and "err" not in io["numpoly"] and "err" not in io["denpoly"]:
            # numpoly from the reduced sum, denpoly the plain product?
            from_prod = not isinstance(m.get("denpoly"), dict) and \
                terms_to_dict(io["denpoly"]["terms"]) == terms_to_dict(m.get("denpoly", []))
            if from_prod:
                return "list:parallel:numpoly/denpoly is not the sum:denpoly is the product of all denominators " \
                       "while numpoly comes from a sum that took the same-denominator shortcut"
        return "list:%s:polys" % c["kind"]
    if e == "nest":
        if "err" in io:
            return "nest:building raises:%s" % io["err"]
        if "out" not in io:
            return "nest:plain list"
        sp = m.get("spec_out")
        if sp is not None and _cmp_out(io["out"], sp, 0, 1.0):
            return "nest:output"
        coded, fixed = m.get("polys_coded"), m.get("polys_fixed")
        flt = any(p.get("float") for p in (io["numpoly"], io["denpoly"]))
        if _par_holds_list(c["obj"]) and coded is not None and fixed is not None and "err" not in fixed \
                and (_polys_match(io, coded, 1e-9 if flt else 0) or _garbage_possible(c["obj"])) \
                and not _polys_match(io, fixed, 1e-9 if flt else 0):
            return "nest:parallel holding a part that is not a ZFilter:numpoly/denpoly is not the sum of the parts:" \
                   "reduce(operator.add, self) adds the raw elements (filter lists are concatenated, numbers stay numbers) " \
                   "instead of the parts as filters"
        return "nest:polys"
    if e == "eqm":
        return "eqm:" + ("raises:" + io["err"] if "err" in io else "comparison")
    if e == "frac":
        return "frac:" + ("raises:" + io["err"] if "err" in io else "linearize")
    if e == "tree":
        what = ("raises:" + io["err"]) if "err" in io else "value"
        return "tree:%s:%s" % (c["tree"][0], what)
    if e == "laws":
        bad = sorted(k for k, v in io.get("laws", {}).items() if v is not True and m.get(k, True) is not None)
        return "laws:" + ",".join(bad[:3]) if bad else "laws:" + io.get("err", "model-only")
    return "unclassified"
