"""C05 — filter algebra is system algebra.

Tie: expression trees over + - * / ** and substitution on rational filters built from Fractions
(exact regime), evaluated with the real `ZFilter` operators, with the Lean model (operator by
operator, as coded: same-denominator shortcut, normalisation in `__init__`, negative-power flip,
`sum()` of the substitution) and with the Lean spec (textbook field of fractions on canonical
pairs).  Observables, as the property names them:

  (a) numerator/denominator up to cross multiplication  num*den' == num'*den  (computed here in
      exact arithmetic; raw dictionaries are only tallied, so a refactor that cancels common
      factors stays quiet);
  (b) outputs on Fraction signals versus composition of outputs (law vectors evaluated on the
      real objects and through the model);
  (c) ==, != and hash on pairs drawn equal / different in numerator only / denominator only / both;
  (d) CascadeFilter / ParallelFilter: outputs and numpoly/denpoly against product / sum.
"""
import json
import operator
import warnings
from collections import OrderedDict
from fractions import Fraction as F
from functools import reduce

import common
from common import enc, dec, err_kind

ID = "C05"
RULE = ("random expression trees (depth<=3 quick / <=4 thorough) over + - * / ** (exponents -3..4), substitution, "
        "unary and reflected scalar operators on rational filters of order<=3 with Fraction coefficients (leaves as "
        "dicts in random insertion order, dense lists, z, numbers; denominators starting at delay 0 or not), each "
        "applied to a Fraction signal; law vectors on random triples (f,g,h,n,m,c,k,x); ==/!=/hash pairs drawn "
        "equal / numerator-only / denominator-only / both different; Cascade/Parallel lists of 0..4 filters incl. "
        "repeated denominators; non-trivial = the impl returned a filter, a law vector, a comparison or polynomials "
        "(not an exception); distinct = distinct JSON case")
TRUSTED = [
    "hand-written Lean model ALV/Model/C05.lean of ZFilter / CascadeFilter / ParallelFilter arithmetic on top of "
    "the C07 Poly model and the C04 filter loop (modelled, not verified: Python's Fraction arithmetic as a field, "
    "OrderedDict as association list, `sum()` as a fold from ZFilter([0]))",
    "cross-multiplication, polynomial product and signal comparison of harness/props/c05.py (exact Fractions)",
    "hash: the model gives the tuple of sorted powers that LinearFilter.__hash__ hashes; CPython's hash() is trusted",
]
ASSUMPTIONS = [
    "exact regime: Fraction coefficients, Poly zero=Fraction(0) on the leaves, Fraction signals, zero=Fraction(0); "
    "where the impl itself injects binary floats (Fraction coefficients formatted as 'p/q' into the exec'd filter "
    "loop, int ** negative int) results are compared within 1e-9 relative to the largest sample",
    "constant coefficients and integer powers only (Stream coefficients: C06; linearize is modelled and observed "
    "on integer delays only, where it must be the identity; its float interpolation of fractional delays is "
    "outside the model)",
    "signal laws (law vectors) are compared in the exact regime only (integer coefficients keep the impl's exec'd "
    "loop exact on Fraction samples); outputs of single trees in the float regime are compared within "
    "1e-10 * (sum |impulse response of 1/den|) relative to the largest sample",
    "signal laws are stated for causal filters; a non-causal composite raises ValueError in the impl and in the model",
]
MANIFEST = {
    "technique": "Lean 4 proof (ZFilter model interpreted into the fraction field of Mathlib's Laurent polynomial "
                 "ring K[T;T⁻¹] for the field laws / substitution / expression trees of any depth, and into K⟦X⟧ "
                 "via C04's A·Y = B·X with unit denominators for the signal laws) + differential tie on expression "
                 "trees, law vectors, ==/!=/hash pairs and Cascade/Parallel lists in the exact Fraction regime",
    "note": "48 theorems, no pending statement; D2 (__ne__ is `num != and den !=`) and D12 (ParallelFilter.denpoly "
            "is the product while numpoly comes from the shortcut sum) recorded as known with "
            "proposed_fixes/D2-filter-ne.diff and proposed_fixes/D12-parallel-denpoly.diff; both are stated in "
            "Lean as theorems about the repaired shape plus a refutation of the shape as coded",
}

warnings.filterwarnings("ignore", message="StreamTeeHub requesting")
Z = F(0)
COEFFS = [F(1), F(-1), F(2), F(-2), F(3), F(1, 2), F(-1, 2), F(1, 4), F(3, 2), F(-3, 4), F(1, 3), F(-2, 3), F(5), F(-5, 2)]
DYADIC = [F(1), F(-1), F(2), F(-2), F(3), F(1, 2), F(-1, 2), F(1, 4), F(3, 2), F(-3, 4), F(5), F(-5, 2)]
# integer coefficients keep the exec'd filter loop of the impl exact on Fraction samples ("3 * d1", "(expr) / (2)"):
# a non-integer Fraction is formatted as "1/2 * d1", i.e. a float, into the generated source
INTS = [F(1), F(-1), F(2), F(-2), F(3), F(-3), F(4), F(5), F(-5), F(7)]
UNITS = [F(1), F(1), F(-1), F(2), F(1, 2), F(-2)]
SCAL_R = ("radds", "rsubs", "rmuls", "rdivs")
SCAL_L = ("adds", "subs", "muls", "divs")
BIN = ("add", "sub", "mul", "div")
UN = ("neg", "pos")
LEAVES = ("f", "fl", "z", "s")
_ALLOPS = set(LEAVES + BIN + UN + SCAL_L + SCAL_R + ("pow", "subst"))


# ----------------------------------------------------------------------------
# exact polynomial helpers (dict power -> Fraction)
# ----------------------------------------------------------------------------
def pmul(a, b):
    out = {}
    for k1, v1 in a.items():
        for k2, v2 in b.items():
            out[k1 + k2] = out.get(k1 + k2, 0) + v1 * v2
    return {k: v for k, v in out.items() if v != 0}


def psub(a, b):
    out = dict(a)
    for k, v in b.items():
        out[k] = out.get(k, 0) - v
    return out


def pscale(a):
    return max([abs(v) for v in a.values()] + [1])


def pzero(a, tol=0, scale=1):
    if tol == 0:
        return all(v == 0 for v in a.values())
    return all(abs(v) <= tol * scale for v in a.values())


def terms_to_dict(terms):
    return {int(k): dec(v) for k, v in terms}


def cross_equal(n1, d1, n2, d2, tol=0):
    """n1/d1 == n2/d2 as rational functions: n1*d2 == n2*d1 (exact, or within tol of the products' size)"""
    a, b = pmul(n1, d2), pmul(n2, d1)
    return pzero(psub(a, b), tol, max(pscale(a), pscale(b)))


def sig_close(a, b, tol):
    if len(a) != len(b):
        return False
    if tol == 0:
        return all(x == y for x, y in zip(a, b))
    scale = max([abs(x) for x in a] + [abs(y) for y in b] + [1])
    return all(abs(x - y) <= tol * scale for x, y in zip(a, b))


# ----------------------------------------------------------------------------
# generators
# ----------------------------------------------------------------------------
def _units(pool):
    return [u for u in UNITS if u.denominator == 1] if pool is INTS else UNITS


def _coeff(rng, pool=COEFFS, zero_p=0.06):
    if rng.random() < zero_p:
        return F(0)
    return rng.choice(pool)


def _pairs(rng, lo, n, pool, lead=None):
    """n distinct powers in [lo, lo+3], random insertion order; `lead` = pool for the lowest power"""
    n = max(0, min(n, 4))
    ks = sorted(rng.sample(range(lo, lo + 4), n))
    ps = []
    for i, k in enumerate(ks):
        c = rng.choice(lead) if (lead and i == 0) else _coeff(rng, pool)
        ps.append([k, enc(c)])
    if rng.random() < 0.5:
        rng.shuffle(ps)
    return ps


def _leaf(rng, causal=False, pool=COEFFS):
    r = rng.random()
    if not causal:
        if r < 0.07:
            return ["z"]
        if r < 0.14:
            return ["s", enc(_coeff(rng, pool, 0.15))]
    if r < 0.3:
        # dense lists (the documented constructor)
        nb = rng.randint(0 if not causal else 1, 4)
        na = rng.randint(1, 4)
        b = [enc(_coeff(rng, pool, 0.15)) for _ in range(nb)]
        a = [enc(rng.choice(_units(pool)))] + [enc(_coeff(rng, pool, 0.2)) for _ in range(na - 1)]
        if not causal and rng.random() < 0.15:
            a = [0] + a                      # leading zero: the constructor shifts both polynomials
        return ["fl", b, a]
    # dictionaries
    dlo = 0 if causal or rng.random() < 0.8 else rng.choice([-1, 1, 2])
    nlo = dlo if causal else rng.choice([dlo, dlo, dlo, dlo + 1, dlo - 1, 0])
    if causal:
        nlo = dlo + rng.choice([0, 0, 0, 1])
    den = _pairs(rng, dlo, rng.choice([1, 1, 2, 2, 3]), pool, lead=_units(pool) if causal else [c for c in pool if c != 0])
    if causal and den and min(k for k, _ in den) != dlo:
        den = den + [[dlo, enc(rng.choice(_units(pool)))]]
    num = _pairs(rng, nlo, rng.choice([0, 1, 1, 2, 2, 3]), pool)
    return ["f", num, den]


def _small(rng, pool=COEFFS):
    """a filter of order <= 2 with at most two terms per polynomial"""
    den = _pairs(rng, 0, rng.choice([1, 2]), pool, lead=_units(pool))[:2]
    num = _pairs(rng, rng.choice([0, 0, 1]), rng.choice([0, 1, 2, 2]), pool)
    f = lambda ps: [p for p in ps if p[0] <= 2]
    return ["f", f(num), f(den) or [[0, 1]]]


def _mono(rng, pool=COEFFS):
    """monomial filters c*z^-k (both polynomials have one term: the no-flip branch of __pow__)"""
    return ["f", [[rng.randint(-2, 3), enc(rng.choice(pool))]], [[0, enc(rng.choice(_units(pool)))]]]


def _same_den(rng, t, pool=COEFFS):
    """a leaf with the denominator of leaf t (drives the same-denominator shortcut of __add__)"""
    if t[0] == "f":
        lo = min([k for k, _ in t[2]] + [0])
        d = list(t[2])
        rng.shuffle(d)
        return ["f", _pairs(rng, lo, rng.choice([1, 2, 3]), pool), d]
    if t[0] == "fl":
        return ["fl", [enc(_coeff(rng, pool, 0.15)) for _ in range(rng.randint(1, 3))], list(t[2])]
    return ["s", enc(_coeff(rng, pool))]


def _tree(rng, depth, causal=False, pool=COEFFS):
    if depth <= 0 or rng.random() < 0.18:
        return _leaf(rng, causal, pool)
    r = rng.random()
    if r < 0.5:
        op = rng.choice(("add", "sub", "mul", "add", "sub", "mul", "div") if not causal else ("add", "sub", "mul"))
        a = _tree(rng, depth - 1, causal, pool)
        if op in ("add", "sub") and a[0] in LEAVES and rng.random() < 0.4:
            b = _same_den(rng, a, pool)
        else:
            b = _tree(rng, depth - 1, causal, pool)
        if rng.random() < 0.5:
            a, b = b, a
        return [op, a, b]
    if r < 0.57:
        return [rng.choice(UN), _tree(rng, depth - 1, causal, pool)]
    if r < 0.72:
        ops = SCAL_L + SCAL_R if not causal else ("adds", "subs", "muls", "divs", "radds", "rsubs", "rmuls")
        op = rng.choice(ops)
        c = enc(_coeff(rng, pool, 0.08))
        sub = _tree(rng, depth - 1, causal, pool)
        return [op, c, sub] if op.startswith("r") else [op, sub, c]
    if r < 0.87:
        n = rng.choice([0, 1, 2, 2, 3, 4, -1, -1, -2, -3] if not causal else [0, 1, 2, 2, 3])
        base = _mono(rng, pool) if (not causal and rng.random() < 0.25) else _tree(rng, min(depth - 1, 1), causal, pool)
        return ["pow", base, n]
    if causal:
        return ["mul", _tree(rng, depth - 1, causal, pool), _tree(rng, depth - 1, causal, pool)]
    inner = rng.choice([["z"], ["pow", ["z"], -1], ["pow", ["z"], -2], _mono(rng, pool)]) if rng.random() < 0.45 \
        else _tree(rng, min(depth - 1, 1), False, pool)
    outer = _leaf(rng, rng.random() < 0.5, pool)
    return ["subst", outer, inner]


def _span(t):
    """crude upper bound (numerator span, denominator span) of the result, to keep cases small"""
    op = t[0]
    if op == "f":
        sp = lambda ps: (max(k for k, _ in ps) - min(k for k, _ in ps) + abs(min(k for k, _ in ps))) if ps else 0
        return sp(t[1]) + 1, sp(t[2]) + 1
    if op == "fl":
        return len(t[1]), len(t[2])
    if op == "z":
        return 1, 0
    if op == "s":
        return 0, 0
    if op in UN:
        return _span(t[1])
    if op in SCAL_L or op in SCAL_R:
        n, d = _span(t[2] if op in SCAL_R else t[1])
        return (n + d, n + d) if op == "rdivs" else (max(n, d), d)
    if op in ("add", "sub"):
        (a, b), (c, d) = _span(t[1]), _span(t[2])
        return max(a + d, c + b), b + d
    if op == "mul":
        (a, b), (c, d) = _span(t[1]), _span(t[2])
        return a + c, b + d
    if op == "div":
        (a, b), (c, d) = _span(t[1]), _span(t[2])
        return a + d, b + c
    if op == "pow":
        a, b = _span(t[1])
        n = max(abs(t[2]), 1)
        return max(a, b) * n, max(a, b) * n
    if op == "subst":
        (a, b), (c, d) = _span(t[1]), _span(t[2])
        g = max(c, d, 1)
        s = (a * (a + 1) // 2 + b * (b + 1) // 2 + a + b) * g
        return s, s
    raise ValueError(op)


def _gen_tree(rng, depth, causal=False, pool=COEFFS, limit=26):
    for _ in range(60):
        t = _tree(rng, depth, causal, pool)
        if max(_span(t)) <= limit:
            return t
    return _leaf(rng, causal, pool)


def _signal(rng, n=None):
    n = rng.choice([0, 1, 3, 5, 6, 8]) if n is None else n
    pool = [F(0), F(1), F(-1), F(2), F(3), F(1, 2), F(-3, 2), F(5), F(-4), F(7, 4)]
    return [enc(rng.choice(pool)) for _ in range(n)]


def _perturb(rng, ps):
    ps = [list(p) for p in ps]
    if not ps:
        return [[rng.randint(0, 3), enc(rng.choice(COEFFS))]]
    i = rng.randrange(len(ps))
    r = rng.random()
    if r < 0.45:
        ps[i][1] = enc(dec(ps[i][1]) + rng.choice([F(1), F(-1, 2), F(3)]))
        if dec(ps[i][1]) == 0:
            ps[i][1] = 7
    elif r < 0.7:
        ps[i][0] = max(k for k, _ in ps) + rng.choice([1, 2])
    elif r < 0.85 and len(ps) > 1:
        del ps[i]
    else:
        ps.append([max(k for k, _ in ps) + 1, enc(rng.choice(COEFFS))])
    return ps


def _gen_eq(rng):
    """pairs drawn to be equal / different in numerator only / denominator only / both"""
    dlo = 0
    den = _pairs(rng, dlo, rng.choice([1, 2, 3]), COEFFS)
    num = _pairs(rng, rng.choice([0, 0, 1, -1]), rng.choice([0, 1, 2, 3]), COEFFS)
    num = [p for p in num if dec(p[1]) != 0]
    den = [p for p in den if dec(p[1]) != 0] or [[0, 1]]
    p = ["f", num, den]
    sn, sd = list(num), list(den)
    rng.shuffle(sn)
    rng.shuffle(sd)
    kind = rng.choice(["equal", "equal", "num", "num", "den", "den", "both", "algebra", "shifted"])
    if kind == "equal":
        q = ["f", sn + ([[9, 0]] if rng.random() < 0.3 else []), sd]
    elif kind == "num":
        q = ["f", _perturb(rng, sn), sd]
    elif kind == "den":
        q = ["f", sn, _perturb(rng, sd)]
    elif kind == "both":
        q = ["f", _perturb(rng, sn), _perturb(rng, sd)]
    elif kind == "shifted":
        s = rng.choice([1, 2, -1])      # same filter written with a common delay: the constructor normalises it
        q = ["f", [[k + s, c] for k, c in sn], [[k + s, c] for k, c in sd]]
    else:
        t = _leaf(rng)
        q = rng.choice([["sub", ["add", p, t], t], ["mul", p, ["s", 1]], ["add", ["s", 0], p], ["pos", p],
                        ["neg", ["neg", p]], ["pow", p, 1], ["muls", p, 2]])
    return {"entry": "eq", "p": p, "q": q, "kind": kind}


def _gen_list(rng, quick):
    kind = rng.choice(["cascade", "parallel", "parallel"])
    n = rng.choice([0, 1, 2, 2, 3, 3, 4])
    pool = INTS if rng.random() < 0.75 else DYADIC
    fs = []
    for i in range(n):
        if fs and rng.random() < 0.35:
            base = rng.choice(fs)
            fs.append(_same_den(rng, base, pool) if base[0] in ("f", "fl") and rng.random() < 0.7 else base)
        else:
            fs.append(_leaf(rng, causal=rng.random() < 0.9, pool=pool))
    return {"entry": "list", "kind": kind, "fs": fs, "xs": _signal(rng)}


def _fixed_cases():
    """small exhaustive universe: every operator on every pair of a fixed set of small filters"""
    base = [["z"], ["s", 0], ["s", 2], ["f", [[0, 1], [1, 1]], [[0, 1], [1, "-1/2"]]],
            ["f", [[1, 2]], [[0, 1]]], ["f", [[0, 1]], [[0, 2], [2, 1]]], ["fl", [1, -1], [1]],
            ["f", [], [[0, 1], [1, 1]]], ["f", [[0, 3], [2, "1/2"]], [[1, 1], [2, -1]]],
            ["f", [[-1, 1], [0, 1]], [[0, 1]]]]
    xs = [1, 2, 0, -1, "1/2"]
    out = []
    for a in base:
        for b in base:
            for op in BIN + ("subst",):
                out.append({"entry": "tree", "tree": [op, a, b], "xs": xs})
        for n in (-2, -1, 0, 1, 2, 3):
            out.append({"entry": "tree", "tree": ["pow", a, n], "xs": xs})
        for op in UN:
            out.append({"entry": "tree", "tree": [op, a], "xs": xs})
        for c in (0, 1, 2, "-1/2"):
            for op in SCAL_L:
                out.append({"entry": "tree", "tree": [op, a, c], "xs": xs})
            for op in SCAL_R:
                out.append({"entry": "tree", "tree": [op, c, a], "xs": xs})
    f = ["f", [[0, 1], [1, 1]], [[0, 1], [1, "-1/2"]]]
    g = ["f", [[0, 1], [1, 2]], [[0, 1], [1, "-1/2"]]]
    h = ["f", [[0, 1], [1, 1]], [[0, 1], [1, "1/2"]]]
    for q, kind in ((f, "equal"), (g, "num"), (h, "den"), (["f", [[0, 2]], [[0, 1], [2, 1]]], "both")):
        out.append({"entry": "eq", "p": f, "q": q, "kind": kind})
    out.append({"entry": "list", "kind": "parallel", "fs": [f, f], "xs": xs})
    out.append({"entry": "list", "kind": "parallel", "fs": [f, g, h], "xs": xs})
    out.append({"entry": "list", "kind": "parallel", "fs": [f, h], "xs": xs})
    out.append({"entry": "list", "kind": "cascade", "fs": [f, h, g], "xs": xs})
    out.append({"entry": "list", "kind": "cascade", "fs": [], "xs": xs})
    out.append({"entry": "list", "kind": "parallel", "fs": [], "xs": xs})
    out.append({"entry": "tree", "tree": ["f", [[0, 1]], []], "xs": xs})          # empty denominator: ValueError
    out.append({"entry": "tree", "tree": ["f", [[0, 1]], [[0, 0]]], "xs": xs})
    return out


def generate(rng, tier, scale=1):
    quick = tier == "quick"
    n_tree = (1400 if quick else 40000) * scale
    n_laws = (600 if quick else 9000) * scale
    n_eq = (700 if quick else 12000) * scale
    n_list = (400 if quick else 8000) * scale
    depth = 3 if quick else 4
    cases = []
    if scale == 1:
        cases.extend(_fixed_cases())
    for i in range(n_tree):
        causal = rng.random() < 0.35
        pool = rng.choice([INTS, INTS, DYADIC]) if (causal or rng.random() < 0.3) else COEFFS
        t = _gen_tree(rng, rng.choice([1, 2, 2, depth, depth]), causal, pool)
        cases.append({"entry": "tree", "tree": t, "xs": _signal(rng)})
    for i in range(n_laws):
        causal = rng.random() < 0.7
        d = rng.choice([0, 0, 1, 1, 2])
        pool = rng.choice([INTS, INTS, INTS, DYADIC]) if causal else rng.choice([COEFFS, INTS])
        if i % 3 == 0:
            # substitution laws: small operands (the degree of f(h) grows with order(f)^2 * order(h))
            cases.append({"entry": "laws", "subst": True,
                          "f": _small(rng, pool), "g": _small(rng, pool),
                          "h": rng.choice([["z"], ["pow", ["z"], -1], ["pow", ["z"], -2], _mono(rng, pool), _small(rng, pool),
                                           _small(rng, pool)]),
                          "n": rng.choice([0, 1, 2]), "m": rng.choice([0, 1]), "k": rng.choice([0, 1, 2]),
                          "c": enc(_coeff(rng, pool if pool is INTS else DYADIC, 0.1)), "xs": _signal(rng, rng.choice([1, 4]))})
            continue
        cases.append({"entry": "laws", "subst": False,
                      "f": _gen_tree(rng, d, causal, pool, 8), "g": _gen_tree(rng, d, causal, pool, 8),
                      "h": _gen_tree(rng, min(d, 1), causal, pool, 6),
                      "n": rng.choice([0, 1, 2, 2, 3]), "m": rng.choice([0, 1, 1, 2]),
                      "k": rng.choice([0, 1, 2, 3, 5]), "c": enc(_coeff(rng, pool if pool is INTS else DYADIC, 0.1)),
                      "xs": _signal(rng, rng.choice([1, 4, 6, 8]))})
    for i in range(n_eq):
        cases.append(_gen_eq(rng))
    for i in range(n_list):
        cases.append(_gen_list(rng, quick))
    return cases


# ----------------------------------------------------------------------------
# the real code
# ----------------------------------------------------------------------------
_BR = []      # branch labels of the modelled code reached while building the current case (histograms only)


def _mk(num, den):
    from audiolazy import ZFilter, Poly
    return ZFilter(Poly(num, zero=Z), Poly(den, zero=Z))


def _od(pairs):
    return OrderedDict((int(k), dec(c)) for k, c in pairs)


def _len2(f):
    return len(f.numpoly) >= 2 or len(f.denpoly) >= 2


def _build(t):
    from audiolazy import ZFilter, z
    op = t[0]
    if op == "f":
        return _mk(_od(t[1]), _od(t[2]))
    if op == "fl":
        return _mk([dec(c) for c in t[1]], [dec(c) for c in t[2]])
    if op == "z":
        return z
    if op == "s":
        return ZFilter([dec(t[1])])
    if op == "neg":
        return -_build(t[1])
    if op == "pos":
        return +_build(t[1])
    if op in BIN:
        a, b = _build(t[1]), _build(t[2])
        if op in ("add", "sub"):
            _BR.append("add:same denominator (shortcut)" if a.denpoly == b.denpoly else "add:general")
        r = {"add": operator.add, "sub": operator.sub, "mul": operator.mul, "div": operator.truediv}[op](a, b)
        return r
    if op == "pow":
        a = _build(t[1])
        n = t[2]
        _BR.append("pow:n<0 flip" if (n < 0 and _len2(a)) else ("pow:n<0 monomials" if n < 0 else
                                                                  ("pow:n=0" if n == 0 else "pow:n>0")))
        return a ** n
    if op == "subst":
        a, b = _build(t[1]), _build(t[2])
        _BR.append("subst:%s numerator, %s argument" % ("empty" if len(a.numpoly) == 0 else "non-empty",
                                                         "monomial" if not _len2(b) else "general"))
        return a(b)
    if op in SCAL_L:
        a, c = _build(t[1]), dec(t[2])
        return {"adds": operator.add, "subs": operator.sub, "muls": operator.mul, "divs": operator.truediv}[op](a, c)
    if op in SCAL_R:
        c, a = dec(t[1]), _build(t[2])
        return {"radds": operator.add, "rsubs": operator.sub, "rmuls": operator.mul, "rdivs": operator.truediv}[op](c, a)
    raise ValueError("bad tree op %r" % (op,))


def _terms(p):
    return [[k, enc(v)] for k, v in p.terms()]


def _items(p):
    return [[k, enc(v)] for k, v in p.terms(sort=False)]


def _has_float(*polys):
    return any(isinstance(v, float) for p in polys for _, v in p.terms(sort=False))


def _out(f, xs):
    try:
        ys = list(f([dec(x) for x in xs], zero=Z))
    except Exception as e:
        return {"err": err_kind(e)}
    return {"float": any(isinstance(y, float) for y in ys), "ys": [enc(y) for y in ys]}


def _pair(f):
    return terms_to_dict(_terms(f.numpoly)), terms_to_dict(_terms(f.denpoly))


def _laws(c):
    from audiolazy import ZFilter, z, CascadeFilter, ParallelFilter
    f, g, h = _build(c["f"]), _build(c["g"]), _build(c["h"])
    n, m, k, cc = c["n"], c["m"], c["k"], dec(c["c"])
    xs = [dec(x) for x in c["xs"]]
    one, zero = ZFilter([F(1)]), ZFilter([F(0)])
    flt = [False]

    def equiv(a, b):
        a, b = a(), b()
        if _has_float(a.numpoly, a.denpoly, b.numpoly, b.denpoly):
            flt[0] = True
        (n1, d1), (n2, d2) = _pair(a), _pair(b)
        return cross_equal(n1, d1, n2, d2, 1e-9 if flt[0] else 0)

    def run(filt, x):
        return list(filt(x, zero=Z))

    def sig(a, b):
        a, b = a(), b()
        if any(isinstance(v, float) for v in a + b):
            # the impl's generated loop went through binary floats (a non-integer coefficient was formatted into
            # the source): rounding errors are amplified by the poles, so the law is only compared in the exact regime
            flt[0] = True
            return None
        return sig_close(a, b, 0)

    def it(filt, cnt, x):
        for _ in range(cnt):
            x = run(filt, x)
        return list(x)

    L = OrderedDict()
    L["add_comm"] = lambda: equiv(lambda: f + g, lambda: g + f)
    L["add_assoc"] = lambda: equiv(lambda: (f + g) + h, lambda: f + (g + h))
    L["mul_comm"] = lambda: equiv(lambda: f * g, lambda: g * f)
    L["mul_assoc"] = lambda: equiv(lambda: (f * g) * h, lambda: f * (g * h))
    L["distrib"] = lambda: equiv(lambda: f * (g + h), lambda: f * g + f * h)
    L["sub_self"] = lambda: equiv(lambda: f - f, lambda: zero)
    L["add_neg"] = lambda: equiv(lambda: f - g, lambda: f + (-g))
    L["div_self"] = lambda: equiv(lambda: f / f, lambda: one)
    L["div_mul_cancel"] = lambda: equiv(lambda: (f / g) * g, lambda: f)
    L["pow_add"] = lambda: equiv(lambda: f ** (n + m), lambda: f ** n * f ** m)
    L["pow_neg"] = lambda: equiv(lambda: f ** (-n), lambda: one / f ** n)
    L["pow_nfold"] = lambda: equiv(lambda: f ** n, lambda: reduce(operator.mul, [f] * n, one))
    L["scalar_mul"] = lambda: equiv(lambda: f * cc, lambda: ZFilter([cc]) * f)
    if c.get("subst"):
        L["subst_add"] = lambda: equiv(lambda: (f + g)(h), lambda: f(h) + g(h))
        L["subst_mul"] = lambda: equiv(lambda: (f * g)(h), lambda: f(h) * g(h))
        L["subst_z"] = lambda: equiv(lambda: f(z), lambda: f)
    L["sig_add"] = lambda: sig(lambda: run(f + g, xs), lambda: [a + b for a, b in zip(run(f, xs), run(g, xs))])
    L["sig_sub"] = lambda: sig(lambda: run(f - g, xs), lambda: [a - b for a, b in zip(run(f, xs), run(g, xs))])
    L["sig_scale"] = lambda: sig(lambda: run(f * cc, xs), lambda: [cc * a for a in run(f, xs)])
    L["sig_rscale"] = lambda: sig(lambda: run(cc * f, xs), lambda: [cc * a for a in run(f, xs)])
    L["sig_mul"] = lambda: sig(lambda: run(f * g, xs), lambda: run(f, run(g, xs)))
    L["sig_mul_comm"] = lambda: sig(lambda: run(f, run(g, xs)), lambda: run(g, run(f, xs)))
    L["sig_div_mul"] = lambda: sig(lambda: run((f / g) * g, xs), lambda: run(f, xs))
    L["sig_pow"] = lambda: sig(lambda: run(f ** n, xs), lambda: it(f, n, xs))
    L["sig_delay"] = lambda: sig(lambda: run(z ** -k, xs), lambda: ([Z] * k + xs)[:len(xs)])
    L["sig_cascade"] = lambda: sig(lambda: run(CascadeFilter(f, g, h), xs), lambda: run((f * g) * h, xs))
    L["sig_parallel"] = lambda: sig(lambda: run(ParallelFilter(f, g, h), xs), lambda: run((f + g) + h, xs))
    out = OrderedDict()
    for name, fn in L.items():
        try:
            r = fn()
            out[name] = None if r is None else bool(r)
        except Exception as e:
            out[name] = "err:" + err_kind(e)
    return out, flt[0]


def impl(c):
    e = c["entry"]
    if e == "tree":
        del _BR[:]
        try:
            f = _build(c["tree"])
        except Exception as ex:
            return {"err": err_kind(ex), "branches": list(_BR)}
        try:
            causal = bool(f.is_causal())
        except Exception as ex:
            causal = {"err": err_kind(ex)}
        try:
            g = f.linearize()
            lin = {"num": _terms(g.numpoly), "den": _terms(g.denpoly)}
        except Exception as ex:
            lin = {"err": err_kind(ex)}
        return {"num": _terms(f.numpoly), "den": _terms(f.denpoly), "linearize": lin,
                "items_num": _items(f.numpoly), "items_den": _items(f.denpoly),
                "float": _has_float(f.numpoly, f.denpoly), "causal": causal,
                "out": _out(f, c.get("xs", [])), "branches": list(_BR)}
    if e == "laws":
        try:
            L, flt = _laws(c)
            return {"laws": L, "float": flt}
        except Exception as ex:
            return {"err": err_kind(ex)}
    if e == "eq":
        try:
            p, q = _build(c["p"]), _build(c["q"])
            return {"eq": bool(p == q), "ne": bool(p != q), "hash_equal": hash(p) == hash(q),
                    "num_equal": bool(p.numpoly == q.numpoly), "den_equal": bool(p.denpoly == q.denpoly),
                    "float": _has_float(p.numpoly, p.denpoly, q.numpoly, q.denpoly)}
        except Exception as ex:
            return {"err": err_kind(ex)}
    if e == "list":
        from audiolazy import CascadeFilter, ParallelFilter
        try:
            fs = [_build(t) for t in c["fs"]]
        except Exception as ex:
            return {"err": err_kind(ex)}
        filt = (CascadeFilter if c["kind"] == "cascade" else ParallelFilter)(*fs)

        def poly(name):
            try:
                p = getattr(filt, name)
                return {"terms": _terms(p), "float": _has_float(p)}
            except Exception as ex:
                return {"err": err_kind(ex)}
        shortcut = False
        if c["kind"] == "parallel" and fs:
            try:
                acc = fs[0]
                for g in fs[1:]:
                    shortcut = shortcut or bool(acc.denpoly == g.denpoly)
                    acc = acc + g
            except Exception:
                pass
        amp = 1.0
        for f in fs:
            try:
                amp *= _amplification(_pair(f)[1], len(c.get("xs", [])))
            except Exception:
                pass
        return {"numpoly": poly("numpoly"), "denpoly": poly("denpoly"), "shortcut": shortcut,
                "out": _out(filt, c.get("xs", [])), "amp": amp}
    raise ValueError("unknown entry " + e)


# ----------------------------------------------------------------------------
# comparison
# ----------------------------------------------------------------------------
def _amplification(den, n):
    """sum |impulse response of 1/den| over n samples (exact): how much the recursion amplifies a rounding error"""
    if not den or 0 not in den or den[0] == 0:
        return 1.0
    a0 = den[0]
    g = []
    for i in range(max(n, 1)):
        acc = F(1) if i == 0 else F(0)
        for k, v in den.items():
            if 0 < k <= i:
                acc -= v * g[i - k]
        g.append(acc / a0)
    return float(sum(abs(v) for v in g)) + 1.0


def _cmp_out(io_out, want, tol_hint, amp=1.0):
    """impl output observation vs a list (or {"err":..}) from the driver; returns None when equal"""
    if isinstance(want, dict) and "err" in want:
        if "err" in io_out and io_out["err"] == want["err"]:
            return None
        return "impl %s, expected %s" % (json.dumps(io_out)[:120], want["err"])
    if "err" in io_out:
        return "impl raised %s, expected %s" % (io_out["err"], json.dumps(want)[:120])
    tol = 1e-10 * amp if (io_out["float"] or tol_hint) else 0
    a, b = [dec(v) for v in io_out["ys"]], [dec(v) for v in want]
    if sig_close(a, b, tol):
        return None
    return "outputs %s vs %s" % (json.dumps(io_out["ys"])[:160], json.dumps(want)[:160])


def compare(c, io, drv):
    out = []
    e = c["entry"]
    m, s = drv.get("model"), drv.get("spec")
    if e == "tree":
        if "err" in io:
            if not (isinstance(m, dict) and m.get("err") == io["err"]):
                out.append(("model", "impl raised %s, model gives %s" % (io["err"], json.dumps(m)[:200])))
            if s is not None:
                out.append(("spec", "impl raised %s where the rational function is %s / %s" % (
                    io["err"], json.dumps(s["num"])[:120], json.dumps(s["den"])[:120])))
            return out
        tol = 1e-9 if io["float"] else 0
        ni, di = terms_to_dict(io["num"]), terms_to_dict(io["den"])
        if "err" in m:
            out.append(("model", "model predicts %s, impl returned %s / %s" % (m["err"], io["num"], io["den"])))
        else:
            nm, dm = terms_to_dict(m["num"]), terms_to_dict(m["den"])
            if not cross_equal(ni, di, nm, dm, tol):
                out.append(("model", "num/den: impl=%s / %s model=%s / %s" % (
                    json.dumps(io["num"])[:120], json.dumps(io["den"])[:120], json.dumps(m["num"])[:120], json.dumps(m["den"])[:120])))
            if not di:
                out.append(("model", "impl denominator is empty"))
            if io["causal"] != m["causal"]:
                out.append(("model", "is_causal: impl=%r model=%r" % (io["causal"], m["causal"])))
            amp = _amplification(dm, len(c.get("xs", [])))
            d = _cmp_out(io["out"], m["out"], tol, amp)
            if d:
                out.append(("model", "call: " + d))
            li, lm = io["linearize"], m["linearize"]
            if ("err" in li) != ("err" in lm) or ("err" in li and li["err"] != lm["err"]):
                out.append(("model", "linearize: impl=%s model=%s" % (json.dumps(li)[:100], json.dumps(lm)[:100])))
            elif "err" not in li:
                if not cross_equal(terms_to_dict(li["num"]), terms_to_dict(li["den"]),
                                   terms_to_dict(lm["num"]), terms_to_dict(lm["den"]), tol):
                    out.append(("model", "linearize: impl=%s model=%s" % (json.dumps(li)[:100], json.dumps(lm)[:100])))
                if not cross_equal(terms_to_dict(li["num"]), terms_to_dict(li["den"]), ni, di, tol):
                    out.append(("spec", "linearize() of a filter with integer delays changed the rational function"))
        if s is not None:
            ns, ds = terms_to_dict(s["num"]), terms_to_dict(s["den"])
            if not cross_equal(ni, di, ns, ds, tol) or not di:
                out.append(("spec", "rational function: impl=%s / %s spec=%s / %s" % (
                    json.dumps(io["num"])[:120], json.dumps(io["den"])[:120], json.dumps(s["num"])[:120], json.dumps(s["den"])[:120])))
            elif s["out"] is not None:
                d = _cmp_out(io["out"], s["out"], tol, _amplification(di, len(c.get("xs", []))))
                if d:
                    out.append(("spec", "response of a causal filter: " + d))
        return out
    if e == "laws":
        if "err" in io:
            if isinstance(m, dict) and m.get("err") == io["err"]:
                return []          # an operand does not exist (both sides agree on the exception)
            return [("model", "impl raised %s, model: %s" % (io["err"], json.dumps(m)[:120]))]
        if "err" in m:
            return [("model", "model predicts %s, impl evaluated the laws" % m["err"])]
        for name, mv in m.items():
            iv = io["laws"].get(name)
            if mv is None or iv is None:
                continue               # operand missing / law not applicable in the model / float regime on the impl side
            if iv != mv:
                out.append(("model", "law %s: impl=%r model=%r" % (name, iv, mv)))
            if iv is not True:
                out.append(("spec", "law %s fails on the impl: %r" % (name, iv)))
        return out
    if e == "eq":
        if "err" in io:
            if isinstance(m, dict) and m.get("err") == io["err"]:
                return []
            return [("model", "impl raised " + io["err"])]
        if "err" in m:
            return [("model", "model predicts %s" % m["err"])]
        if io["float"]:
            return []
        # two code shapes are accepted for `!=`: as coded (num != and den !=) and the repair proposed for D2
        if io["eq"] != m["eq"] or (io["ne"] != m["ne"] and io["ne"] != m["ne_fixed"]):
            out.append(("model", "eq/ne: impl=%r/%r model=%r/%r (repaired ne: %r)" % (
                io["eq"], io["ne"], m["eq"], m["ne"], m["ne_fixed"])))
        # the model's hash key (tuple of sorted powers) is tallied only: the property demands `==` => equal hashes,
        # so a finer hash (e.g. over the items) must stay quiet
        if s is not None:
            if c["p"][0] in ("f", "fl") and c["q"][0] in ("f", "fl"):
                # two filters built directly from coefficients: `==` compares the normalised polynomials
                if io["eq"] != s["eq"]:
                    out.append(("spec", "== is %r but the normalised numerator/denominator pairs are %s" % (
                        io["eq"], "equal" if s["eq"] else "different")))
            elif io["eq"] and not s["equiv"]:
                # results of operators: which representation they return is not fixed by the property
                # (shortcuts, uncancelled factors); equal objects must at least denote the same function
                out.append(("spec", "== is True but the two filters denote different rational functions"))
        if io["eq"] and not io["hash_equal"]:
            out.append(("spec", "f == g but hash(f) != hash(g)"))
        if io["ne"] == io["eq"]:
            out.append(("spec", "f == g is %r and f != g is %r: not exactly one of them holds" % (io["eq"], io["ne"])))
        return out
    if e == "list":
        if "err" in io:
            if isinstance(m, dict) and m.get("err") == io["err"]:
                return []
            return [("model", "impl raised %s building the parts, model: %s" % (io["err"], json.dumps(m)[:120]))]
        if "err" in m:
            return [("model", "model predicts %s" % m["err"])]
        pi_n, pi_d = io["numpoly"], io["denpoly"]
        errs = [p["err"] for p in (pi_n, pi_d) if "err" in p]
        if errs:
            if not ("err" in m["numpoly"] and m["numpoly"]["err"] == errs[0]):
                out.append(("model", "numpoly/denpoly raised %s, model: %s" % (errs, json.dumps(m["numpoly"])[:100])))
        elif isinstance(m["numpoly"], dict) or isinstance(m["denpoly"], dict):
            out.append(("model", "model predicts an exception for numpoly/denpoly, impl returned polynomials"))
        else:
            tol = 1e-9 if (pi_n["float"] or pi_d["float"]) else 0
            ni, di = terms_to_dict(pi_n["terms"]), terms_to_dict(pi_d["terms"])
            shapes = [(m["numpoly"], m["denpoly"])]
            if "denpoly_fixed" in m and not isinstance(m["denpoly_fixed"], dict):
                shapes.append((m["numpoly"], m["denpoly_fixed"]))     # the repair proposed for D12
            if not any(cross_equal(ni, di, terms_to_dict(a), terms_to_dict(b), tol) for a, b in shapes):
                out.append(("model", "numpoly/denpoly: impl=%s / %s model=%s / %s" % (
                    json.dumps(pi_n["terms"])[:120], json.dumps(pi_d["terms"])[:120],
                    json.dumps(m["numpoly"])[:120], json.dumps(m["denpoly"])[:120])))
            if s is not None and not cross_equal(ni, di, terms_to_dict(s["num"]), terms_to_dict(s["den"]), tol):
                out.append(("spec", "%s numpoly/denpoly = %s / %s is not the %s of the parts %s / %s" % (
                    c["kind"], json.dumps(pi_n["terms"])[:100], json.dumps(pi_d["terms"])[:100],
                    "product" if c["kind"] == "cascade" else "sum", json.dumps(s["num"])[:100], json.dumps(s["den"])[:100])))
        d = _cmp_out(io["out"], m["out"], 0, io.get("amp", 1.0))
        if d:
            out.append(("model", "call: " + d))
        if s is not None and s["out"] is not None:
            d = _cmp_out(io["out"], s["out"], 0, io.get("amp", 1.0))
            if d:
                out.append(("spec", "%s output is not the %s of the parts' outputs: %s" % (
                    c["kind"], "composition" if c["kind"] == "cascade" else "sum", d)))
        return out
    return [("model", "unknown entry")]


def nontrivial(c, io):
    return "err" not in io


# ----------------------------------------------------------------------------
# histograms
# ----------------------------------------------------------------------------
def _subtrees(t):
    for s in t[1:]:
        if isinstance(s, list) and s and isinstance(s[0], str) and s[0] in _ALLOPS:
            yield s


def _ops(t, acc):
    acc.append(t[0])
    for s in _subtrees(t):
        _ops(s, acc)
    return acc


def _depth(t):
    return 1 + max([_depth(s) for s in _subtrees(t)] + [0])


def tally(eng, c, io):
    e = c["entry"]
    eng.count("entry", e)
    if e == "tree":
        t = c["tree"]
        eng.count("top_op", t[0])
        for o in set(_ops(t, [])):
            eng.count("op_used", o)
        eng.count("depth", _depth(t))
        for b in io.get("branches", []):
            eng.count("code_branch", b)
        if "err" in io:
            eng.count("impl_error", t[0] + ":" + io["err"])
            return
        eng.count("regime", "float (impl-injected, tol 1e-9)" if io["float"] or io["out"].get("float") else "exact")
        eng.count("result_order", min(max([k for k, _ in io["num"]] + [k for k, _ in io["den"]] + [0]), 16))
        eng.count("result_causal", str(io["causal"]))
        eng.count("call", io["out"].get("err", "samples:%d" % len(io["out"].get("ys", []))))
        eng.count("insertion_order", "sorted" if io["items_num"] == io["num"] and io["items_den"] == io["den"] else "unsorted")
    elif e == "laws":
        eng.count("regime", "float (impl-injected, tol 1e-9)" if io.get("float") else "exact")
        for k, v in io.get("laws", {}).items():
            eng.count("law_" + k, v)
    elif e == "eq":
        if "eq" in io:
            eng.count("eq_drawn", c.get("kind", "?"))
            eng.count("eq_outcome", "eq=%r ne=%r num_equal=%r den_equal=%r hash_equal=%r" % (
                io["eq"], io["ne"], io["num_equal"], io["den_equal"], io["hash_equal"]))
    elif e == "list":
        eng.count("list_kind", "%s of %d" % (c["kind"], len(c["fs"])))
        if "err" not in io:
            eng.count("list_polys", io["numpoly"].get("err", "polynomials") + (", shortcut" if io["shortcut"] else ""))
            eng.count("list_call", io["out"].get("err", "samples"))


# ----------------------------------------------------------------------------
# shrinking / neighbours / classification
# ----------------------------------------------------------------------------
def _shrink_tree(t):
    op = t[0]
    for s in _subtrees(t):
        yield s
    if op == "f":
        for idx in (1, 2):
            ps = t[idx]
            for i in range(len(ps)):
                if idx == 1 or len(ps) > 1:
                    yield t[:idx] + [ps[:i] + ps[i + 1:]] + t[idx + 1:]
            for i, (k, cf) in enumerate(ps):
                if cf != 1:
                    yield t[:idx] + [ps[:i] + [[k, 1]] + ps[i + 1:]] + t[idx + 1:]
            srt = sorted(ps)
            if srt != ps:
                yield t[:idx] + [srt] + t[idx + 1:]
    elif op == "fl":
        for idx in (1, 2):
            if len(t[idx]) > (0 if idx == 1 else 1):
                yield t[:idx] + [t[idx][:-1]] + t[idx + 1:]
    elif op == "pow" and abs(t[2]) > 1:
        yield ["pow", t[1], t[2] - (1 if t[2] > 0 else -1)]
    elif op in SCAL_L and t[2] not in (1, 2):
        yield [op, t[1], 2]
    elif op in SCAL_R and t[1] not in (1, 2):
        yield [op, 2, t[2]]
    for i in range(1, len(t)):
        s = t[i]
        if isinstance(s, list) and s and isinstance(s[0], str) and s[0] in _ALLOPS:
            for s2 in _shrink_tree(s):
                yield t[:i] + [s2] + t[i + 1:]


def _shrink_xs(c):
    xs = c.get("xs", [])
    if len(xs) > 1:
        yield dict(c, xs=xs[:-1])
        yield dict(c, xs=xs[:len(xs) // 2])
    for i, x in enumerate(xs):
        if x not in (0, 1):
            yield dict(c, xs=xs[:i] + [1] + xs[i + 1:])


def _sig_class(c):
    """the part of the observation that decides the signature of a comparison / list case; shrinking must not
    leave it (a smaller case of a *different* failure class could be mistaken for a recorded finding)"""
    try:
        io = impl(c)
    except Exception:
        return ("unmapped",)
    if "err" in io:
        return ("err", io["err"])
    if c["entry"] == "eq":
        return (io["eq"], io["ne"], io["num_equal"], io["den_equal"])
    if c["entry"] == "list":
        return (io["shortcut"], "err" in io["numpoly"], "err" in io["denpoly"], "err" in io["out"])
    return ()


def shrink(c):
    if c["entry"] in ("eq", "list"):
        base = _sig_class(c)
        for cand in _shrink(c):
            if _sig_class(cand) == base:
                yield cand
    else:
        for cand in _shrink(c):
            yield cand


def _shrink(c):
    e = c["entry"]
    if e == "tree":
        for i, t in enumerate(_shrink_tree(c["tree"])):
            if i > 150:
                break
            yield dict(c, tree=t)
        for x in _shrink_xs(c):
            yield x
    elif e in ("laws", "eq"):
        for name in ("f", "g", "h", "p", "q"):
            if name in c:
                for i, t in enumerate(_shrink_tree(c[name])):
                    if i > 40:
                        break
                    yield dict(c, **{name: t})
        if e == "laws":
            for name in ("n", "m", "k"):
                if c[name] > 0:
                    yield dict(c, **{name: c[name] - 1})
            if c["c"] != 2:
                yield dict(c, c=2)
            for x in _shrink_xs(c):
                yield x
    elif e == "list":
        fs = c["fs"]
        if len(fs) > 2:        # two equal-denominator parts is the known D12 shape: never shrink below two
            for i in range(len(fs)):
                yield dict(c, fs=fs[:i] + fs[i + 1:])
        for i, t in enumerate(fs):
            for j, t2 in enumerate(_shrink_tree(t)):
                if j > 30:
                    break
                yield dict(c, fs=fs[:i] + [t2] + fs[i + 1:])
        for x in _shrink_xs(c):
            yield x


def neighbours(c):
    e = c["entry"]
    if e == "tree":
        t = c["tree"]
        for s in _subtrees(t):
            yield dict(c, tree=s)
        subs = list(_subtrees(t))
        if len(subs) >= 2:
            for op in BIN + ("subst",):
                yield dict(c, tree=[op, subs[0], subs[1]])
        if subs:
            for n in (-2, -1, 0, 1, 2, 3):
                yield dict(c, tree=["pow", subs[0], n])
        yield dict(c, xs=[1, 0, 0, 0, 0, 0])
    elif e == "laws":
        yield dict(c, f=c["g"], g=c["f"])
        for n in range(0, 4):
            yield dict(c, n=n)
        yield dict(c, xs=[1, 0, 0, 0, 0, 0])
    elif e == "eq":
        yield dict(c, p=c["q"], q=c["p"])
    elif e == "list":
        fs = c["fs"]
        for i in range(len(fs)):
            yield dict(c, fs=fs[:i] + fs[i + 1:])
        yield dict(c, kind="cascade" if c["kind"] == "parallel" else "parallel")


def classify(c, io, drv):
    e = c["entry"]
    m = drv.get("model") or {}
    if e == "eq":
        if "eq" in io and io["eq"] == io["ne"]:
            if not io["eq"] and (io["num_equal"] != io["den_equal"]):
                return "eq:neither == nor !=:filters differ in exactly one of numerator/denominator"
            return "eq:== and != both %r:num_equal=%r den_equal=%r" % (io["eq"], io["num_equal"], io["den_equal"])
        return "eq:other"
    if e == "list":
        if "err" in io:
            return "list:%s:raises:%s" % (c["kind"], io["err"])
        s = drv.get("spec")
        bad_out = s is not None and s.get("out") is not None and _cmp_out(io["out"], s["out"], 0, io.get("amp", 1.0))
        if bad_out:
            return "list:%s:output" % c["kind"]
        if c["kind"] == "parallel" and io.get("shortcut") and "err" not in io["numpoly"] and "err" not in io["denpoly"]:
            # numpoly from the reduced sum, denpoly the plain product?
            from_prod = not isinstance(m.get("denpoly"), dict) and \
                terms_to_dict(io["denpoly"]["terms"]) == terms_to_dict(m.get("denpoly", []))
            if from_prod:
                return "list:parallel:numpoly/denpoly is not the sum:denpoly is the product of all denominators " \
                       "while numpoly comes from a sum that took the same-denominator shortcut"
        return "list:%s:polys" % c["kind"]
    if e == "tree":
        what = ("raises:" + io["err"]) if "err" in io else "value"
        return "tree:%s:%s" % (c["tree"][0], what)
    if e == "laws":
        bad = sorted(k for k, v in io.get("laws", {}).items() if v is not True and m.get(k, True) is not None)
        return "laws:" + ",".join(bad[:3]) if bad else "laws:" + io.get("err", "model-only")
    return "unclassified"
