"""C03 — a Stream behaves as a lazy sequence under any history of its methods.

A case is one whole history: a list of operations over a pool of objects (Streams and
StreamTeeHubs, addressed by pool index).  The real code runs the history in-process and
records the observation of every step; the driver runs the same history through the Lean
heap-of-iterators model and through the Lean immutable-list specification and returns both
observation lists.  Comparison is step by step and stops at the first difference (after
an exception the states may legitimately differ).
"""
import gc, itertools, signal, sys, warnings
import common
from common import err_kind

ID = "C03"
RULE = ("random histories (length 3..14 quick, ..40 thorough) over a pool of finite / periodic Streams, "
        "copies, tee outputs and thubs; counts chosen relative to the remaining length (None, negative, 0, "
        "within, equal, beyond, x.5 / other floats, inf, -inf, nan); every history ends by draining every live "
        "object; plus exhaustive short histories; a history is non-trivial when at least one step returned "
        "items; distinct = distinct JSON history")
TRUSTED = [
    "hand-written Lean model ALV/Model/C03.lean of lazy_stream.Stream/StreamTeeHub/thub and lazy_itertools.tee "
    "(modelled, not verified: itertools.tee/chain/cycle/repeat, map/filter builtins, list iterators, the generator "
    "protocol with the pre-PEP-479 reading of next() inside a generator)",
    "element functions of map/filter are drawn from a fixed table of 6 maps / 7 predicates on ints (same table in "
    "ALV/Driver/C03.lean); the theorems quantify over arbitrary functions",
]
ASSUMPTIONS = [
    "an object whose iterator was handed to another object (Stream(s), s.append(t), thub(s, n), tee(s, n)) is not "
    "used again (the two would share one iterator; outside the property's operation set)",
    "skip/limit counts are ints or finite floats; filter on an endless stream keeps at least one item per period; "
    "list()/take(inf) only on finite streams (Python would not terminate otherwise)",
    "endless (periodic) sources are covered by the tie and by the Lean spec (eventually periodic sequences); the "
    "refinement theorems are stated for finite sources",
]

MANIFEST = {
    "text": "Stream / StreamTeeHub / thub / tee as a heap of iterators (Lean model) refine the immutable list "
            "model for every operation and every history over finite sources (step_refines, run_refines, "
            "independent, thub_uses, take_short, peek_pure, count rounding); periodic sources: spec prefix lemma, "
            "bare periodic take, and the differential tie",
    "note": "defect D1 (take/peek/limit/skip past the end raise RuntimeError under PEP 479) is recorded as known "
            "with four signatures; proposed_fixes/D1-take-past-end.diff repairs it (check then prints no finding)",
    "technique": "Lean 4 refinement proof (hub invariant buf ++ den parent = original, fuel-indexed next) + "
                 "step-by-step differential histories impl vs model vs spec",
}

MAPS = [lambda x: x + 1, lambda x: 2 * x, lambda x: -x, lambda x: x * x, lambda x: x % 3, lambda x: x - 7]
PREDS = [lambda x: x % 2 == 0, lambda x: x > 0, lambda x: x != 0, lambda x: x % 3 != 1,
         lambda x: True, lambda x: False, lambda x: x < 5]
CAP = 400          # more items than any finite stream of a generated history can hold
INF = float("inf")


# ----------------------------------------------------------------------------------------
# counts
# ----------------------------------------------------------------------------------------
def cnt_py(c):
    t = c["t"]
    if t == "none":
        return None
    if t == "int":
        return int(c["v"])
    if t == "flt":
        return float(common.dec(c["v"]))
    return {"inf": INF, "ninf": -INF, "nan": float("nan")}[t]


def cnt_int(n):
    return {"t": "int", "v": n}


def cnt_flt(x):
    return {"t": "flt", "v": common.enc(float(x))}


# ----------------------------------------------------------------------------------------
# the real code
# ----------------------------------------------------------------------------------------
class _Timeout(Exception):
    pass


def _alarm(_sig, _frm):
    raise _Timeout()


def _capped(itr):
    out = list(itertools.islice(itr, CAP + 1))
    if len(out) > CAP:
        raise OverflowError("ENDLESS")
    return out


def _build(src, pool, Stream):
    """python argument tuple for Stream(*args) / append(*args); data for thub"""
    k = src["k"]
    if k == "list":
        return (list(src["xs"]),)
    if k == "cyc":
        return tuple(src["xs"])
    if k == "chain":
        return tuple(list(xs) for xs in src["xss"])
    if k == "const":
        return (src["v"],)
    if k == "obj":
        j = src["j"]
        if j >= len(pool) or pool[j] is None:
            raise LookupError("noobj")
        return (pool[j],)
    raise ValueError(k)


def _uses(hub):
    """number of unused copies of a StreamTeeHub (-1 when the private list is not there)"""
    it = getattr(hub, "_iters", None)
    return len(it) if isinstance(it, list) else -1


def _moved(src, pool, StreamTeeHub):
    """after a successful use of an `obj` source: a plain Stream is dead from now on"""
    if src["k"] == "obj":
        o = pool[src["j"]]
        if o is not None and not isinstance(o, StreamTeeHub):
            pool[src["j"]] = None


def impl(case):
    # a request that does not terminate (e.g. filter rejecting every item of an endless stream)
    # is cut by a CPU-time alarm; a first alarm is confirmed by a second run with a longer
    # budget, so that a stalled machine can never turn into a reported "hang"
    global _HANGS
    first, second = (3.0, 15.0) if _HANGS < 3 else ((1.0, 4.0) if _HANGS < 8 else (0.1, 0.4))  # real hangs stay affordable
    steps, timed_out = _run_history(case, first)
    if timed_out:
        steps, timed_out = _run_history(case, second)
        if timed_out:
            _HANGS += 1
    return {"steps": steps}


_HANGS = 0


def _run_history(case, budget):
    from audiolazy import Stream, StreamTeeHub, thub
    from audiolazy import lazy_itertools as lit
    pool, steps, timed_out = [], [], False
    old = signal.signal(signal.SIGVTALRM, _alarm)
    hook, sys.unraisablehook = sys.unraisablehook, lambda *_a: None   # StreamTeeHub.__del__ after a failed __init__
    gc_was = gc.isenabled()
    gc.disable()                      # a full collection inside the timed region could look like a hang
    signal.setitimer(signal.ITIMER_VIRTUAL, budget)
    try:
        with warnings.catch_warnings():
            warnings.simplefilter("ignore")
            for op in case["ops"]:
                try:
                    ob = _step(op, pool, Stream, StreamTeeHub, thub, lit)
                except _Timeout:
                    ob = {"err": "ENDLESS"}
                    timed_out = True
                if ob.get("err") == "ENDLESS":      # the request does not terminate: same as the
                    steps.append({"hang": True})    # model's / spec's "hang"; the history stops here
                    break
                steps.append(ob)
            signal.setitimer(signal.ITIMER_VIRTUAL, 0)
            for o in pool:                      # no MemoryLeakWarning noise from __del__
                if isinstance(o, StreamTeeHub) and isinstance(getattr(o, "_iters", None), list):
                    o._iters[:] = []
    except _Timeout:                  # alarm between two steps: let the confirmation run decide
        timed_out = True
        steps.append({"hang": True})
    finally:
        signal.setitimer(signal.ITIMER_VIRTUAL, 0)
        signal.signal(signal.SIGVTALRM, old)
        sys.unraisablehook = hook
        if gc_was:
            gc.enable()
    return steps, timed_out


def _step(op, pool, Stream, StreamTeeHub, thub, lit):
    o = op["op"]
    obj = None
    if "i" in op:
        i = op["i"]
        if i >= len(pool) or pool[i] is None:
            return {"err": "noobj"}
        obj = pool[i]
    ishub = isinstance(obj, StreamTeeHub)
    try:
        if o == "new":
            try:
                args = _build(op["src"], pool, Stream)
            except LookupError:
                return {"err": "noobj"}
            s = Stream(*args)
            _moved(op["src"], pool, StreamTeeHub)
            pool.append(s)
            return {"new": [len(pool) - 1]}
        if o in ("take", "peek"):
            n = cnt_py(op["n"])
            r = getattr(obj, o)(n, constructor=_capped) if n is not None else getattr(obj, o)()
            return {"x": r} if n is None else {"v": r}
        if o == "next":
            return {"x": next(iter(obj))}
        if o == "drain":
            return {"v": _capped(iter(obj))}
        if o in ("skip", "limit", "append", "map", "filter"):
            before = _uses(obj) if ishub else 0
            src = op.get("src")
            try:
                if o == "skip" or o == "limit":
                    r = getattr(obj, o)(cnt_py(op["n"]))
                elif o == "map":
                    r = obj.map(MAPS[op["f"]])
                elif o == "filter":
                    r = obj.filter(PREDS[op["p"]])
                else:
                    try:
                        args = _build(src, pool, Stream)
                    except LookupError:
                        # the model pops the use first (Stream(self)), then fails on the argument
                        if ishub:
                            try:
                                iter(obj)
                            except IndexError:
                                return {"err": "IndexError"}
                            pool.append(None)
                        return {"err": "noobj"}
                    r = obj.append(*args)
                    _moved(src, pool, StreamTeeHub)
            except Exception as e:
                after = _uses(obj) if ishub else 0
                if ishub and (after < before if before >= 0 else not isinstance(e, IndexError)):
                    pool.append(None)          # the popped use is lost
                raise
            if ishub:
                pool.append(r)
                return {"new": [len(pool) - 1]}
            return {"self": r is obj}
        if o == "copy":
            r = obj.copy()
            if r is None:                       # cannot happen: copy() without uses raises
                return {"err": "None"}
            pool.append(r)
            return {"new": [len(pool) - 1]}
        if o == "thub":
            src = op["src"]
            if src["k"] == "const":
                r = thub(src["v"], op["n"])
                return {"const": r} if r is src["v"] or r == src["v"] and type(r) is int else {"err": "not-the-object"}
            try:
                args = _build(src, pool, Stream)
            except LookupError:
                return {"err": "noobj"}
            data = args[0] if src["k"] in ("list", "obj") else Stream(*args)
            r = thub(data, op["n"])
            _moved(src, pool, StreamTeeHub)
            pool.append(r)
            return {"new": [len(pool) - 1]}
        if o == "tee":
            rs = lit.tee(obj, op["n"])
            if not ishub:
                pool[op["i"]] = None
            out = []
            for r in rs:
                pool.append(r)
                out.append(len(pool) - 1)
            return {"new": out}
        raise ValueError("unknown op " + o)
    except _Timeout:
        raise
    except OverflowError as e:
        return {"err": "ENDLESS" if "ENDLESS" in str(e) else "OverflowError"}
    except Exception as e:
        return {"err": err_kind(e)}


# ----------------------------------------------------------------------------------------
# generator-side simulator (chooses counts relative to the remaining length, avoids
# non-terminating requests, and attributes RuntimeErrors for `classify`).  NOT an oracle.
# ----------------------------------------------------------------------------------------
def _rint(x):        # lazy_misc.rint for x > 0
    import math
    d = math.floor(x)
    return d + 1 if 2 * (x - d) >= 1 else d


def take_count(n):
    if n is None:
        return "one"
    if n == INF:
        return "all"
    if isinstance(n, float):
        return _rint(n) if n > 0 else 0
    return max(n, 0)


def round_count(n):
    if isinstance(n, float) and (n != n or n in (INF, -INF)):
        return None
    return max(int(round(n)), 0)


class Sim:
    """objects: None | dict(kind 's'/'h', pre, per, uses, flags)"""

    def __init__(self):
        self.pool = []

    def live(self, kinds="sh"):
        return [i for i, o in enumerate(self.pool) if o is not None and o["kind"] in kinds]

    @staticmethod
    def unroll(o, n):
        return o["pre"] + o["per"] * n

    def remaining(self, i):
        o = self.pool[i]
        return None if o["per"] else len(o["pre"])

    def src(self, s):
        """returns (pre, per, flags) or None when it fails; applies the move"""
        k = s["k"]
        if k == "list":
            return list(s["xs"]), [], set()
        if k == "cyc":
            return [], list(s["xs"]), set()
        if k == "chain":
            return [x for xs in s["xss"] for x in xs], [], set()
        if k == "const":
            return [], [s["v"]], set()
        j = s["j"]
        if j >= len(self.pool) or self.pool[j] is None:
            return None
        o = self.pool[j]
        if o["kind"] == "s":
            self.pool[j] = None
        else:
            if o["uses"] == 0:
                return None
            o["uses"] -= 1
        return list(o["pre"]), list(o["per"]), set(o["flags"])

    def target(self, i):
        """(index of the result, object data) for in-place methods; None on failure"""
        o = self.pool[i]
        if o["kind"] == "s":
            return i, o
        if o["uses"] == 0:
            return None
        o["uses"] -= 1
        self.pool.append(None)
        return len(self.pool) - 1, dict(o, kind="s", flags=set(o["flags"]))

    def apply(self, op):
        """advance; returns a note dict (for classify)"""
        o = op["op"]
        note = {}
        if "i" in op and (op["i"] >= len(self.pool) or self.pool[op["i"]] is None):
            return {"noobj": True}
        obj = self.pool[op["i"]] if "i" in op else None
        if obj is not None:
            note["kind"] = obj["kind"]
            note["flags"] = sorted(obj["flags"])
        if o == "new":
            r = self.src(op["src"])
            if r is not None:
                self.pool.append({"kind": "s", "pre": r[0], "per": r[1], "uses": 0, "flags": r[2]})
        elif o in ("take", "peek", "next", "drain"):
            if obj["kind"] == "h":
                if o == "take" or obj["uses"] == 0:
                    return note
                if o in ("next", "drain"):
                    obj["uses"] -= 1
            n = None if o == "next" else (INF if o == "drain" else cnt_py(op["n"]))
            k = take_count(n)
            if k == "one":
                k = 1
            if k == "all":
                k = len(obj["pre"]) if not obj["per"] else 0
            avail = self.unroll(obj, k)
            note["past_end"] = (not obj["per"]) and len(avail) < k
            if o in ("take",) or (obj["kind"] == "s" and o in ("next", "drain")):
                obj["pre"] = avail[k:]
        elif o in ("skip", "limit", "append", "map", "filter"):
            t = self.target(op["i"])
            if t is None:
                return note
            k, d = t
            pre, per, flags = list(d["pre"]), list(d["per"]), set(d["flags"])
            if o in ("skip", "limit"):
                n = round_count(cnt_py(op["n"]))
                if n is None:
                    if obj["kind"] == "s":
                        return note
                    return note          # placeholder already appended
                un = pre + per * n
                if not per and n > len(pre):
                    flags.add(o + "-past-end")
                if o == "skip":
                    pre = un[n:]
                else:
                    pre, per = un[:n], []
            elif o == "map":
                f = MAPS[op["f"]]
                pre, per = [f(x) for x in pre], [f(x) for x in per]
            elif o == "filter":
                p = PREDS[op["p"]]
                pre, per = [x for x in pre if p(x)], [x for x in per if p(x)]
            else:
                r = self.src(op["src"])
                if r is None:
                    return note
                flags |= r[2]
                if not per:
                    pre, per = pre + r[0], r[1]
            self.pool[k] = {"kind": "s", "pre": pre, "per": per, "uses": 0, "flags": flags}
        elif o == "copy":
            if obj["kind"] == "h" and obj["uses"] == 0:
                return note
            self.pool.append({"kind": "s", "pre": list(obj["pre"]), "per": list(obj["per"]), "uses": 0,
                              "flags": set(obj["flags"])})
        elif o == "thub":
            if op["src"]["k"] == "const":
                return note
            r = self.src(op["src"])
            if r is not None:
                self.pool.append({"kind": "h", "pre": r[0], "per": r[1], "uses": op["n"], "flags": r[2]})
        elif o == "tee":
            r = self.src({"k": "obj", "j": op["i"]})
            if r is not None:
                for _ in range(op["n"]):
                    self.pool.append({"kind": "s", "pre": list(r[0]), "per": list(r[1]), "uses": 0,
                                      "flags": set(r[2])})
        return note


# ----------------------------------------------------------------------------------------
# generation
# ----------------------------------------------------------------------------------------
def _vals(rng, n):
    return [rng.randint(-4, 9) for _ in range(n)]


def _new_src(rng, sim, allow_obj=True):
    r = rng.random()
    if r < 0.50:
        return {"k": "list", "xs": _vals(rng, rng.choice([0, 1, 2, 3, 4, 5, 6, 8]))}
    if r < 0.68:
        return {"k": "cyc", "xs": _vals(rng, rng.randint(2, 4))}
    if r < 0.76:
        return {"k": "const", "v": rng.randint(-4, 9)}
    if r < 0.88 or not allow_obj or not sim.live():
        return {"k": "chain", "xss": [_vals(rng, rng.randint(0, 3)) for _ in range(rng.randint(2, 3))]}
    return {"k": "obj", "j": rng.choice(sim.live())}


def _count(rng, sim, i, wild, for_round=False):
    """a count for object i: category first, value relative to the remaining length"""
    rem = sim.remaining(i)
    L = rem if rem is not None else rng.randint(2, 9)
    cats = ["neg", "zero", "within", "within", "equal", "half", "float"]
    if not for_round:
        cats += ["none", "none", "ninf", "nan"]
        if rem is not None:
            cats += ["inf"]
    if wild or rem is None:
        cats += ["beyond", "beyond"]
    c = rng.choice(cats)
    if c == "none":
        return {"t": "none"}
    if c in ("inf", "ninf", "nan"):
        return {"t": c}
    if c == "neg":
        return cnt_int(-rng.randint(1, 3))
    if c == "zero":
        return cnt_int(0)
    if c == "within":
        return cnt_int(rng.randint(0, max(L - 1, 0)))
    if c == "equal":
        return cnt_int(L)
    if c == "beyond":
        return cnt_int(L + rng.randint(1, 3))
    if c == "half":          # x.5 ties: rint rounds away from zero, round() to even
        k = rng.randint(0, max(L - 1, 0)) if not (wild or rem is None) else rng.randint(0, L + 1)
        x = k + 0.5
        hi = (take_count(x) if not for_round else round_count(x))
        if not (wild or rem is None) and hi > L:
            x = max(k - 1, 0) + 0.5
            if (take_count(x) if not for_round else round_count(x)) > L:
                return cnt_int(0)
        return cnt_flt(x)
    x = rng.randint(0, max(L - 1, 0)) + rng.choice([0.25, 0.4, 0.0, 0.75, 0.6, 0.49])
    if not (wild or rem is None) and (take_count(x) if not for_round else round_count(x)) > L:
        x = float(L)
    if rng.random() < 0.15:
        x = -x
    return cnt_flt(x)


def _gen_op(rng, sim, wild):
    streams, hubs = sim.live("s"), sim.live("h")
    if not streams and not hubs or rng.random() < 0.10:
        return {"op": "new", "src": _new_src(rng, sim)}
    r = rng.random()
    pick_hub = hubs and (not streams or rng.random() < 0.25)
    i = rng.choice(hubs if pick_hub else streams)
    obj = sim.pool[i]
    endless = bool(obj["per"])
    ops = ["take"] * 5 + ["peek"] * 4 + ["skip"] * 3 + ["limit"] * 3 + ["append"] * 2 + ["map"] * 2 + \
          ["filter"] * 2 + ["copy"] * 4 + ["next"] * 2 + ["drain"] + ["thub"] * 2 + ["tee"]
    o = rng.choice(ops)
    if o in ("take", "peek"):
        return {"op": o, "i": i, "n": _count(rng, sim, i, wild)}
    if o in ("skip", "limit"):
        return {"op": o, "i": i, "n": _count(rng, sim, i, wild, for_round=True)}
    if o == "append":
        src = _new_src(rng, sim)
        if src["k"] == "obj" and src["j"] == i:
            src = {"k": "list", "xs": _vals(rng, 2)}
        return {"op": o, "i": i, "src": src}
    if o == "map":
        return {"op": o, "i": i, "f": rng.randrange(len(MAPS))}
    if o == "filter":
        p = rng.randrange(len(PREDS))
        if endless and not any(PREDS[p](x) for x in obj["per"]):
            p = 4
        return {"op": o, "i": i, "p": p}
    if o == "drain" and endless:
        return {"op": "take", "i": i, "n": cnt_int(rng.randint(3, 9))}
    if o == "thub":
        if r < 0.08:
            return {"op": "thub", "src": {"k": "const", "v": rng.randint(-4, 9)}, "n": rng.randint(0, 3)}
        src = {"k": "obj", "j": i} if r < 0.7 else _new_src(rng, sim, allow_obj=False)
        if src["k"] == "const":
            src = {"k": "cyc", "xs": [src["v"], src["v"] + 1]}
        return {"op": "thub", "src": src, "n": rng.randint(0, 3)}
    if o == "tee":
        return {"op": "tee", "i": i, "n": rng.randint(1, 3)}
    return {"op": o, "i": i}


def _finish(sim, ops):
    """drain every live object (a bounded take for endless ones), every use of every hub"""
    for i in list(range(len(sim.pool))):
        o = sim.pool[i]
        if o is None:
            continue
        if o["kind"] == "s":
            fin = {"op": "drain", "i": i} if not o["per"] else {"op": "take", "i": i, "n": cnt_int(7)}
            ops.append(fin)
            sim.apply(fin)
        else:
            for _ in range(o["uses"] + 1):
                fin = {"op": "drain", "i": i} if not o["per"] else {"op": "tee", "i": i, "n": 1}
                ops.append(fin)
                sim.apply(fin)
                if o["per"] and sim.pool[-1] is not None and fin["op"] == "tee" and len(sim.pool) - 1 != i:
                    t = {"op": "take", "i": len(sim.pool) - 1, "n": cnt_int(5)}
                    ops.append(t)
                    sim.apply(t)


def _history(rng, length, wild):
    sim, ops = Sim(), []
    for _ in range(length):
        op = _gen_op(rng, sim, wild)
        ops.append(op)
        sim.apply(op)
    _finish(sim, ops)
    return {"entry": "history", "ops": ops}


def _exhaustive(depth):
    """all op sequences of the given depth over a small alphabet on Stream([1,2,3]) + one copy"""
    alpha = [
        {"op": "take", "i": 0, "n": cnt_int(2)}, {"op": "take", "i": 0, "n": {"t": "none"}},
        {"op": "peek", "i": 0, "n": cnt_int(2)}, {"op": "skip", "i": 0, "n": cnt_int(1)},
        {"op": "limit", "i": 0, "n": cnt_int(2)}, {"op": "append", "i": 0, "src": {"k": "list", "xs": [7]}},
        {"op": "map", "i": 0, "f": 0}, {"op": "filter", "i": 0, "p": 0}, {"op": "copy", "i": 0},
        {"op": "take", "i": 1, "n": cnt_int(1)}, {"op": "thub", "src": {"k": "obj", "j": 1}, "n": 2},
    ]
    base = [{"op": "new", "src": {"k": "list", "xs": [1, 2, 3, 4]}}, {"op": "copy", "i": 0}]
    for combo in itertools.product(range(len(alpha)), repeat=depth):
        sim, ops = Sim(), []
        for op in base + [alpha[k] for k in combo]:
            ops.append(op)
            sim.apply(op)
        _finish(sim, ops)
        yield {"entry": "history", "ops": ops}


def generate(rng, tier, scale=1):
    cases = []
    if tier == "quick":
        nrand, maxlen, depth = 5000 * scale, 14, 3
    else:
        nrand, maxlen, depth = 50000 * scale, 40, 4
    if scale == 1:
        cases.extend(_exhaustive(depth))
    for k in range(nrand):
        wild = (k % 5) >= 3
        cases.append(_history(rng, rng.randint(3, maxlen), wild))
    return cases


# ----------------------------------------------------------------------------------------
# comparison
# ----------------------------------------------------------------------------------------
def _first_diff(a, b):
    for k in range(max(len(a), len(b))):
        x = a[k] if k < len(a) else None
        y = b[k] if k < len(b) else None
        if x != y:
            return k, x, y
    return None


def compare(case, io, drv):
    out = []
    steps = io.get("steps")
    if steps is None:
        return [("model", "impl harness failed: %r" % (io,)), ("spec", "impl harness failed")]
    # a request on which the real code and the model both do not terminate (filter that rejects a
    # whole period of an endless stream, list() of an endless stream) is outside the property:
    # the history is compared up to that step only
    cut = next((k for k, (a, b) in enumerate(zip(steps, drv["model"])) if a == b == {"hang": True}), None)
    for kind in ("model", "spec"):
        a, b = (steps, drv[kind]) if cut is None else (steps[:cut], drv[kind][:cut])
        d = _first_diff(a, b)
        if d is not None:
            k, x, y = d
            op = case["ops"][k] if k < len(case["ops"]) else None
            out.append((kind, "step %d %s: impl=%s %s=%s" % (k, op, x, kind, y)))
    return out


def nontrivial(case, io):
    return any(("v" in s and s["v"]) or "x" in s for s in io.get("steps", []))


def _summ(x):
    if x is None:
        return "nothing"
    if "err" in x:
        return "err=" + x["err"]
    if "hang" in x:
        return "hang"
    return sorted(x)[0] if x else "nothing"


def classify(case, io, drv):
    steps = io.get("steps") or []
    cut = next((k for k, (a, b) in enumerate(zip(steps, drv["model"])) if a == b == {"hang": True}), None)
    if cut is not None:
        steps, drv = steps[:cut], {"model": drv["model"][:cut], "spec": drv["spec"][:cut]}
    d = _first_diff(steps, drv["spec"]) or _first_diff(steps, drv["model"])
    if d is None:
        return "no-difference"
    k, x, y = d
    ops = case["ops"]
    sim, note = Sim(), {}
    for op in ops[:k + 1]:
        note = sim.apply(op)
    o = ops[k]["op"] if k < len(ops) else "?"
    if x is not None and x.get("err") == "RuntimeError" and note:
        flags = note.get("flags") or []
        if flags and o in ("take", "peek", "next", "drain"):
            return "consume-after-%s:RuntimeError" % flags[0]
        if note.get("past_end") and o in ("take", "peek"):
            return "%s:past-end:RuntimeError" % o
    return "%s:%s:impl:%s:expected:%s" % (o, note.get("kind", "-"), _summ(x), _summ(y))


def tally(eng, case, io):
    ops = case["ops"]
    steps = io.get("steps", [])
    eng.count("history_len", min(len(ops) // 5 * 5, 60))
    sim = Sim()
    for k, op in enumerate(ops):
        note = sim.apply(op)
        ob = steps[k] if k < len(steps) else None
        kind = note.get("kind", "-")
        eng.count("op", op["op"] + ("@hub" if kind == "h" else ""))
        if "n" in op and isinstance(op["n"], dict):
            t = op["n"]["t"]
            if t == "int":
                v = op["n"]["v"]
                t = "int<0" if v < 0 else ("int=0" if v == 0 else "int>0")
            elif t == "flt":
                x = cnt_py(op["n"])
                t = "flt.5" if x % 1 == 0.5 else ("flt<=0" if x <= 0 else "flt")
            eng.count("count_kind", op["op"] + ":" + t)
            if note.get("past_end"):
                eng.count("past_end", op["op"])
        if ob is not None:
            eng.count("observation", "err:" + ob["err"] if "err" in ob else sorted(ob)[0])
        if op.get("src"):
            eng.count("source", op["op"] + ":" + op["src"]["k"])
    eng.count("pool_size", min(len(sim.pool), 12))
    eng.count("endless_objects", min(sum(1 for o in sim.pool if o and o["per"]), 4))
    if any(st.get("err") == "RuntimeError" for st in steps):
        eng.count("impl_runtimeerror_history", True)


# ----------------------------------------------------------------------------------------
# shrinking / neighbours
# ----------------------------------------------------------------------------------------
def _renumber(ops, removed_new):
    return ops


def shrink(case):
    ops = case["ops"]
    n = len(ops)
    # drop a suffix, then single steps (indices of later objects may shift: such candidates
    # simply stop reproducing and are discarded by the engine)
    for k in range(n - 1, 0, -1):
        yield dict(case, ops=ops[:k])
    for k in range(n):
        yield dict(case, ops=ops[:k] + ops[k + 1:])
    for k, op in enumerate(ops):
        src = op.get("src")
        if src and src["k"] in ("list", "cyc") and len(src["xs"]) > (1 if src["k"] == "list" else 2):
            yield dict(case, ops=ops[:k] + [dict(op, src=dict(src, xs=src["xs"][:-1]))] + ops[k + 1:])
        if src and src["k"] == "chain":
            yield dict(case, ops=ops[:k] + [dict(op, src={"k": "list", "xs": [x for xs in src["xss"] for x in xs]})] + ops[k + 1:])
        c = op.get("n")
        if isinstance(c, dict) and c["t"] == "int" and c["v"] > 0:
            yield dict(case, ops=ops[:k] + [dict(op, n=cnt_int(c["v"] - 1))] + ops[k + 1:])


def neighbours(case):
    ops = case["ops"]
    for k, op in enumerate(ops):
        c = op.get("n")
        if isinstance(c, dict) and c["t"] == "int":
            for d in (-1, 1):
                yield dict(case, ops=ops[:k] + [dict(op, n=cnt_int(c["v"] + d))] + ops[k + 1:])
        if isinstance(c, dict) and c["t"] == "flt":
            x = cnt_py(c)
            for y in (int(x), int(x) + 1, x + 1):
                yield dict(case, ops=ops[:k] + [dict(op, n=cnt_flt(y) if isinstance(y, float) else cnt_int(y))] + ops[k + 1:])
    for k in range(len(ops)):
        yield dict(case, ops=ops[:k] + ops[k + 1:])
