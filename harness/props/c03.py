"""C03 — a Stream behaves as a lazy sequence under any history of its methods.

A case is one whole history: a list of operations over a pool of objects (Streams and
StreamTeeHubs, addressed by pool index).  The real code runs the history in-process and
records the observation of every step; the driver runs the same history through the Lean
heap-of-iterators model and through the Lean immutable-list specification and returns both
observation lists.  Comparison is step by step and stops at the first difference (after
an exception the states may legitimately differ).

Entry `history`: method calls only.  Entry `hist`: the caller's side as well — every container a
call hands out and every list the caller builds is an object of the caller (addressed by its
order of creation): `lit` builds one, `mut` changes one in place, a source {"k": "ref", "j": j}
passes one to Stream() / append() / thub().  The Lean side keeps these containers in a second heap
(values); the Python side keeps the objects themselves and asserts after every step that a
returned container is a new object of the requested type ("alias", "ctype"), that no container of
the caller changed behind his back ("dirty": those addressed by index, "dirtyarg": literal
arguments), and at the end that every container holds what the list model says.  Operand flavours
(c03_flavours.py): iterable flavour of a source ("as"), constructor of take / peek ("ctor"), way of
draining ("via"), flavour of the element function ("fl"), tagged item representations ("tagged"),
Stream subclass instances with their own __iter__ ("raw", "altstream", "restream"), sources of
several arguments with an existing object among them ("mixed").
"""
import gc, itertools, json, operator, resource, signal, sys, warnings
import common
from common import err_kind
from props import c03_flavours as FL
from props import c03_calls as CL
from props import c03_raise as RX
from props import c03_tr as TR

ID = "C03"
RULE = ("translator: lean/ALV/Gen/C03Src.lean regenerated from lazy_stream.py before the build (a body outside the accepted "
        "subset or a body whose interpretation is no longer the model = broken obligation), translator self test on edited "
        "source texts; then: "
        "random histories (length 3..14 quick, ..40 thorough) over a pool of finite / periodic Streams, "
        "copies, tee outputs and thubs; counts chosen relative to the remaining length (None, negative, 0, "
        "within, equal, beyond, x.5 / other floats, inf, -inf, nan); every history ends by draining every live "
        "object; plus exhaustive short histories.  Entry `hist`: the same histories with the caller's side — "
        "every container handed out by take / peek / list() (default constructor, constructor=list, tuple, a "
        "capped one) and every list he builds is kept, mutated in place (clear, reverse, pop, extend, overwrite) "
        "and passed on to Stream() / append() / thub() (the same object several times, as itself or as tuple, "
        "generator, iterator, deque, Iterable class, Stream subclass whose __iter__ is not _data); freshness of "
        "returned containers, unchanged arguments and the final contents of every caller container are asserted; "
        "items plain ints or tagged representations (int / float / Fraction / bool twins of one value, unhashable, "
        "None); element functions as lambda / def / bound method / callable / partial; exhaustive "
        "(call, count, constructor, mutation, following use) families; long runs (streams of 1000..9000 items with "
        "counts around powers of two and beyond 4096, histories of 300..2000 steps, peek/take/append loops of "
        "60..2000 rounds).  Entry `calls`: the same histories with every operation written as the caller writes it "
        "(count as int / bool / float / -0.0 / Fraction / None / omitted / a non-number / beyond sys.maxsize / beyond the "
        "float range, positional or n=; every tie k + 0.5 for k = -3..6 as float and as Fraction through take / peek / skip / "
        "limit; Stream(...) / append(...) with no, one, several arguments, iterables, scalars, both, an existing object among "
        "them; sources built on itertools objects: chain, islice, finite repeat(v, k), count, endless repeat / cycle, the "
        "lazy_itertools Streams, map, range, a Stream subclass, ControlStream; thub / tee with n = 0, 1, many, negative, bool, "
        "float, omitted, on Streams, hubs, scalars) and refused / failing calls in the middle of the history, which then goes "
        "on.  Entry `xhist`: histories over sources and element functions that raise at some items (5 maps, 3 predicates, 7 "
        "elementwise attribute / call forms), read on after every exception, with and without copies / peek.  A history is "
        "non-trivial when at least one step returned items; distinct = distinct JSON")
TRUSTED = [
    "translator harness/props/c03_tr.py (ast of audiolazy/lazy_stream.py -> lean/ALV/Gen/C03Src.lean, rewritten on every run): "
    "the bodies of Stream.take / copy / peek / skip / limit / append / map / filter and of StreamTeeHub.take / copy / __iter__ / "
    "limit / skip / append / map / filter / __init__, of Stream.__init__, of thub and of lazy_itertools.tee are no longer hand-modelled: src_step_is_model proves that the model's step function is "
    "the interpretation (ALV.C03.Src.stepP, lean/ALV/Model/C03Src.lean) of the regenerated programs.  Trusted there: (1) the "
    "Python subset the translator accepts is read as Python reads it — statements run in order, `if c: return` / `if c: n = e` "
    "with no else, `a and b` short-circuits, a conditional expression evaluates one branch, `a, b = it.tee(x)` binds two "
    "locals, assignment to self._data (hub copy: self._iters[0]) rebinds the one data slot; anything outside the subset is a "
    "TranslationError, never skipped; (2) the vocabulary mapping of the interpreter: isinf / `>` / isinstance(., float) / "
    "round (half to even; OverflowError, ValueError, TypeError for inf, nan, None) / int / max over the count domain Cnt, "
    "lazy_misc.rint on positive floats = rintPos (rint itself is not translated), it.islice = limiter (count must be an int, "
    "checked at the call), it.chain / xmap / xfilter = chain / map / filter terms, it.tee = teeOf, next(self._data) / "
    "constructor(self._data) / constructor(it.islice(self._data, k)) = the three take modes, the nested generator of skip "
    "is recognised as a fixed template (xrange(count) loop of `try: next(p) except StopIteration: return`, then "
    "`for v in p: yield v`) and mapped to the skipper term with a lazily evaluated count, `Stream(self).m(args)` of a hub "
    "override = the model's `target`, in StreamTeeHub.__init__ `super().__init__(data)` = mkSrc (the hand-modelled "
    "Stream.__init__ on one argument), `super().__iter__()` = the data slot, `list(it.tee(v, n))` = n copies of the output of "
    "teeOf, in thub `isinstance(data, Iterable)` is false exactly for Src.const, in lazy_itertools.tee "
    "`isinstance(data, K)` holds for an object of the pool exactly when Stream is among K and `tuple(Stream(cp) for cp in "
    "it.tee(data, n))` = mkSrc on the object, teeOf, n new Streams (the else arm on a non-iterable, n times the same object, and the default n=2 are "
    "the call layer's elabCall .tee: src_tee_call_is_model; a non-iterable is an instance of none of Stream / Iterator / Iterable), Stream.__init__ is read over the call layer's argument lists (CArg: literal "
    "list, non-iterable, existing object, endless iterable; src_init_is_model: its interpretation is elabArgs) and its data "
    "expressions are the constructors of Src whose iterator terms mkSrc gives: iter(list) = .src, iter(object) = the object's "
    "iterator / one use of a hub, it.repeat(v) = .cyc [v], it.cycle(dargs) = .cyc, it.chain(*[iter(a) ...]) = chainSrc / the "
    ".mixed chain with at most one existing object (more: unsupported); (3) the object plumbing around the bodies (pool, target, rebind, mkSrc) and the "
    "operations new / next / drain stay hand-written on both sides of src_step_is_model.  The translator is "
    "cross-checked by its self test (33 edited source texts must translate differently or not at all, 6 harmless rewrites "
    "identically, the unchanged text reproduces the committed file) and, as before, by the differential histories",
    "hand-written Lean model ALV/Model/C03.lean of lazy_stream.Stream/StreamTeeHub/thub and lazy_itertools.tee "
    "(modelled, not verified: itertools.tee/chain/cycle/repeat, map/filter builtins, list iterators, the generator "
    "protocol with the pre-PEP-479 reading of next() inside a generator)",
    "element functions of map/filter are drawn from a fixed table of 6 maps / 7 predicates on ints (same table in "
    "ALV/Driver/C03.lean); the theorems quantify over arbitrary functions",
    "the Lean model works with values: that a returned container is a new Python object, that an argument list is "
    "the same object with the same items afterwards (identity facts) is asserted by the harness on every step "
    "(alias / dirty / dirtyarg observations), not modelled; independence of a step from the calls on other "
    "objects holds in the list model by construction (specStep touches one pool entry)",
    "the call layer (ALV/Model/C03Call.lean, elabCall) is a hand-written model of the argument handling of Stream.__init__, "
    "take, skip, limit, append, thub, StreamTeeHub.__init__ and lazy_itertools.tee, including what CPython's isinf / round / "
    "itertools.islice / itertools.tee accept (sys.maxsize = 2**63 - 1, float range 2**1024); a call that fails after "
    "Stream(self) was built is identified with the failing limit of the history model (same exception, same lost use of a hub); "
    "peek with a refused count is modelled as touching nothing (the real code has made a tee first: not observable)",
    "raising elements (ALV/Model/C03X.lean): which iterator types go on after an exception (map, filter, chain, tee) and "
    "which are finished by it (islice, generators), and that tee does not store an exception, are modelled from CPython's "
    "behaviour, not verified; with copies the heap model AND the specification with copies (ALV/Spec/C03XC.lean: event lists "
    "wherever nothing is shared, shared sequences of items read through views, an exception delivered to one view and "
    "gone; raise_history_with_copies, raise_shared_once) are compared with the code on the whole history; the plain "
    "event-list specification up to the first copy / peek",
    "StreamTeeHub.__del__ (MemoryLeakWarning with the number of unused copies) is an object-lifetime effect outside the "
    "Lean model: checked behaviourally by extra_checks for n = 0..3 and every number of uses taken",
    "tagged items: harness/props/c03_flavours.py maps a model item (value, tag) to the Python object that stands "
    "for it and back (rep / unrep); the model only moves items around and applies the element functions to the value",
]
ASSUMPTIONS = [
    "an object whose iterator was handed to another object (Stream(s), s.append(t), thub(s, n), tee(s, n)) is not "
    "used again (the two would share one iterator; outside the property's operation set)",
    "skip/limit counts are ints or finite floats; filter on an endless stream keeps at least one item per period; "
    "list()/take(inf) only on finite streams (Python would not terminate otherwise)",
    "endless (periodic) sources: the refinement is proved in both directions.  From the model's side "
    "(periodic_step_refines, periodic_refines, hist_refines_periodic): whenever the model's step / run returns, for "
    "whatever fuel, its observations are the list model's.  From the list model's side (periodic_total, hist_total): "
    "on the histories on which Python itself returns — the list model never answers 'never returns' (list() / "
    "take(inf) of an endless stream) and no filter is applied to an endless sequence whose whole period it rejects; "
    "the predicate SpecLive, decidable by specLiveB — enough fuel exists and the runs are equal.  Outside SpecLive "
    "nothing is claimed about termination (the real code hangs there; such histories are not generated)",
    "a list that the caller has passed to Stream() / append() / thub() is not mutated by him afterwards (it may be "
    "passed again, any number of times).  The list model takes the contents at the call (hist_ref_snapshot); the "
    "real code reads a list argument lazily through a list iterator, and whether a later mutation reaches the "
    "stream is not fixed by the property — such histories are cut at the mutation (compare: _lent_cut), so an "
    "eager copy of the argument and a lazy read are both accepted.  What is fixed and checked: the streams never "
    "change the list, every call sees the whole list, containers handed out are the caller's to change",
    "element functions are deterministic (a closure mutated after map/filter, a function that reads another stream are "
    "outside the list model); element functions and sources that raise are covered by the entry `xhist` on int items, "
    "finite sources, Streams only (no StreamTeeHub)",
    "calls with a refused count (Fraction / non-number / beyond sys.maxsize to take / peek) are generated on live plain "
    "Streams only (on a StreamTeeHub `take` raises AttributeError whatever the argument); counts that are accepted and "
    "astronomically large (take(sys.maxsize), skip(10**400)) are not generated: the executable list specification unrolls n "
    "periods; skip with a count that int(round(.)) refuses raises lazily inside the generator: generated and modelled in "
    "the raising model only (entry xhist, op skipc: inf / -inf / nan / None, skip_refused_lazy); in the entries history / "
    "hist / calls it is not generated (the model without exceptions answers 'unsupported')",
    "a Stream subclass overriding __iter__ is covered as an argument (Stream(x), append(x), thub(x, n), tee(x, n), "
    "list(x), next(iter(x))); take / peek / copy / skip / ... called on such an instance read _data by design",
]

MANIFEST = {
    "text": "Stream / StreamTeeHub / thub / tee as a heap of iterators (Lean model) refine the immutable list "
            "model for every operation and every history over finite sources (step_refines, run_refines, "
            "independent, thub_uses, take_short, peek_pure, count rounding), also when the caller keeps, mutates "
            "and passes on the containers he gets and gives (hist_refines, hist_results_owned, hist_lists_frame, "
            "hist_mut_state, hist_ref_snapshot); over finite and periodic (endless) sources alike, whenever the "
            "model returns its observations are the list model's, for every operation and every history "
            "(periodic_step_refines, periodic_take_refines, periodic_refines, periodic_refines_prefix, "
            "hist_refines_periodic; seq_eqv_sound), and on every history on which Python returns (SpecLive: no "
            "list()/take(inf) of an endless sequence, no filter rejecting a whole period) enough fuel exists "
            "(periodic_total, periodic_take_total, hist_total); histories of calls as the caller writes them — spellings of "
            "counts, omitted arguments, argument lists, refused calls — refine the list model too (call_refines, "
            "call_refines_periodic; call_defaults, count_bool, count_fraction, count_ties, stream_args, noniter_any_n), a call "
            "or operation that raises leaves every Stream as it was (failed_call_no_trace, failed_op_no_trace, "
            "refused_call_state); with element functions and sources that raise in the middle of a stream the model refines "
            "an event-list model (raise_next, raise_take, raise_history without copies; raise_free_is_list_model; "
            "raise_tee_once) and, with copies / peek, a specification of event lists plus shared sequences "
            "(raise_history_with_copies, raise_step_with_copies, raise_copies_conservative, raise_shared_once: an exception "
            "of a shared sequence is delivered once, items to every copy); skip_refused_lazy, skip_refused_kinds; the step "
            "function all of this is about is the interpretation of the method bodies as regenerated from the source on every "
            "run (src_step_is_model; per method src_take_is_model, src_take_mode_is_model, src_copy_is_model, src_peek_is_model, "
            "src_skip_is_model, src_limit_is_model, src_append_is_model, src_map_is_model, src_filter_is_model, "
            "src_hub_copy_is_model, src_hub_methods_are_model, src_hub_init_is_model, src_thub_is_model, src_tee_is_model, src_tee_call_is_model, src_init_is_model; src_signatures_are_model)",
    "note": "defect D1 (take/peek/limit/skip past the end raise RuntimeError under PEP 479) is recorded as known "
            "with four signatures; proposed_fixes/D1-take-past-end.diff repairs it (check then prints no finding)",
    "technique": "translator harness/props/c03_tr.py: the bodies of 18 Stream / StreamTeeHub methods (Stream.__init__ included), of thub and of lazy_itertools.tee are read from "
                 "audiolazy/lazy_stream.py / lazy_itertools.py with ast on every run and emitted as programs of a deep embedding "
                 "(lean/ALV/Gen/C03Src.lean); the model's step function is proved equal to their interpretation "
                 "(src_step_is_model), so the refinement theorems are re-checked against what the source says now; + "
                 "Lean 4 refinement proof (hub invariant buf ++ den parent = original, fuel-indexed next; caller "
                 "containers as a second heap of values; for periodic sources the denotation is an eventually "
                 "periodic sequence up to re-folding of the period: soundness by induction on the fuel, termination by "
                 "induction on hub depth / term size / distance to the next item that passes a filter) + step-by-step differential histories impl vs model vs "
                 "spec with identity assertions on caller-owned containers",
}

MAPS = [lambda x: x + 1, lambda x: 2 * x, lambda x: -x, lambda x: x * x, lambda x: x % 3, lambda x: x - 7]
PREDS = [lambda x: x % 2 == 0, lambda x: x > 0, lambda x: x != 0, lambda x: x % 3 != 1,
         lambda x: True, lambda x: False, lambda x: x < 5]
CAP = 400          # more items than any finite stream of a generated history can hold
INF = float("inf")


# ----------------------------------------------------------------------------------------
# counts
# ----------------------------------------------------------------------------------------
def cnt_py(c):
    t = c["t"]
    if t == "none":
        return None
    if t == "int":
        return int(c["v"])
    if t == "flt":
        return float(common.dec(c["v"]))
    return {"inf": INF, "ninf": -INF, "nan": float("nan")}[t]


def cnt_int(n):
    return {"t": "int", "v": n}


def cnt_flt(x):
    return {"t": "flt", "v": common.enc(float(x))}


# ----------------------------------------------------------------------------------------
# the real code
# ----------------------------------------------------------------------------------------
class _Timeout(Exception):
    pass


def _alarm(_sig, _frm):
    raise _Timeout()


def _capped(itr):
    out = list(itertools.islice(itr, CAP + 1))
    if len(out) > CAP:
        raise OverflowError("ENDLESS")
    return out


class _NoList(Exception):
    pass


def _uses(hub):
    """number of unused copies of a StreamTeeHub (-1 when the private list is not there)"""
    it = getattr(hub, "_iters", None)
    return len(it) if isinstance(it, list) else -1


class Runner(object):
    """runs one history on the real code.  `pool`: the Streams / StreamTeeHubs by index;
    `objs`: the containers owned by the caller (results of take / peek / list(), lists he built),
    `want`: what each of them must hold (the very objects, in order) as long as the caller does
    not touch it."""

    def __init__(self, case):
        from audiolazy import Stream, StreamTeeHub, thub
        from audiolazy import lazy_itertools as lit
        self.Stream, self.Hub, self.thub, self.lit = Stream, StreamTeeHub, thub, lit
        self.hist = case.get("entry") in ("hist", "calls")
        self.tagged = bool(case.get("tagged"))
        self.cap = int(case.get("cap", CAP))
        self.pool, self.objs, self.want, self.given = [], [], [], []
        self.tick = 0
        self.arg_objs, self.arg_want = [], []

    # --- items ---------------------------------------------------------------------------
    def item_in(self, j):
        return FL.rep(j[0], j[1]) if self.tagged else j

    def item_out(self, x):
        if self.tagged:
            return FL.unrep(x)
        if type(x) is not int:
            raise FL.BadItem(repr(x)[:60])
        return x

    def capped(self, itr):
        out = list(itertools.islice(itr, self.cap + 1))
        if len(out) > self.cap:
            raise OverflowError("ENDLESS")
        return out

    def fn(self, table, op, key, pred=False):
        base = table[op[key]]
        if self.tagged:
            base = FL.tagged_pred(base) if pred else FL.tagged_map(base)
        return FL.fn_of(base, op.get("fl"))

    # --- arguments -----------------------------------------------------------------------
    def build(self, src):
        """python argument tuple for Stream(*args) / append(*args); data for thub"""
        k = src["k"]
        fl = src.get("as")
        if k == "list":
            return (FL.iterable_of(self.literal(src["xs"]), fl, self.Stream),)
        if k == "cyc":
            return tuple(self.item_in(x) for x in src["xs"])
        if k == "chain":
            return tuple(FL.iterable_of(self.literal(xs), fl, self.Stream) for xs in src["xss"])
        if k == "const":
            return (self.item_in(src["v"]),)
        if k == "obj":
            j = src["j"]
            if j >= len(self.pool) or self.pool[j] is None:
                raise LookupError("noobj")
            return (self.pool[j],)
        if k == "mixed":                                  # several iterables, one of them a Stream / thub
            j = src["j"]
            if j >= len(self.pool) or self.pool[j] is None:
                raise LookupError("noobj")
            return (FL.iterable_of(self.literal(src["pre"]), fl, self.Stream), self.pool[j],
                    FL.iterable_of(self.literal(src["post"]), fl, self.Stream))
        if k == "ref":
            j = src["j"]
            if j >= len(self.objs):
                raise _NoList()
            arg = FL.iterable_of(self.objs[j], fl, self.Stream)
            self.given.append(arg)
            return (arg,)
        raise ValueError(k)

    def literal(self, xs):
        """a list written as an argument of a call: the caller keeps it too (it must stay what it is)"""
        base = [self.item_in(x) for x in xs]
        if self.hist:
            self.arg_objs.append(base)
            self.arg_want.append(list(base))
        return base

    def moved(self, src):
        """after a successful use of an `obj` source: a plain Stream is dead from now on"""
        if src["k"] in ("obj", "mixed"):
            o = self.pool[src["j"]]
            if o is not None and not isinstance(o, self.Hub):
                self.pool[src["j"]] = None

    # --- results -------------------------------------------------------------------------
    def container(self, r, expect):
        """observation of a returned container; in a `hist` history it now belongs to the caller:
        it must be a container of the requested type, and a new object (not one the caller
        already holds, not one he passed in)"""
        ob = {"v": [self.item_out(x) for x in r]}
        if expect is not None and type(r) is not expect:
            ob["ctype"] = type(r).__name__
        if self.hist:
            if isinstance(r, list) and (any(r is o for o in self.objs) or any(r is g for g in self.given)):
                ob["alias"] = True
            self.objs.append(r)
            self.want.append(list(r))
        return ob

    def _scan(self, objs, want):
        out = []
        n = len(objs)
        if n <= 64 or self.tick % 64 == 0:
            js = range(n)
        else:                     # long histories: the newest ones and a rotating window every step, all of
            a = (self.tick * 16) % n                      # them every 64 steps (and the final contents always)
            js = list(range(a, min(a + 16, n))) + list(range(n - 16, n))
        for j in js:
            o, w = objs[j], want[j]
            if len(o) != len(w) or any(map(operator.is_not, o, w)):
                out.append(j)
                want[j] = list(o)
        return out

    def dirty(self):
        """caller containers that changed although the caller did not touch them: (containers he got
        or built and addresses by index, lists he wrote as literal arguments of a call)"""
        self.tick += 1
        return self._scan(self.objs, self.want), self._scan(self.arg_objs, self.arg_want)

    def lists(self):
        return [[self.item_out(x) for x in o] for o in self.objs]

    # --- one step ------------------------------------------------------------------------
    def step(self, op):
        try:
            ob = self._step(op)
        except _Timeout:
            raise
        except _NoList:
            ob = {"err": "nolist"}
        except FL.BadItem as e:
            ob = {"err": "baditem:" + str(e)}
        except OverflowError as e:
            ob = {"err": "ENDLESS" if "ENDLESS" in str(e) else "OverflowError"}
        except MemoryError:
            global _HANGS, _MEMERR
            _MEMERR = True
            _HANGS += 1
            ob = {"err": "ENDLESS"}
        except Exception as e:
            ob = {"err": err_kind(e)}
        if self.hist and op["op"] != "mut":
            try:
                d = self.dirty()
            except _Timeout:
                raise
            except Exception as e:                # a caller container that cannot even be read any more
                d = ["unreadable:" + err_kind(e)], []
            if d[0]:
                ob = dict(ob, dirty=d[0])
            if d[1]:
                ob = dict(ob, dirtyarg=True)
        return ob

    def _mut(self, op):
        j, m = op["j"], op["m"]
        if j >= len(self.objs):
            return {"err": "nolist"}
        o = self.objs[j]
        if not isinstance(o, list):
            return {"err": "immutable"}
        k = m["k"]
        if k == "clear":
            del o[:]
        elif k == "reverse":
            o.reverse()
        elif k == "pop0":
            del o[:1]
        elif k == "poplast":
            del o[-1:]
        elif k == "extend":
            o.extend([self.item_in(x) for x in m["xs"]])
        elif k == "fill":
            o[:] = [self.item_in(m["v"])] * len(o)
        else:
            raise ValueError(k)
        self.want[j] = list(o)
        return {"self": True}

    def _take(self, obj, o, op):
        n = cnt_py(op["n"])
        if n is None:
            return {"x": self.item_out(getattr(obj, o)())}
        ctor = op.get("ctor", "cap")
        if ctor == "cap":
            return self.container(getattr(obj, o)(n, constructor=self.capped), list)
        if ctor == "list":                                   # the default constructor
            return self.container(getattr(obj, o)(n), list)
        if ctor == "listkw":
            return self.container(getattr(obj, o)(n=n, constructor=list), list)
        if ctor == "tuple":
            return self.container(getattr(obj, o)(n, constructor=tuple), tuple)
        raise ValueError(ctor)

    # --- calls as the caller writes them (entry `calls`) ------------------------------------
    def carg(self, a):
        k = a["k"]
        if k == "lst":
            return FL.iterable_of(self.literal(a["xs"]), a.get("as"), self.Stream)
        if k == "scalar":
            return self.item_in(a["v"])
        if k == "endless":
            return FL.endless_of([self.item_in(x) for x in a["xs"]], a.get("as"))
        j = a["j"]
        if j >= len(self.pool) or self.pool[j] is None:
            raise LookupError("noobj")
        return self.pool[j]

    def cargs(self, args):
        return [self.carg(a) for a in args]

    def moved_args(self, args):
        for a in args:
            if a["k"] == "obj":
                o = self.pool[a["j"]]
                if o is not None and not isinstance(o, self.Hub):
                    self.pool[a["j"]] = None

    def _call(self, op, obj):
        pool, Hub = self.pool, self.Hub
        o = op["op"]
        if o in ("take", "peek"):
            a = op["a"]
            pos, kw = CL.poskw(a)
            ctor = op.get("ctor")
            if ctor in ("tuple", "cap", "listkw"):
                kw["constructor"] = {"tuple": tuple, "cap": self.capped, "listkw": list}[ctor]
            r = getattr(obj, o)(*pos, **kw)
            if a["t"] in ("omitted", "none"):
                return {"x": self.item_out(r)}
            return self.container(r, tuple if ctor == "tuple" else list)
        if o == "new":
            try:
                args = self.cargs(op["args"])
            except LookupError:
                return {"err": "noobj"}
            s = self.Stream(*args)
            self.moved_args(op["args"])
            pool.append(s)
            return {"new": [len(pool) - 1]}
        d = op["data"]
        try:
            data = self.carg(d)
        except LookupError:
            return {"err": "noobj"}
        if o == "thub":
            n = CL.nspell_py(op["n"])
            if d["k"] == "scalar":
                r = self.thub(data, n)
                return {"const": d["v"]} if r is data else {"err": "not-the-object"}
            ishub = isinstance(data, Hub)
            before = _uses(data) if ishub else 0
            try:
                r = self.thub(data, n)
            except Exception:
                if ishub and 0 <= _uses(data) < before:
                    pool.append(None)              # the use the failing constructor took is lost
                raise
            self.moved_args([d])
            pool.append(r)
            return {"new": [len(pool) - 1]}
        if o == "tee":
            rs = self.lit.tee(data, CL.nspell_py(op["n"])) if op.get("n") else self.lit.tee(data)
            if d["k"] == "scalar":
                if not isinstance(rs, tuple) or any(r is not data for r in rs):
                    return {"err": "not-the-object"}
                return self.container(rs, tuple)
            if len(rs) and not isinstance(data, Hub):
                pool[d["j"]] = None
            out = []
            for r in rs:
                pool.append(r)
                out.append(len(pool) - 1)
            return {"new": out}
        raise ValueError("unknown call " + o)

    def _drain(self, obj, op):
        via = op.get("via", "cap")
        if via == "cap":
            return self.container(self.capped(iter(obj)), None)
        if via == "list":
            return self.container(list(obj), None)
        if via == "tuple":
            return self.container(tuple(obj), None)
        if via == "for":
            out = []
            for x in obj:
                out.append(x)
                if len(out) > self.cap:
                    raise OverflowError("ENDLESS")
            return self.container(out, None)
        raise ValueError(via)

    def _step(self, op):
        pool, Hub = self.pool, self.Hub
        o = op["op"]
        if o == "lit":
            self.objs.append([self.item_in(x) for x in op["xs"]])
            self.want.append(list(self.objs[-1]))
            return {"new": [len(self.objs) - 1]}
        if o == "mut":
            return self._mut(op)
        obj = None
        if "i" in op:
            i = op["i"]
            if op.get("src", {}).get("k") == "ref" and op["src"]["j"] >= len(self.objs):
                return {"err": "nolist"}                # the model looks the list up first
            if i >= len(pool) or pool[i] is None:
                return {"err": "noobj"}
            obj = pool[i]
        ishub = isinstance(obj, Hub)
        if op.get("call") and o in ("take", "peek", "new", "thub", "tee"):
            return self._call(op, obj)
        if o == "new":
            try:
                args = self.build(op["src"])
            except LookupError:
                return {"err": "noobj"}
            if op.get("raw"):                            # the Stream subclass instance itself
                s = FL.stream_classes(self.Stream)[0](*args)
            else:
                s = self.Stream(*args)
            self.moved(op["src"])
            pool.append(s)
            return {"new": [len(pool) - 1]}
        if o in ("take", "peek"):
            return self._take(obj, o, op)
        if o == "next":
            return {"x": self.item_out(next(iter(obj)))}
        if o == "drain":
            return self._drain(obj, op)
        if o in ("skip", "limit", "append", "map", "filter"):
            before = _uses(obj) if ishub else 0
            src = op.get("src")
            try:
                if (o == "skip" or o == "limit") and op.get("call"):
                    pos, kw = CL.poskw(op["a"])
                    r = getattr(obj, o)(*pos, **kw)
                elif o == "skip" or o == "limit":
                    r = getattr(obj, o)(cnt_py(op["n"]))
                elif o == "map":
                    r = obj.map(self.fn(MAPS, op, "f"))
                elif o == "filter":
                    r = obj.filter(self.fn(PREDS, op, "p", pred=True))
                elif op.get("call"):
                    r = obj.append(*self.cargs(op["args"]))        # (only live objects are generated as arguments)
                    self.moved_args(op["args"])
                else:
                    try:
                        args = self.build(src)
                    except LookupError:
                        # the model pops the use first (Stream(self)), then fails on the argument
                        if ishub:
                            try:
                                iter(obj)
                            except IndexError:
                                return {"err": "IndexError"}
                            pool.append(None)
                        return {"err": "noobj"}
                    r = obj.append(*args)
                    self.moved(src)
            except Exception as e:
                after = _uses(obj) if ishub else 0
                if ishub and (after < before if before >= 0 else not isinstance(e, IndexError)):
                    pool.append(None)          # the popped use is lost
                raise
            if ishub:
                pool.append(r)
                return {"new": [len(pool) - 1]}
            return {"self": r is obj}
        if o == "copy":
            r = obj.copy()
            if r is None:                       # cannot happen: copy() without uses raises
                return {"err": "None"}
            pool.append(r)
            return {"new": [len(pool) - 1]}
        if o == "thub":
            src = op["src"]
            if src["k"] == "const":
                v = self.item_in(src["v"])
                r = self.thub(v, op["n"])
                return {"const": src["v"]} if r is v else {"err": "not-the-object"}
            try:
                args = self.build(src)
            except LookupError:
                return {"err": "noobj"}
            data = args[0] if src["k"] in ("list", "obj", "ref") else self.Stream(*args)
            r = self.thub(data, op["n"])
            self.moved(src)
            pool.append(r)
            return {"new": [len(pool) - 1]}
        if o == "tee":
            rs = self.lit.tee(obj, op["n"])
            if not ishub:
                pool[op["i"]] = None
            out = []
            for r in rs:
                pool.append(r)
                out.append(len(pool) - 1)
            return {"new": out}
        raise ValueError("unknown op " + o)


def impl(case):
    if case.get("entry") == "xhist":         # finite sources only: every request returns
        return RX.run(case)
    # a request that does not terminate (e.g. filter rejecting every item of an endless stream)
    # is cut by a CPU-time alarm; a first alarm is confirmed by a second run with a longer
    # budget, so that a stalled machine can never turn into a reported "hang"
    global _HANGS
    first, second = (3.0, 15.0) if _HANGS < 3 else ((1.0, 4.0) if _HANGS < 8 else (0.1, 0.4))  # real hangs stay affordable
    if case.get("slow"):
        first, second = first * 4, second * 2
    global _MEMERR
    _MEMERR = False
    out, timed_out = _run_history(case, first)
    if timed_out and not _MEMERR:
        out, timed_out = _run_history(case, second)
        if timed_out:
            _HANGS += 1
    return out


_HANGS = 0
_MEMERR = False


def _vm_bytes():
    try:
        with open("/proc/self/statm") as f:
            return int(f.read().split()[0]) * resource.getpagesize()
    except Exception:
        return 1 << 30


def _run_history(case, budget):
    run = Runner(case)
    steps, timed_out = [], False
    out = {"steps": steps}
    old = signal.signal(signal.SIGVTALRM, _alarm)
    hook, sys.unraisablehook = sys.unraisablehook, lambda *_a: None   # StreamTeeHub.__del__ after a failed __init__
    gc_was = gc.isenabled()
    gc.disable()                      # a full collection inside the timed region could look like a hang
    signal.setitimer(signal.ITIMER_VIRTUAL, budget)
    # list() / tuple() of an endless C-level iterator (what a broken take / limit may hand to the default
    # constructor) never runs Python code, so no alarm can stop it: it must die of MemoryError instead
    soft, hard = resource.getrlimit(resource.RLIMIT_AS)
    room = (384 << 20) if _HANGS < 3 else (96 << 20)
    try:
        resource.setrlimit(resource.RLIMIT_AS, (_vm_bytes() + room, hard))
    except (ValueError, OSError):
        pass
    try:
        with warnings.catch_warnings():
            warnings.simplefilter("ignore")
            for op in case["ops"]:
                try:
                    ob = run.step(op)
                except _Timeout:
                    ob = {"err": "ENDLESS"}
                    timed_out = True
                if ob.get("err") == "ENDLESS":      # the request does not terminate: same as the
                    steps.append({"hang": True})    # model's / spec's "hang"; the history stops here
                    break
                steps.append(ob)
            if run.hist:
                try:
                    out["lists"] = run.lists()
                except FL.BadItem as e:
                    out["lists"] = "baditem:" + str(e)
            signal.setitimer(signal.ITIMER_VIRTUAL, 0)
            for o in run.pool:                      # no MemoryLeakWarning noise from __del__
                if isinstance(o, run.Hub) and isinstance(getattr(o, "_iters", None), list):
                    o._iters[:] = []
    except _Timeout:                  # alarm between two steps: let the confirmation run decide
        timed_out = True
        steps.append({"hang": True})
    finally:
        signal.setitimer(signal.ITIMER_VIRTUAL, 0)
        try:
            resource.setrlimit(resource.RLIMIT_AS, (soft, hard))
        except (ValueError, OSError):
            pass
        signal.signal(signal.SIGVTALRM, old)
        sys.unraisablehook = hook
        if gc_was:
            gc.enable()
    return out, timed_out


# ----------------------------------------------------------------------------------------
# generator-side simulator (chooses counts relative to the remaining length, avoids
# non-terminating requests, and attributes RuntimeErrors for `classify`).  NOT an oracle.
# ----------------------------------------------------------------------------------------
def _rint(x):        # lazy_misc.rint for x > 0
    import math
    d = math.floor(x)
    return d + 1 if 2 * (x - d) >= 1 else d


def take_count(n):
    if n is None:
        return "one"
    if n == INF:
        return "all"
    if isinstance(n, float):
        return _rint(n) if n > 0 else 0
    return max(n, 0)


def round_count(n):
    if n is None:
        return None
    if isinstance(n, float) and (n != n or n in (INF, -INF)):
        return None
    return max(int(round(n)), 0)


class Sim:
    """objects: None | dict(kind 's' Stream / 'h' StreamTeeHub / 'r' raw Stream subclass with its own
    __iter__, pre, per, uses, flags); lists: the caller's containers dict(xs, lent, mutable, origin, passes)"""

    def __init__(self, tagged=False):
        self.pool = []
        self.lists = []
        self.tagged = tagged

    def fm(self, k, x):
        return [MAPS[k](x[0]), x[1]] if self.tagged else MAPS[k](x)

    def fp(self, k, x):
        return PREDS[k](x[0] if self.tagged else x)

    def live(self, kinds="sh"):
        return [i for i, o in enumerate(self.pool) if o is not None and o["kind"] in kinds]

    @staticmethod
    def unroll(o, n):
        return o["pre"] + o["per"] * n

    def remaining(self, i):
        o = self.pool[i]
        return None if o["per"] else len(o["pre"])

    def src(self, s):
        """returns (pre, per, flags) or None when it fails; applies the move"""
        k = s["k"]
        if k == "list":
            return list(s["xs"]), [], set()
        if k == "cyc":
            return [], list(s["xs"]), set()
        if k == "chain":
            return [x for xs in s["xss"] for x in xs], [], set()
        if k == "const":
            return [], [s["v"]], set()
        if k == "ref":
            if s["j"] >= len(self.lists):
                return None
            L = self.lists[s["j"]]
            L["lent"] = True
            L["passes"] += 1
            return list(L["xs"]), [], set()
        j = s["j"]
        if j >= len(self.pool) or self.pool[j] is None:
            return None
        o = self.pool[j]
        if k == "mixed" and o["kind"] == "h":
            # finding D16: the real chain takes the use of the hub only when it gets there; from
            # here on the hub and everything made from it or from the new stream may differ
            o["flags"].add("lazyhub")
        if o["kind"] != "h":
            self.pool[j] = None
        else:
            if o["uses"] == 0:
                return None
            o["uses"] -= 1
        if k == "mixed":
            if o["per"]:
                return list(s["pre"]) + list(o["pre"]), list(o["per"]), set(o["flags"])
            return list(s["pre"]) + list(o["pre"]) + list(s["post"]), [], set(o["flags"])
        return list(o["pre"]), list(o["per"]), set(o["flags"])

    def target(self, i):
        """(index of the result, object data) for in-place methods; None on failure"""
        o = self.pool[i]
        if o["kind"] != "h":
            return i, o
        if o["uses"] == 0:
            return None
        o["uses"] -= 1
        self.pool.append(None)
        return len(self.pool) - 1, dict(o, kind="s", flags=set(o["flags"]))

    def apply(self, op):
        """advance; returns a note dict (for classify / tally / shrink)"""
        p0, l0 = len(self.pool), len(self.lists)
        note = self._apply(op)
        note.update(pool0=p0, pool1=len(self.pool), list0=l0, list1=len(self.lists))
        return note

    def _made(self, xs, origin, mutable=True):
        self.lists.append({"xs": list(xs), "lent": False, "mutable": mutable, "origin": origin, "passes": 0})

    def _apply(self, op):
        o = op["op"]
        note = {}
        if o == "lit":
            self._made(op["xs"], "lit")
            return note
        if o == "mut":
            if op["j"] < len(self.lists):
                L = self.lists[op["j"]]
                note["origin"], note["lent"] = L["origin"], L["lent"]
                k, xs = op["m"]["k"], L["xs"]
                L["xs"] = ([] if k == "clear" else xs[::-1] if k == "reverse" else xs[1:] if k == "pop0" else
                           xs[:-1] if k == "poplast" else xs + list(op["m"]["xs"]) if k == "extend" else
                           [op["m"]["v"]] * len(xs))
            return note
        if op.get("call"):
            kind, x = CL.plain_of(op)
            if kind == "hop":
                note = self._apply(x)
                note["call"] = "hop"
                return note
            if x is not None:
                self._made(x, "tee", mutable=False)
            return {"call": "ret"}
        src = op.get("src")
        if "i" in op and src and src["k"] == "ref" and src["j"] >= len(self.lists):
            return {"nolist": True}
        if "i" in op and (op["i"] >= len(self.pool) or self.pool[op["i"]] is None):
            return {"noobj": True}
        obj = self.pool[op["i"]] if "i" in op else None
        if obj is not None:
            note["kind"] = obj["kind"]
            note["flags"] = sorted(obj["flags"])
        if src and src["k"] in ("obj", "mixed") and src["j"] < len(self.pool) and self.pool[src["j"]]:
            a = self.pool[src["j"]]
            if "lazyhub" in a["flags"] or (src["k"] == "mixed" and a["kind"] == "h"):
                note["lazyhub"] = True
        if o == "new":
            r = self.src(op["src"])
            if r is not None:
                self.pool.append({"kind": "r" if op.get("raw") else "s", "pre": r[0], "per": r[1], "uses": 0,
                                  "flags": r[2]})
        elif o in ("take", "peek", "next", "drain"):
            if obj["kind"] == "h":
                if o == "take" or obj["uses"] == 0:
                    return note
                if o in ("next", "drain"):
                    obj["uses"] -= 1
            n = None if o == "next" else (INF if o == "drain" else cnt_py(op["n"]))
            k = take_count(n)
            container = k != "one"
            if k == "one":
                k = 1
            if k == "all":
                if obj["per"]:
                    return note                      # never returns
                k = len(obj["pre"])
            avail = self.unroll(obj, k)
            note["past_end"] = (not obj["per"]) and len(avail) < k
            if container:
                self._made(avail[:k], o, mutable=op.get("ctor") != "tuple" and op.get("via") != "tuple")
            if o in ("take",) or (obj["kind"] != "h" and o in ("next", "drain")):
                obj["pre"] = avail[k:]
        elif o in ("skip", "limit", "append", "map", "filter"):
            t = self.target(op["i"])
            if t is None:
                return note
            k, d = t
            pre, per, flags = list(d["pre"]), list(d["per"]), set(d["flags"])
            if o in ("skip", "limit"):
                n = round_count(cnt_py(op["n"]))
                if n is None:
                    return note          # (for a hub the placeholder is already appended)
                un = pre + (per * n if per else [])
                if not per and n > len(pre):
                    flags.add(o + "-past-end")
                if o == "skip":
                    pre = un[n:]
                else:
                    pre, per = un[:n], []
            elif o == "map":
                pre, per = [self.fm(op["f"], x) for x in pre], [self.fm(op["f"], x) for x in per]
            elif o == "filter":
                pre, per = [x for x in pre if self.fp(op["p"], x)], [x for x in per if self.fp(op["p"], x)]
            else:
                r = self.src(op["src"])
                if r is None:
                    return note
                flags |= r[2]
                if not per:
                    pre, per = pre + r[0], r[1]
            self.pool[k] = {"kind": "s", "pre": pre, "per": per, "uses": 0, "flags": flags}
        elif o == "copy":
            if obj["kind"] == "h" and obj["uses"] == 0:
                return note
            self.pool.append({"kind": "s", "pre": list(obj["pre"]), "per": list(obj["per"]), "uses": 0,
                              "flags": set(obj["flags"])})
        elif o == "thub":
            if op["src"]["k"] == "const":
                return note
            r = self.src(op["src"])
            if r is not None:
                self.pool.append({"kind": "h", "pre": r[0], "per": r[1], "uses": op["n"], "flags": r[2]})
        elif o == "tee":
            r = self.src({"k": "obj", "j": op["i"]})
            if r is not None:
                for _ in range(op["n"]):
                    self.pool.append({"kind": "s", "pre": list(r[0]), "per": list(r[1]), "uses": 0,
                                      "flags": set(r[2])})
        return note


def _notes(case):
    sim = Sim(bool(case.get("tagged")))
    return [sim.apply(op) for op in case["ops"]], sim


# ----------------------------------------------------------------------------------------
# generation
# ----------------------------------------------------------------------------------------
def _vals(rng, n, sim=None):
    if sim is not None and sim.tagged:
        # few values, several representations: equal items of different types meet all the time
        return [[rng.randint(-2, 3), rng.choice(sim.palette)] for _ in range(n)]
    return [rng.randint(-4, 9) for _ in range(n)]


def _new_src(rng, sim, allow_obj=True):
    r = rng.random()
    if r < 0.50:
        return {"k": "list", "xs": _vals(rng, rng.choice([0, 1, 2, 3, 4, 5, 6, 8]), sim)}
    if r < 0.68:
        return {"k": "cyc", "xs": _vals(rng, rng.randint(2, 4), sim)}
    if r < 0.76:
        return {"k": "const", "v": _vals(rng, 1, sim)[0]}
    if r < 0.88 or not allow_obj or not sim.live("shr"):
        return {"k": "chain", "xss": [_vals(rng, rng.randint(0, 3), sim) for _ in range(rng.randint(2, 3))]}
    j = rng.choice(sim.live("shr"))
    if rng.random() < 0.3:
        return {"k": "mixed", "pre": _vals(rng, rng.randint(0, 2), sim), "j": j, "post": _vals(rng, rng.randint(0, 2), sim)}
    return {"k": "obj", "j": j}


def _count(rng, sim, i, wild, for_round=False):
    """a count for object i: category first, value relative to the remaining length"""
    rem = sim.remaining(i)
    L = rem if rem is not None else rng.randint(2, 9)
    cats = ["neg", "zero", "within", "within", "equal", "half", "float"]
    if not for_round:
        cats += ["none", "none", "ninf", "nan"]
        if rem is not None:
            cats += ["inf"]
    if wild or rem is None:
        cats += ["beyond", "beyond"]
    c = rng.choice(cats)
    if c == "none":
        return {"t": "none"}
    if c in ("inf", "ninf", "nan"):
        return {"t": c}
    if c == "neg":
        return cnt_int(-rng.randint(1, 3))
    if c == "zero":
        return cnt_int(0)
    if c == "within":
        return cnt_int(rng.randint(0, max(L - 1, 0)))
    if c == "equal":
        return cnt_int(L)
    if c == "beyond":
        return cnt_int(L + rng.randint(1, 3))
    if c == "half":          # x.5 ties: rint rounds away from zero, round() to even
        k = rng.randint(0, max(L - 1, 0)) if not (wild or rem is None) else rng.randint(0, L + 1)
        x = k + 0.5
        hi = (take_count(x) if not for_round else round_count(x))
        if not (wild or rem is None) and hi > L:
            x = max(k - 1, 0) + 0.5
            if (take_count(x) if not for_round else round_count(x)) > L:
                return cnt_int(0)
        return cnt_flt(x)
    x = rng.randint(0, max(L - 1, 0)) + rng.choice([0.25, 0.4, 0.0, 0.75, 0.6, 0.49])
    if not (wild or rem is None) and (take_count(x) if not for_round else round_count(x)) > L:
        x = float(L)
    if rng.random() < 0.15:
        x = -x
    return cnt_flt(x)


def _gen_raw_op(rng, sim, i):
    """a Stream subclass instance whose __iter__ is not `_data`: only what goes through iter()"""
    o = rng.choice(["drain", "next", "next", "tee", "thub", "new", "append"])
    if o in ("drain", "next") and not (o == "drain" and sim.pool[i]["per"]):
        return {"op": o, "i": i}
    if o == "tee":
        return {"op": "tee", "i": i, "n": rng.randint(1, 3)}
    if o == "thub":
        return {"op": "thub", "src": {"k": "obj", "j": i}, "n": rng.randint(0, 3)}
    others = [k for k in sim.live("s") if k != i]
    if o == "append" and others:
        return {"op": "append", "i": rng.choice(others), "src": {"k": "obj", "j": i}}
    return {"op": "new", "src": {"k": "obj", "j": i}}


def _gen_op(rng, sim, wild):
    streams, hubs, raws = sim.live("s"), sim.live("h"), sim.live("r")
    if not streams and not hubs or rng.random() < 0.10:
        return {"op": "new", "src": _new_src(rng, sim)}
    if raws and rng.random() < 0.2:
        return _gen_raw_op(rng, sim, rng.choice(raws))
    r = rng.random()
    pick_hub = hubs and (not streams or rng.random() < 0.25)
    i = rng.choice(hubs if pick_hub else streams)
    obj = sim.pool[i]
    endless = bool(obj["per"])
    ops = ["take"] * 5 + ["peek"] * 4 + ["skip"] * 3 + ["limit"] * 3 + ["append"] * 2 + ["map"] * 2 + \
          ["filter"] * 2 + ["copy"] * 4 + ["next"] * 2 + ["drain"] + ["thub"] * 2 + ["tee"]
    o = rng.choice(ops)
    if o in ("take", "peek"):
        return {"op": o, "i": i, "n": _count(rng, sim, i, wild)}
    if o in ("skip", "limit"):
        return {"op": o, "i": i, "n": _count(rng, sim, i, wild, for_round=True)}
    if o == "append":
        src = _new_src(rng, sim)
        if src["k"] in ("obj", "mixed") and src["j"] == i and obj["kind"] != "h":   # (a hub appended to itself: two uses)
            src = {"k": "list", "xs": _vals(rng, 2, sim)}
        return {"op": o, "i": i, "src": src}
    if o == "map":
        return {"op": o, "i": i, "f": rng.randrange(len(MAPS))}
    if o == "filter":
        p = rng.randrange(len(PREDS))
        if endless and not any(sim.fp(p, x) for x in obj["per"]):
            p = 4
        return {"op": o, "i": i, "p": p}
    if o == "drain" and endless:
        return {"op": "take", "i": i, "n": cnt_int(rng.randint(3, 9))}
    if o == "thub":
        if r < 0.08:
            return {"op": "thub", "src": {"k": "const", "v": _vals(rng, 1, sim)[0]}, "n": rng.randint(0, 3)}
        src = {"k": "obj", "j": i} if r < 0.62 else (
            {"k": "mixed", "pre": _vals(rng, rng.randint(0, 2), sim), "j": i, "post": _vals(rng, rng.randint(0, 2), sim)}
            if r < 0.7 else _new_src(rng, sim, allow_obj=False))
        if src["k"] == "const":
            src = {"k": "cyc", "xs": [src["v"], _vals(rng, 1, sim)[0]]}
        return {"op": "thub", "src": src, "n": rng.randint(0, 3)}
    if o == "tee":
        return {"op": "tee", "i": i, "n": rng.randint(1, 3)}
    return {"op": o, "i": i}


MUTS = ["clear", "reverse", "pop0", "poplast", "extend", "fill"]
REF_AS = ["same", "same", "same", "gen", "iter", "tuple", "iterable", "restream", "altstream", "deque"]


def _gen_mut(rng, sim):
    k = rng.choice(MUTS)
    if k == "extend":
        return {"k": k, "xs": _vals(rng, rng.randint(1, 3), sim)}
    if k == "fill":
        return {"k": k, "v": _vals(rng, 1, sim)[0]}
    return {"k": k}


def _decorate(rng, sim, op):
    """operand flavours of one method call of a `hist` history"""
    o = op["op"]
    if o in ("take", "peek") and op["n"]["t"] != "none":
        op["ctor"] = rng.choice(["list", "list", "list", "listkw", "cap", "tuple"])
    elif o == "drain":
        op["via"] = rng.choice(["list", "for", "tuple", "cap"])
    elif o in ("map", "filter"):
        op["fl"] = rng.choice(FL.FN_FLAVOURS)
    src = op.get("src")
    if src is not None and o in ("new", "append", "thub"):
        if src["k"] in ("list", "chain") and sim.lists and rng.random() < 0.45:
            lent = [j for j, L in enumerate(sim.lists) if L["lent"]]
            j = rng.choice(lent) if lent and rng.random() < 0.35 else rng.randrange(len(sim.lists))
            op["src"] = src = {"k": "ref", "j": j, "as": rng.choice(REF_AS)}
        elif src["k"] in ("list", "chain", "mixed"):
            src["as"] = rng.choice(FL.SRC_FLAVOURS)
        if o == "new" and src["k"] in ("list", "ref") and rng.random() < 0.12:
            op["raw"] = True
    return op


def _gen_hop(rng, sim, wild, tees=None):
    r = rng.random()
    mutable = [j for j, L in enumerate(sim.lists) if L["mutable"] and not L["lent"]]
    if mutable and r < 0.22:
        j = rng.choice(mutable[-3:]) if rng.random() < 0.7 else rng.choice(mutable)
        return {"op": "mut", "j": j, "m": _gen_mut(rng, sim)}
    if r < 0.26:
        return {"op": "lit", "xs": _vals(rng, rng.choice([0, 1, 2, 3, 5]), sim)}
    op = _gen_op(rng, sim, wild)
    if tees is not None and op["op"] in ("peek", "copy", "thub", "tee"):
        # long histories: every tee stays in the model's heap for ever; keep their number bounded
        if tees[0] <= 0:
            i = op.get("i", op.get("src", {}).get("j"))
            if i is None or i >= len(sim.pool) or sim.pool[i] is None or sim.pool[i]["kind"] != "s":
                return {"op": "lit", "xs": _vals(rng, 2, sim)}
            if sim.remaining(i) is not None and sim.remaining(i) < 3:
                op = {"op": "append", "i": i, "src": {"k": "list", "xs": _vals(rng, rng.randint(2, 6), sim)}}
            else:
                op = {"op": "take", "i": i, "n": cnt_int(rng.randint(0, 3))}
        else:
            tees[0] -= 1
    return _decorate(rng, sim, op)


def _finish(sim, ops, rng=None):
    """drain every live object (a bounded take for endless ones), every use of every hub"""
    def via(fin):
        if rng is not None and fin["op"] == "drain":
            fin["via"] = rng.choice(["cap", "list", "for"])
        if rng is not None and fin["op"] == "take":
            fin["ctor"] = rng.choice(["cap", "list"])
        return fin
    for i in list(range(len(sim.pool))):
        o = sim.pool[i]
        if o is None:
            continue
        if o["kind"] != "h":
            fin = {"op": "drain", "i": i} if not o["per"] else (
                {"op": "take", "i": i, "n": cnt_int(7)} if o["kind"] == "s" else {"op": "next", "i": i})
            ops.append(via(fin))
            sim.apply(fin)
        else:
            for _ in range(o["uses"] + 1):
                fin = {"op": "drain", "i": i} if not o["per"] else {"op": "tee", "i": i, "n": 1}
                ops.append(via(fin))
                before = len(sim.pool)
                sim.apply(fin)
                if o["per"] and fin["op"] == "tee" and len(sim.pool) > before and sim.pool[-1] is not None:
                    t = {"op": "take", "i": len(sim.pool) - 1, "n": cnt_int(5)}
                    ops.append(t)
                    sim.apply(t)


def _history(rng, length, wild):
    sim, ops = Sim(), []
    for _ in range(length):
        op = _gen_op(rng, sim, wild)
        ops.append(op)
        sim.apply(op)
    _finish(sim, ops)
    return {"entry": "history", "ops": ops}


def _new_sim(rng, tagged):
    sim = Sim(tagged)
    if tagged:
        sim.palette = rng.sample(range(FL.TAGS), rng.randint(2, 4))
    return sim


def _hist(rng, length, wild, tagged, tees=None, **extra):
    """a history in which the caller keeps, mutates and passes on containers (entry `hist`)"""
    sim, ops = _new_sim(rng, tagged), []
    for _ in range(length):
        op = _gen_hop(rng, sim, wild, tees)
        ops.append(op)
        sim.apply(op)
    _finish(sim, ops, rng)
    case = {"entry": "hist", "ops": ops}
    if tagged:
        case["tagged"] = True
    case.update(extra)
    return case


def _calls(rng, length, wild, tagged):
    """a `hist` history whose operations are written as calls: every operation respelled (count as
    int / bool / float / Fraction / -0.0, positional / keyword / omitted; the argument list of
    Stream(...) / append(...) written out, sources built on itertools objects; thub / tee n), and
    refused / failing calls in between; the history goes on afterwards and every live object is
    drained at the end"""
    sim, ops = _new_sim(rng, tagged), []

    def vals(n):
        return _vals(rng, n, sim)
    for _ in range(length):
        if rng.random() < 0.22:
            op = CL.odd_call(rng, sim, vals)
        else:
            op = _gen_hop(rng, sim, wild)
            if op["op"] not in ("lit", "mut") and rng.random() < 0.8:
                op = CL.respell(rng, op, FL.SRC_FLAVOURS) or op
        ops.append(op)
        sim.apply(op)
    _finish(sim, ops, rng)
    case = {"entry": "calls", "ops": ops}
    if tagged:
        case["tagged"] = True
    return case


def _tie_cases():
    """every count exactly on a tie k + 0.5 (k = -3..6, even and odd), -0.0, as float and as Fraction,
    through take / peek / skip / limit, positional and keyword, on a finite and on a periodic Stream"""
    from fractions import Fraction
    for base in ({"k": "lst", "xs": list(range(1, 9)), "as": "list"}, {"k": "endless", "xs": [1, 2, 3], "as": "it.cycle"}):
        for k in range(-3, 7):
            for t in ("flt", "frac"):
                for kw in (False, True):
                    a = {"t": t, "v": common.enc(Fraction(2 * k + 1, 2))}
                    if kw:
                        a["kw"] = True
                    ops = [{"op": "new", "call": 1, "args": [base]}]
                    for m in ("peek", "take", "skip", "limit"):
                        ops.append({"op": m, "call": 1, "i": 0, "a": a, "ctor": "list"} if m in ("peek", "take")
                                   else {"op": m, "call": 1, "i": 0, "a": a})
                        ops.append({"op": "peek", "i": 0, "n": cnt_int(6), "ctor": "list"})
                    ops.append({"op": "take", "i": 0, "n": cnt_int(9), "ctor": "list"})
                    yield {"entry": "calls", "ops": ops}
        for a in ({"t": "flt", "v": 0, "negzero": True}, {"t": "flt", "v": 0}, {"t": "frac", "v": 0}, {"t": "bool", "v": 0},
                  {"t": "bool", "v": 1}):
            ops = [{"op": "new", "call": 1, "args": [base]}]
            for m in ("peek", "take", "skip", "limit"):
                ops.append({"op": m, "call": 1, "i": 0, "a": a, "ctor": "list"} if m in ("peek", "take")
                           else {"op": m, "call": 1, "i": 0, "a": a})
                ops.append({"op": "peek", "i": 0, "n": cnt_int(4), "ctor": "list"})
            ops.append({"op": "take", "i": 0, "n": cnt_int(9), "ctor": "list"})
            yield {"entry": "calls", "ops": ops}


def _exhaustive(depth):
    """all op sequences of the given depth over a small alphabet on Stream([1,2,3]) + one copy"""
    alpha = [
        {"op": "take", "i": 0, "n": cnt_int(2)}, {"op": "take", "i": 0, "n": {"t": "none"}},
        {"op": "peek", "i": 0, "n": cnt_int(2)}, {"op": "skip", "i": 0, "n": cnt_int(1)},
        {"op": "limit", "i": 0, "n": cnt_int(2)}, {"op": "append", "i": 0, "src": {"k": "list", "xs": [7]}},
        {"op": "map", "i": 0, "f": 0}, {"op": "filter", "i": 0, "p": 0}, {"op": "copy", "i": 0},
        {"op": "take", "i": 1, "n": cnt_int(1)}, {"op": "thub", "src": {"k": "obj", "j": 1}, "n": 2},
    ]
    base = [{"op": "new", "src": {"k": "list", "xs": [1, 2, 3, 4]}}, {"op": "copy", "i": 0}]
    for combo in itertools.product(range(len(alpha)), repeat=depth):
        sim, ops = Sim(), []
        for op in base + [alpha[k] for k in combo]:
            ops.append(op)
            sim.apply(op)
        _finish(sim, ops)
        yield {"entry": "history", "ops": ops}


def _owner_cases():
    """what take / peek hand out belongs to the caller: every (first call, count, constructor,
    mutation by the caller, following use) on a finite Stream, a periodic Stream and a thub"""
    bases = [
        ("fin", [{"op": "new", "src": {"k": "list", "xs": [1, 2, 3, 4, 5]}}], 0),
        ("per", [{"op": "new", "src": {"k": "cyc", "xs": [1, 2, 3]}}], 0),
        ("hub", [{"op": "thub", "src": {"k": "list", "xs": [1, 2, 3, 4, 5]}, "n": 3}], 0),
        ("copy", [{"op": "new", "src": {"k": "list", "xs": [1, 2, 3, 4, 5]}}, {"op": "copy", "i": 0}], 1),
    ]
    follows = [
        lambda i, p: [{"op": "take", "i": i, "n": cnt_int(2), "ctor": "list"}],
        lambda i, p: [{"op": "peek", "i": i, "n": cnt_int(4), "ctor": "list"}],
        lambda i, p: [{"op": "copy", "i": i}, {"op": "take", "i": p, "n": cnt_int(2), "ctor": "list"}],
        lambda i, p: [{"op": "next", "i": i}],
        lambda i, p: [{"op": "append", "i": i, "src": {"k": "ref", "j": 0, "as": "same"}}],
        lambda i, p: [{"op": "skip", "i": i, "n": cnt_int(1)}, {"op": "take", "i": i, "n": cnt_int(2), "ctor": "list"}],
        lambda i, p: [{"op": "tee", "i": i, "n": 2}],
        lambda i, p: [{"op": "new", "src": {"k": "ref", "j": 0, "as": "same"}}],
    ]
    muts = [{"k": "clear"}, {"k": "reverse"}, {"k": "pop0"}, {"k": "poplast"}, {"k": "extend", "xs": [8, 9]},
            {"k": "fill", "v": 0}]
    for name, base, i in bases:
        for first in ("peek", "take"):
            if name == "hub" and first == "take":
                continue
            for n in (cnt_int(1), cnt_int(3), cnt_flt(2.5), {"t": "inf"}):
                if n["t"] == "inf" and name == "per":
                    continue
                for ctor in ("list", "listkw"):
                    for m in muts:
                        for fo in follows:
                            sim, ops = Sim(), []
                            seq = base + [{"op": first, "i": i, "n": n, "ctor": ctor}, {"op": "mut", "j": 0, "m": m}]
                            for op in seq:
                                ops.append(op)
                                sim.apply(op)
                            for op in fo(i, len(sim.pool)):
                                op = dict(op)
                                if name == "hub" and op["op"] == "take":
                                    op["op"] = "peek"
                                ops.append(op)
                                sim.apply(op)
                            _finish(sim, ops)
                            yield {"entry": "hist", "ops": ops}


def _shared_case(rng, tagged):
    """one list of the caller passed to several calls (Stream(L), x.append(L), thub(L, n)) in several
    flavours, the streams consumed in between; L must serve every call whole and stay what it is"""
    sim, ops = _new_sim(rng, tagged), []

    def add(op):
        ops.append(op)
        sim.apply(op)
    add({"op": "lit", "xs": _vals(rng, rng.choice([1, 2, 3, 4, 6]), sim)})
    if rng.random() < 0.5:
        add({"op": "mut", "j": 0, "m": _gen_mut(rng, sim)})
    for _ in range(rng.randint(2, 6)):
        ref = {"k": "ref", "j": 0, "as": rng.choice(REF_AS)}
        streams = sim.live("s")
        c = rng.choice(["new", "new", "append", "thub"]) if streams else rng.choice(["new", "thub"])
        if c == "new":
            add({"op": "new", "src": ref})
        elif c == "append":
            add({"op": "append", "i": rng.choice(streams), "src": ref})
        else:
            add({"op": "thub", "src": ref, "n": rng.randint(1, 3)})
        if rng.random() < 0.6 and sim.live("s"):
            i = rng.choice(sim.live("s"))
            add(_decorate(rng, sim, {"op": rng.choice(["take", "peek"]), "i": i, "n": _count(rng, sim, i, False)}))
    _finish(sim, ops, rng)
    case = {"entry": "hist", "ops": ops}
    if tagged:
        case["tagged"] = True
    return case


POW2 = [63, 64, 65, 127, 128, 129, 255, 256, 257, 511, 512, 513, 1023, 1024, 1025, 2047, 2048, 2049,
        4095, 4096, 4097]


BIG = [4095, 4096, 4097, 4098, 5000, 8191, 8192, 8193]


def _long_stream(rng, tier, turn=0):
    """thousands of items, counts around powers of two, few tees (every tee buffer stays in the
    model's heap), exact integer items all different"""
    sim, ops = Sim(), []

    def add(op):
        ops.append(op)
        return sim.apply(op)
    N = rng.choice([4095, 4096, 4097, 4098, 4100, 5000, 8192, 8193, 9000, rng.randint(4000, 9000), rng.randint(1000, 9000)])
    add({"op": "new", "src": {"k": "list", "xs": list(range(N)), "as": rng.choice(["list", "tuple", "gen", "iter"])}})
    tees = 3 if N <= 4200 else 0        # (a tee buffer over n items costs the Lean model n*n/2 steps)
    # every case starts with one call whose count lies beyond 4096 (the kinds take turns)
    big = rng.choice(BIG) if rng.random() < 0.8 else rng.choice(POW2[6:])
    kind = ["take", "limit", "skip", "peek"][turn % 4]
    if kind == "peek" and tees == 0:
        kind = "take"
    if kind in ("take", "peek"):
        add({"op": kind, "i": 0, "n": cnt_int(big) if rng.random() < 0.8 else cnt_flt(big + 0.5),
             "ctor": rng.choice(["list", "list", "cap", "tuple"])})
        tees -= kind == "peek"
    else:
        add({"op": kind, "i": 0, "n": cnt_int(big) if rng.random() < 0.8 else cnt_flt(big + 0.25)})
        if kind == "limit":
            add({"op": "take", "i": 0, "n": cnt_int(big + rng.choice([-1, 0, 1])), "ctor": "list"})
    for _ in range(rng.randint(6, 16)):
        live = sim.live("s")
        if not live:
            break
        i = rng.choice(live)
        rem = sim.remaining(i)
        c = rng.choice(POW2 if rng.random() < 0.7 else POW2[-3:] + [4098, 8191, 8192, 8193])
        if rem is not None and rem > 0 and rng.random() < 0.35:
            c = min(c, rem + rng.choice([-1, 0, 1]))
        o = rng.choice(["take"] * 6 + ["peek", "copy", "skip", "skip", "limit", "map", "filter", "append", "mut",
                        "next", "thub"])
        if o in ("peek", "copy", "thub"):
            if tees <= 0:
                o = "take"
            else:
                tees -= 1
        if o in ("take", "peek"):
            add({"op": o, "i": i, "n": cnt_int(max(c, 0)) if rng.random() < 0.8 else cnt_flt(max(c, 0) + 0.5),
                 "ctor": rng.choice(["list", "list", "cap", "tuple"])})
        elif o == "copy":
            add({"op": "copy", "i": i})
        elif o == "thub":
            add({"op": "thub", "src": {"k": "obj", "j": i}, "n": 2})
        elif o == "skip":
            add({"op": "skip", "i": i, "n": cnt_int(max(c, 0))})
        elif o == "limit":
            add({"op": "limit", "i": i, "n": cnt_int(max(rem or 0, 0) + rng.choice([-65, -1, 0, 1, 64]) if rem else c)})
        elif o == "map":
            add({"op": "map", "i": i, "f": rng.choice([0, 2, 5]), "fl": rng.choice(FL.FN_FLAVOURS)})
        elif o == "filter":
            add({"op": "filter", "i": i, "p": rng.choice([0, 3, 4])})
        elif o == "append":
            if sim.lists and rng.random() < 0.6:
                add({"op": "append", "i": i, "src": {"k": "ref", "j": rng.randrange(len(sim.lists)), "as": "same"}})
            else:
                add({"op": "append", "i": i, "src": {"k": "list", "xs": list(range(-1, -1 - rng.choice(POW2[:9]), -1))}})
        elif o == "mut":
            mutable = [j for j, L in enumerate(sim.lists) if L["mutable"] and not L["lent"]]
            if mutable:
                add({"op": "mut", "j": rng.choice(mutable), "m": {"k": rng.choice(["clear", "reverse", "pop0", "poplast"])}})
        else:
            add({"op": "next", "i": i})
    _finish(sim, ops, rng)
    return {"entry": "hist", "ops": ops, "cap": 30000, "slow": True, "long": "stream"}


def _long_history(rng, tier):
    """hundreds of steps on a pool of short streams (the wrappers nest hundreds deep)"""
    steps = rng.choice([300, 500, 800]) if tier == "quick" else rng.choice([500, 1000, 2000])
    return _hist(rng, steps, rng.random() < 0.3, rng.random() < 0.3, tees=[rng.randint(8, 24)],
                 cap=30000, slow=True, long="history")


def _peek_loop(rng, n):
    """the same few calls repeated n times on one stream (peek / take / append of what was taken)"""
    ops = [{"op": "new", "src": {"k": "list", "xs": list(range(6))}}]
    for k in range(n):
        ops.append({"op": "peek", "i": 0, "n": cnt_int(rng.randint(1, 3)), "ctor": "list"})
        ops.append({"op": "mut", "j": 2 * k, "m": {"k": rng.choice(["reverse", "clear", "pop0"])}})
        ops.append({"op": "take", "i": 0, "n": cnt_int(1), "ctor": "list"})
        ops.append({"op": "append", "i": 0, "src": {"k": "ref", "j": 2 * k + 1, "as": "same"}})
    ops.append({"op": "drain", "i": 0})
    return {"entry": "hist", "ops": ops, "cap": 30000, "slow": True, "long": "loop"}


def generate(rng, tier, scale=1):
    cases = []
    if tier == "quick":
        nrand, maxlen, depth, nhist, nlong = 4000 * scale, 14, 3, 4500 * scale, 10 * scale
        ncalls, nx = 3000 * scale, 2500 * scale
    else:
        nrand, maxlen, depth, nhist, nlong = 40000 * scale, 40, 4, 40000 * scale, 40 * scale
        ncalls, nx = 30000 * scale, 30000 * scale
    if scale == 1:
        cases.extend(_exhaustive(depth))
        cases.extend(_owner_cases())
        cases.extend(_tie_cases())
    for k in range(nx):
        cases.append(RX.history(rng, rng.randint(3, 12), copies=(k % 2 == 1)))
    for k in range(ncalls):
        cases.append(_calls(rng, rng.randint(3, maxlen), (k % 5) >= 3, tagged=(k % 4 == 3)))
    for k in range(nrand):
        wild = (k % 5) >= 3
        cases.append(_history(rng, rng.randint(3, maxlen), wild))
    for k in range(nhist):
        wild = (k % 5) >= 3
        cases.append(_hist(rng, rng.randint(3, maxlen), wild, tagged=(k % 3 == 2)))
    for k in range(nhist // 10):
        cases.append(_shared_case(rng, tagged=(k % 3 == 2)))
    turn = rng.randrange(4)
    for k in range(nlong):
        cases.append(_long_stream(rng, tier, turn + 2 * k))
        cases.append(_long_stream(rng, tier, turn + 2 * k + 1))
        cases.append(_long_history(rng, tier))
    for k in range(max(nlong // 2, 1)):
        cases.append(_peek_loop(rng, rng.choice([60, 200, 500]) if tier == "quick" else rng.choice([500, 1000, 2000])))
    return cases


def request(case):
    return case


def regenerate(eng=None):
    """translator (harness/props/c03_tr.py): lean/ALV/Gen/C03Src.lean is rewritten from audiolazy/lazy_stream.py and
    audiolazy/lazy_itertools.py"""
    return TR.regenerate(eng)


def _translator_checks(eng):
    import os, subprocess
    rel = "lean/" + TR.GEN_REL.replace(os.sep, "/")
    good = subprocess.run(["git", "-C", common.VERIF, "show", "HEAD:" + rel], capture_output=True, text=True, timeout=30)
    committed = good.stdout if good.returncode == 0 and good.stdout else None
    try:
        text = TR.read_source()
    except Exception as e:
        yield ("translator-selftest", False, "source not readable: %r" % (e,))
        return
    for item in TR.selftest(text, committed):
        yield item
    try:
        progs, sigs = TR.parse(text)
        done = ["Stream." + m for m in TR.STREAM_METHODS] + ["StreamTeeHub." + m for m in TR.HUB_DEFS + TR.HUB_LAMBDAS] + [
            "StreamTeeHub.__init__", "thub", "lazy_itertools.tee", "Stream.__init__"]
    except Exception as e:
        done = "translation failed: %s" % e
    eng.extra["translated"] = {
        "translator": "harness/props/c03_tr.py -> " + rel + " (deep embedding ALV.C03.Src.Body / HubBody, interpreter "
                      "ALV.C03.Src.stepP in lean/ALV/Model/C03Src.lean)",
        "under_translator": done,
        "theorems": ["src_take_mode_is_model", "src_take_is_model", "src_copy_is_model", "src_hub_copy_is_model",
                     "src_peek_is_model", "src_skip_is_model", "src_limit_is_model", "src_append_is_model",
                     "src_map_is_model", "src_filter_is_model", "src_hub_methods_are_model", "src_hub_init_is_model",
                     "src_thub_is_model", "src_tee_is_model", "src_tee_call_is_model", "src_init_is_model", "src_step_is_model",
                     "src_signatures_are_model"],
        "not_translated": TR.NOT_TRANSLATED,
    }


def extra_checks(eng):
    for item in _translator_checks(eng):
        yield item
    for item in _del_checks(eng):
        yield item


def _del_checks(eng):
    """StreamTeeHub.__del__ (an object-lifetime effect, outside the Lean model): a hub that dies with k unused
    copies warns once, naming k, and lets them go; a hub whose copies were all used is silent"""
    from audiolazy import Stream, thub
    try:
        from audiolazy.lazy_stream import MemoryLeakWarning
    except ImportError:
        MemoryLeakWarning = Warning
    bad = []
    for n in range(0, 4):
        for used in range(0, n + 1):
            h = thub([1, 2, 3], n)
            got = [Stream(h).take(2) for _ in range(used)]
            with warnings.catch_warnings(record=True) as w:
                warnings.simplefilter("always")
                h.__del__()
                first = [str(x.message) for x in w if issubclass(x.category, MemoryLeakWarning)]
                h.__del__()
                again = len([x for x in w if issubclass(x.category, MemoryLeakWarning)]) - len(first)
            left = n - used
            want = ["StreamTeeHub requesting %d more copies than needed" % left] if left else []
            try:
                Stream(h)
                after = "a use"
            except IndexError:
                after = "IndexError"
            if first != want or again != 0 or _uses(h) != 0 or after != "IndexError" or got != [[1, 2]] * used:
                bad.append((n, used, first, again, _uses(h), after))
    yield ("thub-del-warns-once-with-the-number-of-unused-copies(10)", not bad, "n, used, warnings, again, left, then: %r" % (bad[:3],))


# ----------------------------------------------------------------------------------------
# comparison
# ----------------------------------------------------------------------------------------
def _first_diff(a, b):
    for k in range(max(len(a), len(b))):
        x = a[k] if k < len(a) else None
        y = b[k] if k < len(b) else None
        if x != y:
            return k, x, y
    return None


def _lent_cut(case, model):
    """first step that leaves the list model: the caller mutates a list that he has passed to a
    stream before (the real code reads a list argument lazily; the model took its contents at the
    call) — computed from the model's own observations, so that it also holds for every candidate
    of the shrinker"""
    if case.get("entry") not in ("hist", "calls"):
        return None
    nlists, lent = 0, set()
    for k, op in enumerate(case["ops"]):
        if k >= len(model):
            break
        if op["op"] == "mut" and op["j"] in lent:
            return k
        src = op.get("src")
        if src and src.get("k") == "ref" and src["j"] < nlists:
            lent.add(src["j"])
        if op["op"] == "lit" or "v" in model[k]:
            nlists += 1
    return None


def _cut(case, steps, drv):
    # a request on which the real code and the model both do not terminate (filter that rejects a
    # whole period of an endless stream, list() of an endless stream) is outside the property:
    # the history is compared up to that step only
    cut = next((k for k, (a, b) in enumerate(zip(steps, drv["model"])) if a == b == {"hang": True}), None)
    lc = _lent_cut(case, drv["model"])
    if lc is not None and (cut is None or lc < cut):
        cut = lc
    return cut


def compare(case, io, drv):
    out = []
    steps = io.get("steps")
    if steps is None:
        return [("model", "impl harness failed: %r" % (io,)), ("spec", "impl harness failed")]
    if case.get("entry") == "xhist":
        # the event-list specification (`spec`) covers histories without copies (tee hands an exception to one
        # copy only): compared up to the first copy / peek.  The specification with copies (`spec_copies`:
        # event lists wherever nothing is shared, shared sequences read through views) is compared on the WHOLE
        # history, like the heap model.
        cut = next((k for k, op in enumerate(case["ops"]) if op["op"] in ("copy", "peek")), None)
        for kind, field in (("model", "model"), ("spec", "spec"), ("spec", "spec_copies")):
            a, b = (steps, drv[field]) if (cut is None or field != "spec") else (steps[:cut], drv[field][:cut])
            d = _first_diff(a, b)
            if d is not None:
                k, x, y = d
                out.append((kind, "step %d %s: impl=%s %s=%s" % (k, case["ops"][k] if k < len(case["ops"]) else None,
                                                                 _abbr(x), field, _abbr(y))))
        return out
    cut = _cut(case, steps, drv)
    for kind in ("model", "spec"):
        a, b = (steps, drv[kind]) if cut is None else (steps[:cut], drv[kind][:cut])
        d = _first_diff(a, b)
        if d is not None:
            k, x, y = d
            op = case["ops"][k] if k < len(case["ops"]) else None
            out.append((kind, "step %d %s: impl=%s %s=%s" % (k, op, _abbr(x), kind, _abbr(y))))
        elif cut is None and case.get("entry") in ("hist", "calls") and io.get("lists") != drv[kind + "_lists"]:
            out.append((kind, "the caller's containers at the end: impl=%s %s=%s" % (
                _abbr(io.get("lists")), kind, _abbr(drv[kind + "_lists"]))))
    return out


def _abbr(x, n=400):
    s = json.dumps(x, default=str)
    return s if len(s) <= n else s[:n] + "..."


def nontrivial(case, io):
    return any(("v" in s and s["v"]) or "x" in s for s in io.get("steps", []))


def _summ(x):
    if x is None:
        return "nothing"
    for k in ("alias", "dirty", "dirtyarg", "ctype"):
        if k in x:
            return k
    if "err" in x:
        return "err=" + x["err"].split(":")[0]
    if "hang" in x:
        return "hang"
    return sorted(x)[0] if x else "nothing"


def classify(case, io, drv):
    steps = io.get("steps") or []
    if case.get("entry") == "xhist":
        d = _first_diff(steps, drv["model"])
        if d is None:
            return "raising-elements:spec-only"
        k, x, y = d
        return "raising-elements:%s:impl:%s:expected:%s" % (case["ops"][k]["op"] if k < len(case["ops"]) else "?",
                                                            _summ(x), _summ(y))
    cut = _cut(case, steps, drv)
    if cut is not None:
        steps, drv = steps[:cut], dict(drv, model=drv["model"][:cut], spec=drv["spec"][:cut])
    d = _first_diff(steps, drv["spec"]) or _first_diff(steps, drv["model"])
    if d is None:
        if cut is None and case.get("entry") in ("hist", "calls") and io.get("lists") != drv.get("spec_lists"):
            return "final-contents-of-the-callers-containers"
        return "no-difference"
    k, x, y = d
    ops = case["ops"]
    sim, note = Sim(bool(case.get("tagged"))), {}
    for op in ops[:k + 1]:
        note = sim.apply(op)
    o = ops[k]["op"] if k < len(ops) else "?"
    if x is not None and x.get("err") == "RuntimeError" and note:
        flags = note.get("flags") or []
        if flags and o in ("take", "peek", "next", "drain"):
            return "consume-after-%s:RuntimeError" % flags[0]
        if note.get("past_end") and o in ("take", "peek"):
            return "%s:past-end:RuntimeError" % o
    if note.get("lazyhub") or "lazyhub" in (note.get("flags") or []):
        return "thub-among-several-arguments:use-taken-lazily"
    return "%s:%s:impl:%s:expected:%s" % (o, note.get("kind", "-"), _summ(x), _summ(y))


def _bucket(n):
    for b in (4, 8, 16, 32, 64, 128, 256, 512, 1024, 2048, 4096):
        if n <= b:
            return "<=%d" % b
    return ">4096"


def tally(eng, case, io):
    if case.get("entry") == "xhist":
        eng.count("entry", "xhist" + (":with copies" if any(op["op"] in ("copy", "peek") for op in case["ops"]) else ""))
        RX.tally(eng, case, io)
        return
    ops = case["ops"]
    steps = io.get("steps", [])
    hist = case.get("entry") in ("hist", "calls")
    eng.count("entry", case.get("entry") + (":tagged" if case.get("tagged") else "") +
              (":long-" + case["long"] if case.get("long") else ""))
    eng.count("history_len", min(len(ops) // 5 * 5, 60) if len(ops) < 60 else _bucket(len(ops)))
    sim = Sim(bool(case.get("tagged")))
    longest = 0
    for k, op in enumerate(ops):
        note = sim.apply(op)
        ob = steps[k] if k < len(steps) else None
        kind = note.get("kind", "-")
        eng.count("op", op["op"] + ("@hub" if kind == "h" else "@raw-subclass" if kind == "r" else ""))
        if op.get("call"):
            CL.tally(eng, op, ob)
        if "n" in op and isinstance(op["n"], dict) and not op.get("call"):
            t = op["n"]["t"]
            if t == "int":
                v = op["n"]["v"]
                t = "int<0" if v < 0 else ("int=0" if v == 0 else "int>0")
                if v >= 60:
                    eng.count("count_near_pow2", min(POW2, key=lambda p: abs(p - v)) if any(abs(p - v) <= 1 for p in POW2) else "other")
            elif t == "flt":
                x = cnt_py(op["n"])
                t = "flt.5" if x % 1 == 0.5 else ("flt<=0" if x <= 0 else "flt")
            eng.count("count_kind", op["op"] + ":" + t)
            if note.get("past_end"):
                eng.count("past_end", op["op"])
        if ob is not None:
            eng.count("observation", "err:" + ob["err"].split(":")[0] if "err" in ob else sorted(ob)[0])
            if "v" in ob:
                longest = max(longest, len(ob["v"]))
        if op.get("src"):
            eng.count("source", op["op"] + ":" + op["src"]["k"])
        if hist:
            src = op.get("src") or {}
            if src.get("as"):
                eng.count("source_flavour", ("ref:" if src["k"] == "ref" else "") + src["as"])
            if op.get("raw"):
                eng.count("source_flavour", "raw Stream subclass in the pool")
            if op.get("ctor"):
                eng.count("constructor", op["op"] + ":" + op["ctor"])
            if op.get("via"):
                eng.count("drain_via", op["via"])
            if op.get("fl"):
                eng.count("function_flavour", op["fl"])
            if op["op"] == "mut":
                eng.count("caller_mutation", op["m"]["k"] + " of a " + str(note.get("origin", "missing")) + " result"
                          if note.get("origin") != "lit" else op["m"]["k"] + " of an own list")
    if hist:
        for L in sim.lists:
            eng.count("caller_list_passed", min(L["passes"], 4))
        if case.get("tagged"):
            tags = {x[1] for op in ops for x in (op.get("xs") or (op.get("src") or {}).get("xs") or []) if isinstance(x, list)}
            for t in tags:
                eng.count("item_representation", FL.TAG_NAMES[t])
        eng.count("longest_container", _bucket(longest))
    eng.count("pool_size", min(len(sim.pool), 12))
    eng.count("endless_objects", min(sum(1 for o in sim.pool if o and o["per"]), 4))
    if any(st.get("err") == "RuntimeError" for st in steps):
        eng.count("impl_runtimeerror_history", True)


# ----------------------------------------------------------------------------------------
# shrinking / neighbours
# ----------------------------------------------------------------------------------------
def _drop(ops, notes, ks):
    """the history without the steps `ks`, the pool / list indices of the later steps renumbered
    (None when a later step names an object that one of the dropped steps created)"""
    out = list(ops)
    for k in sorted(ks, reverse=True):
        n = notes[k]
        p0, p1, l0, l1 = n["pool0"], n["pool1"], n["list0"], n["list1"]
        rest = []
        for op in out[k + 1:]:
            if p1 > p0:
                if "i" in op:
                    if p0 <= op["i"] < p1:
                        return None
                    if op["i"] >= p1:
                        op = dict(op, i=op["i"] - (p1 - p0))
                src = op.get("src")
                if src and src["k"] in ("obj", "mixed"):
                    if p0 <= src["j"] < p1:
                        return None
                    if src["j"] >= p1:
                        op = dict(op, src=dict(src, j=src["j"] - (p1 - p0)))
                cargs = (op.get("args") or []) + ([op["data"]] if "data" in op else [])
                if any(a["k"] == "obj" and p0 <= a["j"] < p1 for a in cargs):
                    return None
                if any(a["k"] == "obj" and a["j"] >= p1 for a in cargs):
                    def _ren(a):
                        return dict(a, j=a["j"] - (p1 - p0)) if (a["k"] == "obj" and a["j"] >= p1) else a
                    if "args" in op:
                        op = dict(op, args=[_ren(a) for a in op["args"]])
                    if "data" in op:
                        op = dict(op, data=_ren(op["data"]))
            if l1 > l0:
                if op["op"] == "mut":
                    if l0 <= op["j"] < l1:
                        return None
                    if op["j"] >= l1:
                        op = dict(op, j=op["j"] - (l1 - l0))
                src = op.get("src")
                if src and src["k"] == "ref":
                    if l0 <= src["j"] < l1:
                        return None
                    if src["j"] >= l1:
                        op = dict(op, src=dict(src, j=src["j"] - (l1 - l0)))
            rest.append(op)
        out = out[:k] + rest
    return out


def _plain(case):
    """the same history without operand flavours"""
    ops = []
    for op in case["ops"]:
        op = {k: v for k, v in op.items() if k not in ("fl", "via", "raw")}
        if op.get("ctor") not in (None, "list"):
            op["ctor"] = "list"
        if op.get("src") and op["src"].get("as") not in (None, "same"):
            op["src"] = dict(op["src"])
            op["src"]["as"] = "same" if op["src"]["k"] == "ref" else "list"
        ops.append(op)
    return dict(case, ops=ops)


def _untag(case):
    def it(x):
        return x[0] if isinstance(x, list) else x

    def src(s):
        s = dict(s)
        if "xs" in s:
            s["xs"] = [it(x) for x in s["xs"]]
        if "xss" in s:
            s["xss"] = [[it(x) for x in xs] for xs in s["xss"]]
        if "v" in s:
            s["v"] = it(s["v"])
        for f in ("pre", "post"):
            if f in s:
                s[f] = [it(x) for x in s[f]]
        return s
    ops = []
    for op in case["ops"]:
        op = dict(op)
        if "xs" in op:
            op["xs"] = [it(x) for x in op["xs"]]
        if "src" in op:
            op["src"] = src(op["src"])
        if "m" in op:
            op["m"] = src(op["m"])
        ops.append(op)
    c = dict(case, ops=ops)
    c.pop("tagged", None)
    return c


def shrink(case):
    """candidates in the order: prefixes, blocks of steps, flavours, single steps, smaller operands
    (counts and lists by powers of two first).  Big cases (long runs) offer fewer candidates per
    round: each costs the model up to a second"""
    limit = 200 if len(json.dumps(case)) < 20000 else 48
    for c in itertools.islice(_shrink(case), limit):
        yield c


def _shrink_x(case):
    ops = case["ops"]
    n = len(ops)
    for k in sorted({n // 2, n * 3 // 4, n - 2, n - 1}):
        if 0 < k < n:
            yield dict(case, ops=ops[:k])
    creates = [op["op"] in ("new", "copy", "attr") for op in ops]
    for k in range(n - 1, -1, -1):
        if not creates[k]:
            yield dict(case, ops=ops[:k] + ops[k + 1:])
    for k, op in enumerate(ops):
        if isinstance(op.get("es"), list) and op["es"]:
            yield dict(case, ops=ops[:k] + [dict(op, es=op["es"][:-1])] + ops[k + 1:])
            yield dict(case, ops=ops[:k] + [dict(op, es=op["es"][1:])] + ops[k + 1:])


def _shrink(case):
    if case.get("entry") == "xhist":
        for c in _shrink_x(case):
            yield c
        return
    ops = case["ops"]
    n = len(ops)
    seen = set()

    def emit(c):
        if c is None:
            return False
        k = json.dumps(c, sort_keys=True)
        if k in seen:
            return False
        seen.add(k)
        return True
    # 1. prefixes (no renumbering needed), coarse to fine
    for k in sorted({n // 2, n * 3 // 4, n * 7 // 8, n - 2, n - 1}):
        if 0 < k < n:
            c = dict(case, ops=ops[:k])
            if emit(c):
                yield c
    # 2. blocks of steps, indices of the later steps renumbered
    notes, _sim = _notes(case)
    size = n // 2
    budget = 40
    while size >= 2 and budget > 0:
        for a in range(0, n, size):
            o2 = _drop(ops, notes, range(a, min(a + size, n)))
            c = None if o2 is None else dict(case, ops=o2)
            if emit(c):
                budget -= 1
                yield c
        size //= 2
    # 3. flavours
    if case.get("tagged") and case.get("entry") != "calls":
        c = _untag(case)
        if emit(c):
            yield c
    c = _plain(case)
    if emit(c):
        yield c
    # 4. single steps, last first
    singles = 0
    for k in range(n - 1, -1, -1):
        o2 = _drop(ops, notes, [k])
        c = None if o2 is None else dict(case, ops=o2)
        if emit(c):
            singles += 1
            yield c
            if singles >= 90:
                break
    # 5. smaller operands
    for k, op in enumerate(ops):
        def put(new):
            return dict(case, ops=ops[:k] + [new] + ops[k + 1:])
        src = op.get("src")
        for holder, key in ((op, None), (src, "src"), (op.get("m"), "m")):
            if not holder or not isinstance(holder.get("xs"), list):
                continue
            xs = holder["xs"]
            floor = 2 if holder.get("k") == "cyc" else 0
            big = [xs[:len(xs) - (1 << b)] for b in range(12, 0, -1) if (1 << b) < len(xs)] if len(xs) > 8 else []
            for ys in ([xs[:len(xs) // 2]] if len(xs) > 8 else []) + big + [xs[:-1], xs[1:]]:
                if len(ys) >= floor and len(ys) < len(xs):
                    h2 = dict(holder, xs=ys)
                    c = put(h2 if key is None else dict(op, **{key: h2}))
                    if emit(c):
                        yield c
        if src and src["k"] == "mixed":
            for c in (put(dict(op, src={"k": "obj", "j": src["j"]})), put(dict(op, src=dict(src, pre=[]))),
                      put(dict(op, src=dict(src, post=[])))):
                if emit(c):
                    yield c
        if src and src["k"] == "chain":
            c = put(dict(op, src={"k": "list", "xs": [x for xs in src["xss"] for x in xs]}))
            if emit(c):
                yield c
        for f in ("fl", "via", "raw"):
            if f in op:
                c = put({a: b for a, b in op.items() if a != f})
                if emit(c):
                    yield c
        if src and src.get("as") not in (None, "same", "list"):
            c = put(dict(op, src=dict(src, **{"as": "same" if src["k"] == "ref" else "list"})))
            if emit(c):
                yield c
        cnt = op.get("n")
        if isinstance(cnt, dict) and cnt["t"] == "int" and cnt["v"] > 0:
            big = [cnt["v"] - (1 << b) for b in range(12, 0, -1) if (1 << b) < cnt["v"]] if cnt["v"] > 8 else []
            for v in ([cnt["v"] // 2] if cnt["v"] > 8 else []) + big + [cnt["v"] - 1]:
                c = put(dict(op, n=cnt_int(v)))
                if emit(c):
                    yield c
        if isinstance(cnt, int) and cnt > 1 and op["op"] in ("thub", "tee"):
            c = put(dict(op, n=cnt - 1))
            if emit(c):
                yield c


def neighbours(case):
    ops = case["ops"]
    if case.get("entry") == "xhist":
        for k in range(len(ops)):
            if ops[k]["op"] not in ("new", "copy", "attr"):
                yield dict(case, ops=ops[:k] + ops[k + 1:])
        return
    for k, op in enumerate(ops):
        c = op.get("n") if not op.get("call") else None
        if isinstance(c, dict) and c["t"] == "int":
            for d in (-1, 1):
                yield dict(case, ops=ops[:k] + [dict(op, n=cnt_int(c["v"] + d))] + ops[k + 1:])
        if isinstance(c, dict) and c["t"] == "flt":
            x = cnt_py(c)
            for y in (int(x), int(x) + 1, x + 1):
                yield dict(case, ops=ops[:k] + [dict(op, n=cnt_flt(y) if isinstance(y, float) else cnt_int(y))] + ops[k + 1:])
    for k in range(len(ops)):
        yield dict(case, ops=ops[:k] + ops[k + 1:])
