"""C14 — translator T2b: the LOOP `_generate_window_strategies` of audiolazy/lazy_analysis.py -> lean/ALV/Gen/C14Src.lean.

The function is read with `ast` (the repo is not imported) and emitted as a VALUE of the program type
`ALV.C14.Loop.Prog` (lean/ALV/Model/C14Loop.lean: deep embedding + interpreter on the state of the hand-written
model).  `Props/C14.lean` proves about the emitted value

    src_generate_window_strategies_is_model : ALV.Gen.C14.generateWindowStrategies = ALV.C14.Loop.model        (rfl)
    src_generate_window_strategies_row      : every iteration of the regenerated loop is `genStep` (all states, all rows)
    src_generated_is_model                  : the regenerated loop run on the regenerated table = `generated`  (decide)

Accepted subset (anything else in the function is a TranslationError = broken obligation):

    def _generate_window_strategies():                       no parameters, no decorators
      "docstring"                                            dropped
      for W in <obj>.<attr>:                                 Prog.table
        N = W["<field>"]                                     bindNames
        S = W["<key>"] = N[<int>]                            bindSname          (either target order)
        W.setdefault("<field>", "<str>")                     setDefault
        for D in [<dict>, ...]:                              forDicts
          DD = window._doc_kwargs(symm = <dict> is <dict>, **W)      docs
          DS = [format_docstring(**DD), <dict>.strategy(*N)]         decorators
          NS = dict(k = name, ...)                                   nsBind
          exec(<dict>._code_template.format(**W), NS, NS)            exec
          reduce(lambda f, d: d(f), DS, <func>)                      applyDecorators
          if not W.get("<field>", <bool>):                           ifNotFlag (no else)
            <dict>[S] = <func>                                       setItem
            break                                                    brk
        <func>.<attr> = <func>.<attr> = <func>               setAttr (chained)

    <dict> ::= window | wsymm | D          <func> ::= NS[S] | <dict>[S]

Local variable names (W, N, S, D, DD, DS, NS, the lambda's parameters) are normalised away (bound by role);
comments, whitespace, the docstring and `pass` are dropped.  Module-level context that is emitted with the
program: the import each global name the function reads comes from (`from math import sin, cos, pi`, ...), and how
often the module calls the function after the table / templates exist.
"""
import ast, os, warnings

import common

GEN_REL = os.path.join("ALV", "Gen", "C14Src.lean")
SRC_REL = os.path.join("audiolazy", "lazy_analysis.py")
FUNC = "_generate_window_strategies"
DICTS = ("window", "wsymm")
BUILTINS = ("dict", "exec", "__name__")


class TranslationError(Exception):
    pass


def _bad(node, what):
    raise TranslationError("%s: line %s: %s" % (what, getattr(node, "lineno", "?"), ast.dump(node)[:120]))


def _s(x):
    if not isinstance(x, str) or any(ord(ch) < 32 or ord(ch) > 126 or ch in '"\\' for ch in x):
        raise TranslationError("string %r not representable" % (x,))
    return '"%s"' % x


class _Loop:
    def __init__(self):
        self.roles = {}          # local variable -> role
        self.used = []           # global names read (Name nodes that are no local / dictionary / builtin)

    def role(self, node, role):
        return isinstance(node, ast.Name) and self.roles.get(node.id) == role

    def bind(self, node, role):
        if not isinstance(node, ast.Name) or node.id in DICTS or node.id in BUILTINS:
            _bad(node, "unsupported assignment target")
        if node.id in self.roles and self.roles[node.id] != role:
            _bad(node, "local variable reused for another purpose")
        self.roles[node.id] = role

    def glob(self, name):
        if name not in self.used:
            self.used.append(name)

    # --- expressions ------------------------------------------------------------------------------
    def de(self, node):
        if isinstance(node, ast.Name):
            if self.roles.get(node.id) == "sdict":
                return ".sdict"
            if node.id in DICTS and node.id not in self.roles:
                return "." + node.id
        _bad(node, "not a dictionary expression (window / wsymm / the inner loop variable)")

    def fe(self, node):
        if isinstance(node, ast.Subscript) and self.role(node.slice, "sname"):
            if self.role(node.value, "ns"):
                return ".ns"
            return "(.item %s)" % self.de(node.value)
        _bad(node, "not a function expression (ns[sname] / <dict>[sname])")

    def starstar(self, call, role, npos=0):
        """the call has exactly `npos` positional arguments and ends with `**<variable of that role>`"""
        return (len(call.args) == npos and call.keywords and call.keywords[-1].arg is None
                and self.role(call.keywords[-1].value, role))

    def dec(self, node):
        if isinstance(node, ast.Call):
            f = node.func
            if (isinstance(f, ast.Name) and f.id == "format_docstring" and f.id not in self.roles
                    and len(node.keywords) == 1 and self.starstar(node, "docs")):
                self.glob(f.id)
                return ".formatDocstring"
            if (isinstance(f, ast.Attribute) and f.attr == "strategy" and not node.keywords and len(node.args) == 1
                    and isinstance(node.args[0], ast.Starred) and self.role(node.args[0].value, "names")):
                return "(.strategy %s)" % self.de(f.value)
        _bad(node, "unsupported decorator")

    # --- statements -------------------------------------------------------------------------------
    def simple(self, s, row):
        """-> Lean term of type Simple, or None when `s` is no simple statement"""
        if isinstance(s, ast.Break):
            return ".brk"
        if isinstance(s, ast.Expr) and isinstance(s.value, ast.Call):
            c = s.value
            f = c.func
            # W.setdefault("field", "value")
            if (isinstance(f, ast.Attribute) and f.attr == "setdefault" and self.role(f.value, "row") and not c.keywords
                    and len(c.args) == 2 and all(isinstance(a, ast.Constant) and isinstance(a.value, str) for a in c.args)):
                return "(.setDefault %s %s)" % (_s(c.args[0].value), _s(c.args[1].value))
            # exec(<dict>._code_template.format(**W), NS, NS)
            if isinstance(f, ast.Name) and f.id == "exec" and f.id not in self.roles:
                if (len(c.args) == 3 and not c.keywords and self.role(c.args[1], "ns") and self.role(c.args[2], "ns")
                        and isinstance(c.args[0], ast.Call) and isinstance(c.args[0].func, ast.Attribute)
                        and c.args[0].func.attr == "format" and isinstance(c.args[0].func.value, ast.Attribute)
                        and c.args[0].func.value.attr == "_code_template"
                        and len(c.args[0].keywords) == 1 and self.starstar(c.args[0], "row")):
                    return "(.exec %s)" % self.de(c.args[0].func.value.value)
                _bad(s, "unsupported exec")
            # reduce(lambda func, dec: dec(func), DS, <func>)
            if isinstance(f, ast.Name) and f.id == "reduce" and f.id not in self.roles:
                lam = c.args[0] if c.args else None
                if (len(c.args) == 3 and not c.keywords and isinstance(lam, ast.Lambda)
                        and [a.arg for a in lam.args.args] and len(lam.args.args) == 2 and not lam.args.defaults
                        and not (lam.args.vararg or lam.args.kwarg or lam.args.kwonlyargs or lam.args.posonlyargs)
                        and lam.args.args[0].arg != lam.args.args[1].arg
                        and isinstance(lam.body, ast.Call) and not lam.body.keywords and len(lam.body.args) == 1
                        and isinstance(lam.body.func, ast.Name) and lam.body.func.id == lam.args.args[1].arg
                        and isinstance(lam.body.args[0], ast.Name) and lam.body.args[0].id == lam.args.args[0].arg
                        and self.role(c.args[1], "decs")):
                    self.glob("reduce")
                    return "(.applyDecorators %s)" % self.fe(c.args[2])
                _bad(s, "unsupported reduce")
            _bad(s, "unsupported call statement")
        if isinstance(s, ast.Assign):
            v, ts = s.value, s.targets
            # N = W["field"]
            if (len(ts) == 1 and isinstance(ts[0], ast.Name) and isinstance(v, ast.Subscript) and self.role(v.value, "row")
                    and isinstance(v.slice, ast.Constant) and isinstance(v.slice.value, str)):
                self.bind(ts[0], "names")
                return "(.bindNames %s)" % _s(v.slice.value)
            # S = W["key"] = N[idx]
            if (len(ts) == 2 and isinstance(v, ast.Subscript) and self.role(v.value, "names")
                    and isinstance(v.slice, ast.Constant) and type(v.slice.value) is int and v.slice.value >= 0):
                nm = [t for t in ts if isinstance(t, ast.Name)]
                st = [t for t in ts if isinstance(t, ast.Subscript) and self.role(t.value, "row")
                      and isinstance(t.slice, ast.Constant) and isinstance(t.slice.value, str)]
                if len(nm) == 1 and len(st) == 1:
                    self.bind(nm[0], "sname")
                    return "(.bindSname %s %d)" % (_s(st[0].slice.value), v.slice.value)
            # DD = window._doc_kwargs(symm = <dict> is <dict>, **W)
            if (len(ts) == 1 and isinstance(v, ast.Call) and isinstance(v.func, ast.Attribute) and v.func.attr == "_doc_kwargs"):
                k = v.keywords
                if (isinstance(v.func.value, ast.Name) and v.func.value.id == "window" and "window" not in self.roles
                        and len(k) == 2 and self.starstar(v, "row") and k[0].arg == "symm"
                        and isinstance(k[0].value, ast.Compare) and len(k[0].value.ops) == 1
                        and isinstance(k[0].value.ops[0], ast.Is)):
                    a, b = self.de(k[0].value.left), self.de(k[0].value.comparators[0])
                    self.bind(ts[0], "docs")
                    return "(.docs %s %s)" % (a, b)
                _bad(s, "unsupported _doc_kwargs call")
            # DS = [decorator, ...]
            if (len(ts) == 1 and isinstance(v, ast.List) and v.elts and all(isinstance(e, ast.Call) for e in v.elts)
                    and isinstance(ts[0], ast.Name)):
                ds = [self.dec(e) for e in v.elts]
                self.bind(ts[0], "decs")
                return "(.decorators [%s])" % ", ".join(ds)
            # NS = dict(k = name, ...)
            if (len(ts) == 1 and isinstance(v, ast.Call) and isinstance(v.func, ast.Name) and v.func.id == "dict"
                    and "dict" not in self.roles and isinstance(ts[0], ast.Name)):
                if v.args or any(k.arg is None or not isinstance(k.value, ast.Name) or k.value.id in self.roles
                                 for k in v.keywords) or len({k.arg for k in v.keywords}) != len(v.keywords):
                    _bad(s, "unsupported namespace")
                for k in v.keywords:
                    if k.value.id not in BUILTINS:
                        self.glob(k.value.id)
                self.bind(ts[0], "ns")
                return "(.nsBind [%s])" % ", ".join("(%s, %s)" % (_s(k.arg), _s(k.value.id)) for k in v.keywords)
            # <dict>[S] = <func>
            if len(ts) == 1 and isinstance(ts[0], ast.Subscript) and self.role(ts[0].slice, "sname"):
                return "(.setItem %s %s)" % (self.de(ts[0].value), self.fe(v))
            # <func>.<attr> = <func>.<attr> = <func>
            if ts and all(isinstance(t, ast.Attribute) for t in ts) and len({t.attr for t in ts}) == 1:
                val = self.fe(v)
                return "(.setAttr %s [%s] %s)" % (_s(ts[0].attr), ", ".join(self.fe(t.value) for t in ts), val)
            _bad(s, "unsupported assignment")
        return None

    @staticmethod
    def strip(stmts):
        return [s for s in stmts if not isinstance(s, ast.Pass) and not (
            isinstance(s, ast.Expr) and isinstance(s.value, ast.Constant) and isinstance(s.value.value, str))]

    def inner(self, s):
        if isinstance(s, ast.If):
            t = s.test
            if (not s.orelse and isinstance(t, ast.UnaryOp) and isinstance(t.op, ast.Not) and isinstance(t.operand, ast.Call)
                    and isinstance(t.operand.func, ast.Attribute) and t.operand.func.attr == "get"
                    and self.role(t.operand.func.value, "row") and not t.operand.keywords and len(t.operand.args) == 2
                    and isinstance(t.operand.args[0], ast.Constant) and isinstance(t.operand.args[0].value, str)
                    and isinstance(t.operand.args[1], ast.Constant) and type(t.operand.args[1].value) is bool):
                body = []
                for b in self.strip(s.body):
                    x = self.simple(b, None)
                    if x is None:
                        _bad(b, "unsupported statement in the if-block")
                    body.append(x)
                return "(.ifNotFlag %s %s [\n            %s])" % (
                    _s(t.operand.args[0].value), "true" if t.operand.args[1].value else "false", ",\n            ".join(body))
            _bad(s, "unsupported if")
        x = self.simple(s, None)
        if x is None:
            _bad(s, "unsupported statement in the inner loop")
        return "(.simple %s)" % x

    def outer(self, s):
        if isinstance(s, ast.For):
            if s.orelse or not isinstance(s.iter, (ast.List, ast.Tuple)) or not s.iter.elts:
                _bad(s, "unsupported inner loop")
            ds = [self.de(e) for e in s.iter.elts]           # (evaluated before the loop variable is bound)
            self.bind(s.target, "sdict")
            body = [self.inner(b) for b in self.strip(s.body)]
            return "(.forDicts [%s] [\n        %s])" % (", ".join(ds), ",\n        ".join(body))
        x = self.simple(s, None)
        if x is None or x == ".brk":
            _bad(s, "unsupported statement in the outer loop")
        return "(.simple %s)" % x

    def function(self, fn):
        a = fn.args
        if (a.args or a.vararg or a.kwarg or a.kwonlyargs or a.posonlyargs or fn.decorator_list or fn.returns
                or isinstance(fn, ast.AsyncFunctionDef)):
            _bad(fn, "the function has parameters / decorators")
        body = self.strip(fn.body)
        if len(body) != 1 or not isinstance(body[0], ast.For):
            raise TranslationError("the function body is not one for-loop")
        loop = body[0]
        it = loop.iter
        if (loop.orelse or not isinstance(it, ast.Attribute) or not isinstance(it.value, ast.Name)
                or not isinstance(loop.target, ast.Name)):
            _bad(loop, "unsupported outer loop header")
        self.bind(loop.target, "row")
        stmts = [self.outer(s) for s in self.strip(loop.body)]
        return (it.value.id, it.attr), stmts


def _module_bindings(tree):
    """module-level bindings: name -> set of origins; an origin is (module, name) of a `from … import`, or ("<…>", "")"""
    out = {}

    def add(name, origin):
        out.setdefault(name, set()).add(origin)

    def visit(stmts):
        for s in stmts:
            if isinstance(s, ast.ImportFrom):
                for al in s.names:
                    add(al.asname or al.name, ("." * s.level + (s.module or ""), al.name))
            elif isinstance(s, ast.Import):
                for al in s.names:
                    add((al.asname or al.name).split(".")[0], ("<import>", al.name))
            elif isinstance(s, (ast.FunctionDef, ast.AsyncFunctionDef, ast.ClassDef)):
                add(s.name, ("<def>", ""))
            elif isinstance(s, (ast.Assign, ast.AugAssign, ast.AnnAssign, ast.For, ast.With, ast.Delete)):
                tg = (s.targets if isinstance(s, (ast.Assign, ast.Delete)) else
                      [s.target] if not isinstance(s, ast.With) else [i.optional_vars for i in s.items if i.optional_vars])
                for t in tg:
                    for n in ast.walk(t):
                        if isinstance(n, ast.Name) and isinstance(n.ctx, (ast.Store, ast.Del)):
                            add(n.id, ("<assigned>", ""))
            for fld in ("body", "orelse", "finalbody"):
                if not isinstance(s, (ast.FunctionDef, ast.AsyncFunctionDef, ast.ClassDef)):
                    sub = getattr(s, fld, None)
                    if isinstance(sub, list):
                        visit(sub)
            for h in getattr(s, "handlers", []) or []:
                visit(h.body)
    visit(tree.body)
    return out


def translate_source(text):
    """text of lazy_analysis.py -> text of Gen/C14Src.lean"""
    with warnings.catch_warnings():
        warnings.simplefilter("ignore")
        try:
            tree = ast.parse(text)
        except SyntaxError as e:
            raise TranslationError("source does not parse: %s" % e)
    defs = [(i, n) for i, n in enumerate(tree.body) if isinstance(n, (ast.FunctionDef, ast.AsyncFunctionDef)) and n.name == FUNC]
    if len(defs) != 1:
        raise TranslationError("%d module-level definitions of %s" % (len(defs), FUNC))
    at, fn = defs[0]
    tr = _Loop()
    table, stmts = tr.function(fn)
    # module context: where the global names come from
    binds = _module_bindings(tree)
    globs = []
    for name in sorted(tr.used):
        o = binds.get(name, set())
        if len(o) != 1:
            raise TranslationError("global %r has %d module-level bindings %s" % (name, len(o), sorted(o)))
        (mod, orig), = o
        if mod.startswith("<"):
            raise TranslationError("global %r is not imported by `from … import` (%s)" % (name, mod))
        globs.append((name, mod, orig))
    for d in DICTS:
        if binds.get(d) != {("<assigned>", "")}:
            raise TranslationError("%s is not a plain module-level variable" % d)
    # module context: the calls.  Everything the loop reads must exist before (table, both templates)
    needs = []
    for i, n in enumerate(tree.body):
        if isinstance(n, ast.Assign):
            for t in n.targets:
                if (isinstance(t, ast.Attribute) and isinstance(t.value, ast.Name) and t.value.id in DICTS
                        and t.attr in ("_content_generation_table", "_code_template", "_doc_kwargs")):
                    needs.append(i)
    # the templates define ONE function, named `{sname}` (the loop takes `ns[sname]`)
    ntmpl = 0
    for n in tree.body:
        if (isinstance(n, ast.Assign) and len(n.targets) == 1 and isinstance(n.targets[0], ast.Attribute)
                and n.targets[0].attr == "_code_template"):
            ntmpl += 1
            try:
                code = ast.literal_eval(n.value).format(sname="F__", params_def="", formula="0")
                d = ast.parse(code).body
            except Exception as e:
                raise TranslationError("line %d: template is not a literal that formats / parses: %s" % (n.lineno, e))
            if len(d) != 1 or not isinstance(d[0], ast.FunctionDef) or d[0].name != "F__" or d[0].decorator_list:
                raise TranslationError("line %d: template does not define exactly the function {sname}" % n.lineno)
    if ntmpl != 2:
        raise TranslationError("%d _code_template assignments" % ntmpl)
    calls = 0
    for i, n in enumerate(tree.body):
        uses = [x for x in ast.walk(n) if isinstance(x, ast.Name) and x.id == FUNC]
        if n is fn:
            if uses:
                raise TranslationError("%s refers to itself" % FUNC)
            continue
        if not uses:
            continue
        if (isinstance(n, ast.Expr) and isinstance(n.value, ast.Call) and n.value.func in uses and len(uses) == 1
                and not n.value.args and not n.value.keywords and i > at and all(i > j for j in needs)):
            calls += 1
        else:
            raise TranslationError("line %d: unsupported use of %s" % (n.lineno, FUNC))
    out = []
    w = out.append
    w("/-\n  GENERATED by harness/props/c14_tr.py (translator T2b) from audiolazy/lazy_analysis.py:\n"
      "  the function `_generate_window_strategies` as a program of `ALV.C14.Loop` (Model/C14Loop.lean), the imports its\n"
      "  global names come from, the number of module-level calls.  Regenerated on every `./check C14 …`; do not edit by hand.\n-/")
    w("import ALV.Model.C14Loop")
    w("namespace ALV.Gen.C14")
    w("open ALV.C14.Loop\n")
    w("/-- `def _generate_window_strategies()` -/")
    w("def generateWindowStrategies : Prog :=")
    w("  { globals := [%s]," % ", ".join("(%s, %s, %s)" % (_s(a), _s(b), _s(c)) for a, b, c in globs))
    w("    table := (%s, %s)," % (_s(table[0]), _s(table[1])))
    w("    body := [\n      %s]," % ",\n      ".join(stmts))
    w("    calls := %d }\n" % calls)
    w("end ALV.Gen.C14")
    return "\n".join(out) + "\n"


def source_text(path=None):
    path = path or os.path.join(common.REPO, SRC_REL)
    return open(path, encoding="utf-8").read()


def regenerate(eng=None):
    """Rewrite lean/ALV/Gen/C14Src.lean from the repo under test; on a translation failure restore the last COMMITTED
    file (so that the build speaks about the last translatable state) and re-raise (= broken obligation)."""
    path = os.path.join(common.LEAN, GEN_REL)
    try:
        text = translate_source(source_text())
    except Exception:
        try:
            import subprocess
            good = subprocess.run(["git", "-C", common.VERIF, "show", "HEAD:lean/" + GEN_REL.replace(os.sep, "/")],
                                  capture_output=True, text=True, timeout=30)
            if good.returncode == 0 and good.stdout and (not os.path.exists(path) or open(path).read() != good.stdout):
                with open(path, "w") as f:
                    f.write(good.stdout)
        except Exception:
            pass
        raise
    old = open(path).read() if os.path.exists(path) else None
    if old != text:
        os.makedirs(os.path.dirname(path), exist_ok=True)
        with open(path, "w") as f:
            f.write(text)
        return "rewritten (%d bytes)" % len(text)
    return "unchanged (%d bytes)" % len(text)


# ---------------------------------------------------------------------------------------------
# self-test: deliberately edited copies of the source text
# ---------------------------------------------------------------------------------------------
EDITS = [
    ("attribute targets swapped (.periodic <- wsymm[sname])", "window[sname].periodic = window[sname]", "window[sname].periodic = wsymm[sname]"),
    ("alias registration dropped (strategy(sname) instead of *names)", "sdict.strategy(*names)", "sdict.strategy(names[0])"),
    ("template of the other dictionary", "exec(sdict._code_template", "exec(window._code_template"),
    ("sname from names[1]", "= names[0]", "= names[1]"),
    ("break dropped", "        wsymm[sname] = window[sname]\n        break", "        wsymm[sname] = window[sname]"),
    ("distinct defaults to False", 'wnd_dict.get("distinct", True)', 'wnd_dict.get("distinct", False)'),
    ("sin and cos exchanged in the exec namespace", "sin=sin, cos=cos", "sin=cos, cos=sin"),
    ("decorators reordered", "[format_docstring(**docs_dict), sdict.strategy(*names)]", "[sdict.strategy(*names), format_docstring(**docs_dict)]"),
    ("inner loop over [wsymm, window]", "for sdict in [window, wsymm]:", "for sdict in [wsymm, window]:"),
    ("two statements reordered (.symm before .periodic)",
     "    wsymm[sname].periodic = window[sname].periodic = window[sname]\n    wsymm[sname].symm = window[sname].symm = wsymm[sname]",
     "    wsymm[sname].symm = window[sname].symm = wsymm[sname]\n    wsymm[sname].periodic = window[sname].periodic = window[sname]"),
    ("second call of the function", "\n_generate_window_strategies()\n", "\n_generate_window_strategies()\n_generate_window_strategies()\n"),
    ("template defines another function name", "wsymm._code_template = \"\"\"\ndef {sname}(", "wsymm._code_template = \"\"\"\ndef _{sname}("),
    ("sin imported from cmath", "from math import sin, cos, pi", "from math import cos, pi\nfrom cmath import sin"),
]
HARMLESS = [
    ("comment, blank line, docstring", '  """ Create all window and wsymm strategies """', '  """ other text """\n\n  # comment'),
    ("local variables renamed", None, None),
]


def selftest(committed_text=None):
    """-> list of (name, ok, detail)"""
    res = []
    src = source_text()
    try:
        base = translate_source(src)
    except TranslationError as e:
        return [("translator-selftest: unchanged text translates", False, str(e))]
    if committed_text is not None:
        res.append(("translator-selftest: unchanged text reproduces the committed Gen/C14Src.lean byte for byte",
                    base == committed_text, "" if base == committed_text else "differs"))
    bad, n = [], 0
    for name, old, new in EDITS:
        if src.count(old) != 1:
            # (the anchor text of an edit is gone: the source under test is itself an edited one; /repo has them all)
            if committed_text is not None:
                bad.append("%s: anchor text occurs %d times" % (name, src.count(old)))
            continue
        n += 1
        try:
            if translate_source(src.replace(old, new)) == base:
                bad.append("%s: same Gen text" % name)
        except TranslationError:
            pass
    res.append(("translator-selftest: %d edited copies of the source each give a different Gen text or a TranslationError" % n,
                not bad and n >= (len(EDITS) if committed_text is not None else 6), "; ".join(bad)))
    # normalisation: harmless rewrites give the SAME text
    bad = []
    name, old, new = HARMLESS[0]
    try:
        if src.count(old) != 1 or translate_source(src.replace(old, new)) != base:
            bad.append(name)
        with warnings.catch_warnings():
            warnings.simplefilter("ignore")
            tree = ast.parse(src)
        ren = {"wnd_dict": "row", "sname": "first", "names": "nms", "sdict": "sd", "docs_dict": "dd",
               "decorators": "decs", "ns": "glb", "func": "f", "dec": "d"}
        fn = next(n for n in tree.body if isinstance(n, ast.FunctionDef) and n.name == FUNC)
        for n in ast.walk(fn):
            if isinstance(n, ast.Name) and n.id in ren:
                n.id = ren[n.id]
            if isinstance(n, ast.arg) and n.arg in ren:
                n.arg = ren[n.arg]
        if translate_source(ast.unparse(tree)) != base:
            bad.append(HARMLESS[1][0])
    except TranslationError as e:
        bad.append("TranslationError: %s" % e)
    res.append(("translator-selftest: comments / docstring / local variable names are normalised away", not bad, "; ".join(bad)))
    return res
