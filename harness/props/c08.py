"""C08 — blocks / zero_pad / Stream.blocks.

Tie.  Besides the exhaustive (len x size x hop) grid on finished list inputs, the cases are
HISTORIES around one generator, each compared with the Lean model and the Lean spec of that history:

  trace     observing source that ENDS or FAILS (raises a custom exception) after j items, j = every
            position: the blocks handed out before the failure must be exactly the complete blocks of
            the j delivered items, block k must come out when exactly k*hop+size items were pulled
            (no read-ahead), no padded block after a failure, the very exception object propagates
            (Lean: blocksTrace; theorems blocks_prefix, reads_closed, trace_fail, trace_stop).
  mut       the caller edits the yielded deque in place between two yields (item assignment, rotate,
            reverse): documented ("changing the returned contents will keep the new changed value in
            the next yielded container" when hop < size); nothing shows when hop >= size
            (Lean: blocksMut / mutSpec; theorems blocks_mut_eq_spec, mut_next_block, ...).
  live      live source whose items depend on what the caller did after each block (ControlStream
            through Stream.blocks, a generator reading a cell): the blocks are those of the sequence
            item i = value in force when nFull(i) blocks were out (Lean: blocksLive; blocks_live).
  blocks    + routes: Stream subclasses overriding __iter__ (gain-on-iterate, the ChangeableStream idiom
            of examples/keyboard.py followed by limit / append after j blocks), thub (two branches
            consumed in lock-step), tuple / deque / generator inputs, int-like size / hop types.
  zero_pad  observing / failing sources, int-like left / right, 0 and large pads.
  conc      several generators alive at once (round robin / nested / in sequence), sharing the argument
            objects: each must be the model of its own case taken alone; arguments unchanged.
  hist      calls of any of the above made one after the other in one FRESH process, mostly with ==-equal
            parameters of different types (2, Int(2), 2.0, Fraction(2), True) or the same size with another
            hop: each call is compared with the Lean model/spec of that call taken alone (the model is a pure
            function of the arguments).
  big       size / hop around 63..65, 127..129, 1023..1025, 4095..4097 with short and long inputs.
  call      the CALL as written (Lean: bind / blocksApply / streamBlocksApply / blocksCall, spec blocksCallSpec): every
            shape (each of seq / size / hop / padval positional, keyword or omitted; calls Python refuses), through
            blocks(...) and Stream.blocks(*args, **kwargs); every SPELLING of size and hop (int, bool, int subclass,
            float and Fraction whole / not whole, 0, negative, None, str, 2^63-1, 2^63, 10^30): which error, WHEN (at
            the first next(), nothing pulled; or TypeError instead of the padded block after the complete blocks), the
            blocks before it; hop <= 0 (block 0, then the source is read to its end without a block: observed with
            sources that fail after many items instead of endless ones); size 0; every SOURCE KIND (list, tuple, deque,
            dict keys, range, str; generator, iter(list), Stream, Stream subclass, thub, map object), ending or failing
            at every offset; how the run ENDS (clean stop / the source's exception object / the code's error), two
            further next() afterwards (StopIteration), the same call a second time on the same source object (a
            container gives its blocks again, an iterator is used up, a map object goes on after its function raised);
            the yielded object (one and the same deque, maxlen = size; Stream.blocks returns a Stream).
  zcall     zero_pad as written: every subset of left / right / zero positional, keyword or omitted; spellings of left /
            right (negative: no pads; float / Fraction / None / str: TypeError, for `left` before anything, for `right`
            after the whole input); huge counts with a capped read.
  mutg      the caller keeps every block (all are the same deque) and CHANGES ITS LENGTH between two yields (append,
            appendleft, pop, popleft, clear, extend, del, insert) or makes operations that FAIL (IndexError: pop from
            an empty deque, index out of range, insert into a full deque; the failed operation leaves no trace and the
            history goes on): blocks of blocksMut with applyOps, which operations failed (bloopMutFails), spec
            mutSpecG (hop <= size) / the plain blocks (hop >= size: theorem blocks_mut_ops_hop_ge_size).

Reproducibility.  `conc` and `hist` cases always run in a fresh fork of a child that was forked before this
process made its first call into the library; a plain case that disagrees is run again alone that way: if it
agrees alone, the disagreement depends on earlier calls of this process, it is reported with the signature
`state-between-calls` and the shrinker searches the earlier calls it needs (binary search on the prefix of
the process' call history, then removal of chunks) and reports the explicit `hist` case.

Items travel as TAGGED JSON (1, 1.0 and True are different items; `{"o": k}` = k-th source object,
checked by identity) so that a change that copies or casts the items is seen.
"""
import collections
import itertools as it
import json
import warnings
from fractions import Fraction

import common
from common import err_kind
from props import c08_tr

ID = "C08"
RULE = ("exhaustive (len x size x hop x route) grid on finished inputs, exhaustive (len x size x hop x ending) "
        "grid of observing sources that end / fail at every position, small exhaustive grids of caller-edit and "
        "live-source histories, random larger cases of every entry incl. Stream-subclass / thub / int-like-parameter "
        "routes, interleaved generators, call histories in a fresh process, long runs (thousands of blocks) and "
        "sizes/hops around powers of two up to 4097; the call layer: every call shape (positional / keyword / omitted per "
        "parameter, refused calls) x blocks / Stream.blocks / zero_pad, every pair of spellings of size x hop (int, bool, "
        "int subclass, whole and non-whole float / Fraction, 0, negative, None, str, around 2^63) and of left x right, "
        "every source kind x hop/size relation x every input length up to size+2*hop+1 with a second pass over the same "
        "source, grids of length-changing / failing caller operations; a case is non-trivial "
        "when the impl yields at least one block (or zero_pad has non-empty output); distinct = distinct JSON case")
TRUSTED = [
    "translator harness/props/c08_tr.py (ast of lazy_misc.blocks / zero_pad -> lean/ALV/Gen/C08Src.lean, rewritten on every run): "
    "it trusts (a) the semantics of its Python subset as written in ALV/Model/C08Py.lean: `for el in seq` over an observed source "
    "with at most one yield per turn (Py.forEv), builtin max(a, b) = b if b > a else a (Py.max2), `for _ in xrange(lo, hi)` = hi - lo "
    "turns and a TypeError when lo is no longer a Python int (Py.forRange), the generator consumed to its end (Py.genRun), "
    "`deque(maxlen=size).append` (dqPush), `is None`; (b) its vocabulary mapping: the deque local and the index local become the "
    "fields res / idx of GState, `size` is read both as the deque bound (Nat) and as a number of the index type, int-ness of an "
    "assigned index = int-ness of hop / of the old index, immutable locals (last_idx, reinit_idx) are inlined, names of locals are "
    "dropped; anything outside the subset is a TranslationError = broken obligation.  The theorems src_*_is_model re-prove on every run "
    "that the regenerated definitions are the hand-written model (gstep / gtail / grun / blocksCall / blocks / zeroPad / defaults)",
    "hand-written Lean model ALV/Model/C08.lean + C08Hist.lean of lazy_misc.blocks/zero_pad (deque(maxlen), generator protocol: a "
    "source exception passes through the generator frame unchanged: modelled, not verified; the loop bodies, constants, comparisons, "
    "loop selection, tail clause and defaults are no longer trusted: they are regenerated from the source, see above)",
    "independence of a call from earlier / concurrent calls holds for the model by construction (pure functions of "
    "the arguments); the `conc` cases check it on the real code",
    "caller operations on the yielded deque: collections.deque(maxlen) semantics of append / appendleft / pop / popleft / "
    "clear / extend / del / insert / item assignment (indices of either sign) / rotate / reverse incl. their IndexError cases are modelled "
    "(DqOp.apply), not verified; what they do to the following blocks is proved for every operation and every hop "
    "(blocks_mut_any_eq_spec for hop <= size, blocks_mut_any_hop_ge_size for hop >= size)",
    "Python's argument binding (ALV.C08.bind), the numeric tower as far as blocks uses it (int/bool exact in Int, float / "
    "Fraction in exact Rat: the generator draws only finite floats whose arithmetic is exact; inf / -inf / nan hops in XRat = "
    "the rationals with the three non-finite values and IEEE comparison rules; xrange / deque(maxlen) accept only "
    "objects with __index__; Py_ssize_t limit 2^63-1) are modelled, not verified",
    "the generator protocol after the end (further next() give StopIteration), the identity of the yielded deque and the "
    "type of the result (generator / Stream) are checked on the real code as properties of the observation, not modelled",
    "Stream subclasses: `Stream.blocks(s)` is modelled as `blocks(iter(s))`; the sequence iter(s) yields for a "
    "given history is computed by the harness from the no-read-ahead clause (block k after k*hop+size items)",
]
ASSUMPTIONS = [
    "the property's quantifier is size >= 1 and hop >= 1 of an int spelling; what the code does outside it (size 0 / None / "
    "negative / float / huge, hop <= 0 / float / Fraction / not a number) is modelled exactly and tied too (entry `call`)",
    "finite float hops whose ROUNDED index lands on a whole number are outside the model and the generator: the model computes "
    "size - hop and idx + 1 exactly; witness on the real code: blocks(range(12), 5, 1.0000000000000002) gives the 8 blocks of "
    "hop 1 (5 - (1 + 2^-52) rounds to 4.0 = last_idx) where the exact table (hop_table) says block 0 only; floats that round "
    "without ever producing a whole index (0.1, 0.3, 2.7, 1e-17, -0.1) ARE generated and must agree with the exact model",
    "2^6 < size < 2^63 with a padded block due is excluded from model and generator (the code would append ~size pads); "
    "hop <= 0 on an ENDLESS source never returns (theorem call_hop_nonpos: no second block however long the source): the "
    "generator uses sources that fail after many items instead",
]

MANIFEST = {
    "text": "Lean 4 theorems about an executable, code-shaped model of blocks / zero_pad (both loops, idx bookkeeping, padded "
            "tail) for all lengths / sizes / hops / pad values / item types, and about the generator's histories: every "
            "prefix of the input (sources that fail or end anywhere), the number of items pulled when each block is handed "
            "out, a caller that changes the yielded deque in any way (any operation incl. length-changing and failing "
            "ones, every hop), live sources that follow the caller; and about the CALL: defaults (hop=None is size, padval "
            "omitted is 0.), positional = keyword binding, Stream.blocks(*a, **k) = blocks(iter(s), *a, **k), every spelling "
            "of size / hop / left / right (which error and when: refused sizes before anything is pulled, a whole float hop "
            "= the int hop up to a TypeError in place of a padded block that follows a complete one, hop <= 0, size 0, non-whole "
            "and non-finite float hops: the whole table blocksCall_eq_spec); tied "
            "to /repo by a differential run (impl vs model vs spec) on every check",
    "note": "the model of the two function bodies is regenerated from the source (translator); deque(maxlen), the generator protocol (a source exception passes through the frame unchanged) and Stream.blocks = "
            "blocks(iter(s)), Python's argument binding and deque operations are modelled, not verified; no PENDING statement "
            "is left; finite float hops whose index arithmetic rounds in binary64 (e.g. 1 + 2^-52, 0.1 on long inputs) are outside",
    "technique": "Lean 4 machine-checked proof over an executable model + TRANSLATOR harness/props/c08_tr.py (the bodies of blocks / "
                 "zero_pad, their constants, comparisons, statement order, loop selection, tail clause and defaults are read from the "
                 "source with ast on every run into lean/ALV/Gen/C08Src.lean; theorems src_*_is_model prove the regenerated definitions "
                 "equal to the model the property theorems are about, on all three index types) + differential correspondence with observing / failing "
                 "sources, caller-edit and live-source histories, Stream subclasses overriding __iter__, interleaved generators "
                 "and call histories run in pristine forked processes (state-between-calls is reported with the explicit history)",
}

PAD_POOL = [None, 0, "pad", -1, {"f": "0.0"}, {"o": -1}, {"o": -100}, {"o": -101}]
EXC_POOL = ["DeviceError", "ValueError", "KeyError", "ZeroDivisionError"]


class DeviceError(Exception):
    pass


class Obj(object):
    """source object tracked by identity"""
    __slots__ = ("k",)

    def __init__(self, k):
        self.k = k

    def __repr__(self):
        return "Obj(%d)" % self.k


class CallObj(Obj):
    """pad value that is itself callable (a function, a class, an instance with __call__ are legal pad
    values: the pad items must be the very object, never the result of calling it).  Calling it gives a
    marker that is no Obj, so a stage that calls its pad value is seen in every padded item."""
    __slots__ = ()

    def __call__(self, *a, **k):
        return ("called", self.k)


class Int(int):
    """int subclass (int-like parameter)"""


# ----------------------------------------------------------------------------
# tagged items
# ----------------------------------------------------------------------------
def untag(j, reg=None):
    if isinstance(j, dict):
        if "b" in j:
            return bool(j["b"])
        if "f" in j:
            return float(j["f"])
        if "l" in j:
            return [untag(e, reg) for e in j["l"]]
        if "t" in j:
            return tuple(untag(e, reg) for e in j["t"])
        if "o" in j:
            k = j["o"]
            cls = CallObj if k <= -100 else Obj     # objects numbered -100, -101, … are callable
            if reg is None:
                return cls(k)
            if k not in reg:
                reg[k] = cls(k)
            return reg[k]
        raise ValueError("untag %r" % (j,))
    return j


def tag(x, reg=None):
    if x is None or isinstance(x, str):
        return x
    if isinstance(x, bool):
        return {"b": x}
    if type(x) is int:
        return x
    if isinstance(x, float):
        return {"f": repr(x)}
    if type(x) is list:
        return {"l": [tag(e, reg) for e in x]}
    if type(x) is tuple:
        return {"t": [tag(e, reg) for e in x]}
    if isinstance(x, Obj):
        if reg is not None and reg.get(x.k) is x:
            return {"o": x.k}
        return {"o": x.k, "copy": 1}
    return {"?": type(x).__name__, "r": repr(x)[:60]}


def tagl(xs, reg=None):
    return [tag(x, reg) for x in xs]


def _items(rng, n, flavour):
    if flavour == "int":
        return list(range(100, 100 + n))
    if flavour == "ident":
        return [{"o": i} for i in range(n)]
    pool = [0, 1, -3, "a", "bb", None, {"b": True}, {"b": False}, {"l": [1, 2]}, 7, {"f": "1.0"}, {"f": "0.0"},
            {"t": [1]}, {"f": "2.5"}]
    return [rng.choice(pool) for _ in range(n)]


def nfull(size, hop, n):
    return 0 if n < size else (n - size) // hop + 1


def pulled(size, hop, j):
    """items pulled when j blocks have been handed out"""
    return 0 if j == 0 else (j - 1) * hop + size


def case_xs(c):
    return c["xs"] if "xs" in c else list(range(c["n"]))


def case_len(c):
    return len(c["xs"]) if "xs" in c else c["n"]


# ----------------------------------------------------------------------------
# generation
# ----------------------------------------------------------------------------
BIG = [(63, 64, 300), (64, 64, 64 * 5), (65, 64, 400), (64, 63, 64 + 63 * 4 + 1), (127, 128, 1000), (128, 1, 140),
       (129, 128, 129 + 128 * 3 - 1), (1023, 1024, 5000), (1024, 1024, 4096), (1025, 3, 1040), (4095, 4096, 12290),
       (4096, 4096, 8192), (4097, 4096, 12290), (4096, 4097, 3 * 4096 + 5), (4097, 1, 4105), (1, 4096, 20000),
       (3, 4097, 20000), (4096, 5000, 30), (5000, 1, 17), (2048, 1000, 9000), (1000, 2048, 9000), (7, 1, 3000)]


# long runs: thousands of blocks from one generator (small sizes: cheap), always in both tiers
LONG = [(7, 1, 3000), (2, 1, 5000), (3, 2, 4100), (1, 1, 4097), (5, 5, 10240), (4, 7, 9000), (16, 15, 20000)]


def generate(rng, tier, scale=1):
    cases = []
    quick = tier == "quick"
    if quick:
        L, S, H = 14, 7, 9
        nrand = 300 * scale
    else:
        L, S, H = 40, 12, 16
        nrand = 6000 * scale
    if scale == 1:
        for n in range(L + 1):
            for size in range(1, S + 1):
                for hop in range(1, H + 1):
                    route = ("func", "stream", "hopnone")[(n + size + hop) % 3]
                    if route == "hopnone" and hop != size:
                        route = "func"
                    cases.append({"entry": "blocks", "size": size, "hop": hop, "pad": None,
                                  "xs": list(range(100, 100 + n)), "route": route})
        for n in range(0, 8):
            for l in range(0, 4):
                for r in range(0, 4):
                    cases.append({"entry": "zero_pad", "left": l, "right": r, "zero": "z",
                                  "xs": list(range(n))})
        # sources that end / fail at every position, observed
        Lt, St, Ht = (10, 5, 7) if quick else (26, 9, 12)
        for n in range(Lt + 1):
            for size in range(1, St + 1):
                for hop in range(1, Ht + 1):
                    for ending in ("stop", "fail"):
                        cases.append({"entry": "trace", "size": size, "hop": hop, "pad": "P",
                                      "xs": list(range(n)), "ending": ending,
                                      "route": ("func", "stream", "substream")[(n + size + hop) % 3],
                                      "exc": EXC_POOL[(n + hop) % len(EXC_POOL)]})
        # caller edits and live sources, small grid
        Lm, Sm, Hm = (9, 4, 5) if quick else (18, 6, 8)
        for n in range(Lm + 1):
            for size in range(1, Sm + 1):
                for hop in range(1, Hm + 1):
                    cases.append({"entry": "mut", "size": size, "hop": hop, "pad": "P", "xs": list(range(n)),
                                  "edits": _edits(rng, size, nfull(size, hop, n) + 1, dense=True),
                                  "route": ("func", "stream")[(n + hop) % 2]})
                    cases.append({"entry": "live", "size": size, "hop": hop, "pad": "P", "n": n,
                                  "vals": ["v%d" % i for i in range(nfull(size, hop, n) + 2)],
                                  "kind": ("control", "cell", "cellstream")[(n + size) % 3]})
        Lr, Sr, Hr = (8, 3, 4) if quick else (14, 5, 7)
        for n in range(Lr + 1):
            for size in range(1, Sr + 1):
                for hop in range(1, Hr + 1):
                    base = {"entry": "blocks", "size": size, "hop": hop, "pad": "P", "xs": list(range(n))}
                    cases.append(dict(base, route="gain", gain=10, xs=list(range(1, n + 1))))
                    cases.append(dict(base, route="thub"))
                    for j in range(nfull(size, hop, n) + 1):
                        cases.append(dict(base, route="chg_limit", take=j))
                        cases.append(dict(base, route="chg_append", take=j,
                                          first=(pulled(size, hop, j), n)[(n + j) % 2]))
        for n in range(0, 6):
            for l in range(0, 4):
                for r in range(0, 4):
                    for ending in ("stop", "fail"):
                        cases.append({"entry": "zero_pad", "left": l, "right": r, "zero": {"f": "0.0"},
                                      "xs": list(range(n)), "ending": ending, "observe": True,
                                      "ptype": ("int", "intsub", "bool")[(l + r + n) % 3]})
        big = BIG if not quick else [BIG[i] for i in range(len(BIG)) if i % 2 == rng.randrange(2) or BIG[i][0] > 4000]
        for size, hop, n in LONG + big:
            for dn in ((0,) if quick else (-1, 0, 1)):
                cases.append({"entry": "trace", "size": size, "hop": hop, "pad": None, "n": max(0, n + dn),
                              "ending": rng.choice(["stop", "fail"]), "route": rng.choice(["func", "stream"]),
                              "exc": "DeviceError"})
        cases.append({"entry": "zero_pad", "left": 0, "right": 0, "zero": {"f": "0.0"}, "xs": [1, 2, 3], "defaults": "all"})
        cases.append({"entry": "zero_pad", "left": 2, "right": 3, "zero": {"f": "0.0"}, "xs": [1, "a"], "defaults": "zero"})
        # heterogeneous items with sizes / hops in the thousands
        for size, hop, n in [(1025, 1000, 3100), (2000, 3, 2010), (3, 2049, 4200)]:
            cases.append({"entry": "blocks", "size": size, "hop": hop, "pad": rng.choice(PAD_POOL),
                          "xs": _items(rng, n, rng.choice(["hetero", "ident"])), "route": rng.choice(["func", "stream"])})
        for l, r, n in [(0, 0, 0), (5000, 0, 3), (0, 5000, 3), (4096, 4097, 1000)]:
            cases.append({"entry": "zero_pad", "left": l, "right": r, "zero": 0, "n": n,
                          "ending": rng.choice(["stop", "fail"]), "observe": True, "ptype": "int"})
    for _ in range(nrand):
        size = rng.randint(1, 30)
        hop = rng.choice([1, size, size + 1, rng.randint(1, 40), max(1, size - 1), 2 * size])
        n = rng.choice([0, size - 1, size, size + 1, rng.randint(0, 120), size + 3 * hop, size + 3 * hop - 1])
        n = max(0, n)
        cases.append({"entry": "blocks", "size": size, "hop": hop,
                      "pad": rng.choice(PAD_POOL),
                      "xs": _items(rng, n, rng.choice(["int", "hetero", "ident"])),
                      "route": rng.choice(["func", "stream", "iter"])})
    for _ in range((1500 if quick else 12000) * scale):
        cases.append(_random_case(rng))
    for _ in range((150 if quick else 1500) * scale):
        cases.append(_random_hist(rng))
    cases.extend(_call_cases(rng, quick, scale))
    return [c for c in cases if valid(c)]


def _shape(rng, smax=12):
    size = rng.randint(1, smax)
    hop = rng.choice([1, size, size + 1, rng.randint(1, smax + 6), max(1, size - 1), 2 * size])
    n = max(0, rng.choice([0, size - 1, size, size + 1, rng.randint(0, 60), size + 3 * hop, size + 3 * hop - 1,
                           size + 2 * hop + 1]))
    return size, hop, n


def _edits(rng, size, nblocks, dense=False):
    eds = []
    for _ in range(nblocks):
        ops = []
        for _ in range(rng.choice([1, 1, 2]) if dense else rng.choice([0, 1, 1, 2, 3])):
            kind = rng.choice(["set", "set", "set", "rot", "rev"])
            if kind == "set":
                ops.append(["set", rng.randrange(size), rng.choice(["X", "Y", -7, None, {"f": "1.5"}])])
            elif kind == "rot":
                ops.append(["rot", rng.randint(-size - 1, size + 1)])
            else:
                ops.append(["rev"])
        eds.append(ops)
    return eds


def _random_hist(rng):
    """calls made one after the other in the same (fresh) process, mostly with ==-equal parameters of
    different types or the same size with another hop: state kept between calls would show"""
    size, hop, _n = _shape(rng, 8)
    steps = []
    for _ in range(rng.randint(2, 5)):
        u = rng.random()
        sh = (size, hop) if u < .5 else (size, _shape(rng, 8)[1]) if u < .75 else None
        st = _random_case(rng, sh, ["trace", "mut", "live", "route", "ptype", "ptype", "plain", "plain", "zp"])
        steps.append(st)
    return {"entry": "hist", "steps": steps}


def _random_case(rng, shape=None, kinds=None):
    size, hop, n = _shape(rng)
    if shape is not None:
        size, hop = shape
        n = max(0, rng.choice([0, size - 1, size, size + 1, rng.randint(0, 30), size + 2 * hop, size + 2 * hop - 1]))
    pad = rng.choice(PAD_POOL)
    kind = rng.choice(kinds or ["trace", "trace", "mut", "live", "route", "route", "route", "ptype", "zp", "conc",
                                "hist", "hist"])
    if kind == "hist":
        return _random_hist(rng)
    if kind == "plain":
        return {"entry": "blocks", "size": size, "hop": hop, "pad": pad,
                "xs": _items(rng, n, rng.choice(["int", "hetero", "ident"])),
                "route": rng.choice(["func", "stream", "iter"])}
    flavour = rng.choice(["int", "hetero", "ident"])
    if kind == "trace":
        return {"entry": "trace", "size": size, "hop": hop, "pad": pad, "xs": _items(rng, n, flavour),
                "ending": rng.choice(["stop", "fail", "fail"]),
                "route": rng.choice(["func", "stream", "substream", "chgstream"]),
                "exc": rng.choice(EXC_POOL)}
    if kind == "mut":
        return {"entry": "mut", "size": size, "hop": hop, "pad": pad, "xs": _items(rng, n, flavour),
                "edits": _edits(rng, size, nfull(size, hop, n) + 1), "route": rng.choice(["func", "stream"])}
    if kind == "live":
        nb = nfull(size, hop, n) + 2
        return {"entry": "live", "size": size, "hop": hop, "pad": rng.choice([None, 0, "pad"]), "n": n,
                "vals": [rng.choice(["a", "b", 3, -1, None]) if rng.random() < .3 else "v%d" % i
                         for i in range(rng.randint(1, nb))],
                "kind": rng.choice(["control", "cell", "cellstream"])}
    if kind == "route":
        route = rng.choice(["gain", "chg_limit", "chg_append", "chg_limit", "chg_append", "thub", "tuple", "deque",
                            "genfunc", "substream", "chgstream", "thub1", "positional", "reentrant", "reentrant",
                            "stream_hopnone", "defaultpad", "stream_defaultpad"])
        c = {"entry": "blocks", "size": size, "hop": hop, "pad": pad, "route": route}
        if route == "gain":
            c["xs"] = [rng.randint(-9, 9) for _ in range(n)]
            c["gain"] = rng.choice([10, -1, 3, 0])
            c["pad"] = rng.choice([None, 0, "pad"])
        else:
            c["xs"] = _items(rng, n, flavour)
        if route == "stream_hopnone" and hop != size:
            c["route"] = route = "stream"
        if route in ("defaultpad", "stream_defaultpad"):
            c["pad"] = {"f": "0.0"}       # the documented default padval=0.
        if route in ("chg_limit", "chg_append"):
            c["take"] = rng.randint(0, nfull(size, hop, n))
            if route == "chg_append":
                lo = pulled(size, hop, c["take"])
                c["first"] = rng.choice([lo, lo, rng.randint(lo, max(lo, n))])
        return c
    if kind == "ptype":
        pt = rng.choice(["intsub", "intsub", "bool", "hopfloat", "hopfrac", "sizefloat"])
        if pt == "bool" and (size, hop) != (1, 1):
            pt = "intsub"
        return {"entry": "blocks", "size": size, "hop": hop, "pad": pad, "xs": _items(rng, n, flavour),
                "route": rng.choice(["func", "stream"]), "ptype": pt}
    if kind == "zp":
        return {"entry": "zero_pad", "left": rng.choice([0, 0, 1, 2, rng.randint(0, 40)]),
                "right": rng.choice([0, 0, 1, 2, rng.randint(0, 40)]),
                "zero": rng.choice(PAD_POOL), "xs": _items(rng, rng.randint(0, 12), flavour),
                "ending": rng.choice(["stop", "fail"]), "observe": True,
                "ptype": rng.choice(["int", "intsub", "bool", "float"]),
                "route": rng.choice(["iter", "list", "stream"])}
    # conc
    subs = []
    shared = _items(rng, n, flavour)
    for _ in range(rng.randint(2, 4)):
        s2, h2, n2 = _shape(rng, 6)
        if rng.random() < .5:
            s2, h2 = size, hop          # equal parameters: a cache keyed by (size, hop) would collide
        share = rng.random() < .6
        subs.append({"entry": "blocks", "size": s2, "hop": h2, "pad": pad,
                     "xs": shared if share else _items(rng, n2, flavour), "share": share,
                     "route": rng.choice(["func", "stream", "iter"]),
                     "ptype": rng.choice(["int", "int", "intsub", "hopfloat"])})
    return {"entry": "conc", "subs": subs, "order": rng.choice(["rr", "rr", "seq", "nest"])}



# ----------------------------------------------------------------------------
# the CALL layer: shapes, spellings, defaults, source kinds, length-changing caller operations
# ----------------------------------------------------------------------------
SEQ = {"seq": True}
BPARAMS = ["seq", "size", "hop", "padval"]
ZPARAMS = ["seq", "left", "right", "zero"]
SRC_REITER = ("list", "tuple", "deque", "dictkeys", "range", "str")
SRC_ONESHOT = ("gen", "iter", "stream", "map", "thub", "substream")
SRC_FAILING = ("gen", "stream", "map", "substream")


def _shapes(params, fn):
    """every way of writing the call: each parameter positional / keyword / omitted (positional ones form a
    prefix); for Stream.blocks the data argument is `self`"""
    names = params[1:]
    out = []
    for seqpos in (("pos", "kw") if fn != "stream" else ("self",)):
        for npos in range(0, len(names) + 1):
            if seqpos == "kw" and npos:
                continue
            rest = names[npos:]
            for mask in range(1 << len(rest)):
                kws = [nm for i, nm in enumerate(rest) if mask >> i & 1]
                out.append((seqpos, list(names[:npos]), kws))
    return out


def _fnum(v):
    """float parameter with its exact value"""
    f = Fraction(v)
    return {"f": repr(float(v)), "q": "%d/%d" % (f.numerator, f.denominator) if f.denominator != 1 else str(f.numerator)}


def _spell(rng, v, allow=("int", "isub", "bool", "float", "frac")):
    k = rng.choice(allow)
    if k == "bool" and v not in (0, 1):
        k = "isub"
    if k == "int":
        return v
    if k == "isub":
        return {"isub": v}
    if k == "bool":
        return {"b": bool(v)}
    if k == "float":
        return _fnum(v)
    return {"fr": str(v)}


def _mk_call(fn, shape, vals, xs, ending="stop", src="gen", **extra):
    """vals: dict name -> JSON value for the parameters that are given"""
    seqpos, posn, kwn = shape
    pos = ([SEQ] if seqpos == "pos" else []) + [vals[nm] for nm in posn]
    kw = ([["seq", SEQ]] if seqpos == "kw" else []) + [[nm, vals[nm]] for nm in kwn]
    c = {"entry": "zcall" if fn == "zero_pad" else "call", "fn": fn, "pos": pos, "kw": kw, "xs": xs,
         "ending": ending, "src": src}
    c.update(extra)
    return c


def _call_xs(rng, n, src):
    if src == "range":
        return list(range(n))
    if src == "dictkeys":
        return list(range(100, 100 + n))
    if src == "str":
        return [chr(97 + i % 26) for i in range(n)]
    return _items(rng, n, rng.choice(["int", "hetero", "ident"]))


SIZE_SPELL = [0, 1, 2, 3, {"b": True}, {"b": False}, {"isub": 2}, -1, -3, None, "a", 2 ** 63, 2 ** 63 - 1, 10 ** 30]
HOP_SPELL = [None, 1, 2, 3, 5, 0, -1, -4, {"b": True}, {"b": False}, {"isub": 2}, "a", 10 ** 30]


NONFIN = [{"f": "inf"}, {"f": "-inf"}, {"f": "nan"}]        # float('inf'), float('-inf'), float('nan')


def _rat_spellings(rng):
    out = []
    for v in (1, 2, 3, 4, 0, -1, -2, Fraction(1, 2), Fraction(3, 2), Fraction(5, 2), Fraction(7, 2), Fraction(-1, 2),
              Fraction(9, 4)):
        out.append(_fnum(v))
        out.append({"fr": str(Fraction(v))})
    out.append({"fr": "1/3"})
    out.append({"fr": "7/3"})
    # floats whose index arithmetic ROUNDS in binary64 but never lands on a whole number: the exact model (the float's exact
    # value as a rational) must still agree with the code, which rounds
    for v in (0.1, 0.3, 2.7, 1e-17, -0.1):
        out.append(_fnum(v))
    return out


def _safe_call(size, hop, n):
    """no astronomically long padding loop (size huge and a padded block due)"""
    if isinstance(size, int) and not isinstance(size, bool) and 10 ** 6 < size < 2 ** 63:
        return n == 0 or (hop in (1, 2) and n < 10 ** 5)
    return True


def _call_cases(rng, quick, scale):
    cases = []
    pads = [None, 0, "pad", {"f": "0.0"}, {"o": -1}, {"b": False}]
    # 1. every call shape x a few parameter values x both functions
    if scale == 1:
        for fn in ("blocks", "stream"):
            for shape in _shapes(BPARAMS, fn):
                for size, hop, n in ((3, 2, 6), (2, 3, 6), (2, 2, 3), (3, None, 4)):
                    vals = {"size": size, "hop": hop, "padval": pads[(size + n + len(shape[1])) % len(pads)]}
                    src = rng.choice(SRC_REITER + SRC_ONESHOT)
                    cases.append(_mk_call(fn, shape, vals, _call_xs(rng, n, src), "stop", src))
            # calls Python refuses: too many positional, unknown keyword, a parameter given twice, no data argument
            xs = [1, 2, 3, 4, 5]
            first = [SEQ] if fn == "blocks" else []
            for pos, kw in ((first + [2, 1, None, 7], []), (first + [2], [["pad", 0]]), (first + [2], [["size", 3]]),
                            (first + [2, 1], [["hop", 1]]), (first, [["seq", SEQ], ["size", 2]]) if fn == "stream" else ([], [["size", 2]]),
                            (first + [2, 1, 0], [["padval", 0]]), (first, [["size", 2], ["hope", 1]])):
                cases.append({"entry": "call", "fn": fn, "pos": pos, "kw": kw, "xs": xs, "ending": "stop", "src": "list"})
        for shape in _shapes(ZPARAMS, "zero_pad"):
            for l, r, n in ((2, 1, 3), (0, 2, 0), (1, 0, 2)):
                vals = {"left": l, "right": r, "zero": pads[(l + r + len(shape[2])) % len(pads)]}
                src = rng.choice(("list", "tuple", "gen", "stream", "str", "iter", "range"))
                cases.append(_mk_call("zero_pad", shape, vals, _call_xs(rng, n, src), "stop", src))
        for pos, kw in (([SEQ, 1, 2, 0, 4], []), ([SEQ], [["lef", 1]]), ([SEQ, 1], [["left", 2]]), ([], [["left", 1]]),
                        ([None, 2, 1], []), ([5], []), ([None], [])):
            cases.append({"entry": "zcall", "fn": "zero_pad", "pos": pos, "kw": kw, "xs": [1, 2], "ending": "stop", "src": "list"})
        # 2. spellings of size x hop (every pair), short and long inputs, ending stop / fail
        rats = _rat_spellings(rng)
        for size in SIZE_SPELL + NONFIN[:1]:
            for hop in HOP_SPELL + rats[::(3 if quick else 1)] + NONFIN:
                for n in (0, 1, 2, 3, 4, 7):
                    if not _safe_call(size, hop, n):
                        continue
                    if quick and (n + len(json.dumps([size, hop]))) % 2:
                        continue
                    ending = ("stop", "fail")[(n + len(json.dumps(hop))) % 2] if n else "stop"
                    src = ("gen", "stream", "map")[n % 3]
                    fn = ("blocks", "stream")[(n // 2) % 2]
                    shape = ("pos", ["size", "hop"], []) if fn == "blocks" else ("self", ["size"], ["hop"])
                    cases.append(_mk_call(fn, shape, {"size": size, "hop": hop}, list(range(n)), ending, src))
        # 3. float / Fraction / non-positive hops: every length around the block boundaries
        for size in (1, 2, 3, 4):
            for hop in rats + [0, -1, -2, -5] + NONFIN:
                for n in range(0, (9 if quick else 14)):
                    if quick and (n + size) % 2 and isinstance(hop, dict) and "fr" in hop:
                        continue
                    cases.append(_mk_call("blocks", ("pos", ["size"], ["hop", "padval"]), {"size": size, "hop": hop, "padval": "P"},
                                          list(range(n)), ("stop", "stop", "fail")[(n + size) % 3], "gen"))
        # 4. source kinds x hop/size relation x where the input ends (every offset), re-iteration afterwards
        for src in SRC_REITER + SRC_ONESHOT:
            for size, hop in ((3, 1), (2, 2), (2, 5), (1, 3), (3, 4)):
                for n in range(0, size + 2 * hop + 2):
                    if quick and (n + len(src)) % 2:
                        continue
                    fn = ("blocks", "stream")[(n + size) % 2]
                    shape = ("pos", ["size", "hop"], ["padval"]) if fn == "blocks" else ("self", [], ["size", "hop", "padval"])
                    ending = "fail" if src in SRC_FAILING and (n + hop) % 3 == 0 else "stop"
                    cases.append(_mk_call(fn, shape, {"size": size, "hop": hop, "padval": None}, _call_xs(rng, n, src),
                                          ending, src, again=True))
        # 5. zero_pad spellings
        zsp = [0, 1, 2, -1, -7, {"b": True}, {"b": False}, {"isub": 2}, _fnum(1), _fnum(0), _fnum(Fraction(3, 2)), {"fr": "1"},
               {"fr": "1/2"}, None, "a"] + NONFIN[::2]
        for l in zsp:
            for r in zsp:
                for n in (0, 2):
                    if quick and (len(json.dumps([l, r])) + n) % 2:
                        continue
                    src = ("gen", "list", "stream", "map")[(n + len(json.dumps(l))) % 4]
                    ending = "fail" if src in SRC_FAILING and len(json.dumps(r)) % 2 else "stop"
                    cases.append(_mk_call("zero_pad", ("pos", ["left"], ["right", "zero"]), {"left": l, "right": r, "zero": "z"},
                                          list(range(n)), ending, src))
        for l, r in ((10 ** 30, 0), (0, 10 ** 30), (2 ** 63, 1), (3, 2 ** 64), (5000, 5000)):
            cases.append(_mk_call("zero_pad", ("pos", ["left", "right"], []), {"left": l, "right": r}, [1, 2, 3], "stop", "gen", cap=40))
        # 6. caller operations that change the length of the yielded deque / fail
        Lg, Sg, Hg = (9, 4, 5) if quick else (16, 5, 7)
        for n in range(Lg + 1):
            for size in range(1, Sg + 1):
                for hop in range(1, Hg + 1):
                    cases.append({"entry": "mutg", "size": size, "hop": hop, "pad": "P", "xs": list(range(n)),
                                  "ops": _ops(rng, size, nfull(size, hop, n)), "route": ("func", "stream")[(n + hop) % 2]})
    for _ in range((500 if quick else 5000) * scale):
        cases.append(_random_call(rng))
    return cases


def _ops(rng, size, nblocks):
    out = []
    for _ in range(nblocks):
        ops = []
        for _ in range(rng.choice([0, 1, 1, 2, 3])):
            k = rng.choice(["append", "appendleft", "pop", "popleft", "clear", "extend", "del", "insert", "set", "rot", "rev",
                            "pop", "popleft", "append", "seti", "deli", "inserti"])
            v = rng.choice(["X", "Y", -7, None, {"f": "1.5"}])
            if k in ("append", "appendleft"):
                ops.append([k, v])
            elif k in ("pop", "popleft", "clear"):
                ops.append([k])
            elif k == "extend":
                ops.append([k, [rng.choice(["e1", "e2", 0]) for _ in range(rng.randint(0, size + 1))]])
            elif k == "del":
                ops.append([k, rng.randrange(size + 1)])
            elif k == "insert":
                ops.append([k, rng.randrange(size + 2), v])
            elif k == "set":
                ops.append([k, rng.randrange(size + 1), v])
            elif k in ("seti", "inserti"):       # an index of either sign, in and out of range
                ops.append([k, rng.randint(-size - 2, size + 1), v])
            elif k == "deli":
                ops.append([k, rng.randint(-size - 2, size + 1)])
            elif k == "rot":
                ops.append([k, rng.randint(-size - 1, size + 1)])
            else:
                ops.append(["rev"])
        out.append(ops)
    return out


def _random_call(rng):
    u = rng.random()
    if u < .2:
        size, hop, n = _shape(rng, 6)
        return {"entry": "mutg", "size": size, "hop": hop, "pad": rng.choice(PAD_POOL), "xs": _items(rng, n, "int"),
                "ops": _ops(rng, size, nfull(size, hop, n)), "route": rng.choice(["func", "stream"])}
    if u < .4:
        shape = rng.choice(_shapes(ZPARAMS, "zero_pad"))
        src = rng.choice(("list", "tuple", "gen", "stream", "str", "iter", "map", "deque"))
        vals = {"left": _spell(rng, rng.choice([0, 1, 2, 5, -1])), "right": _spell(rng, rng.choice([0, 1, 3, -2])),
                "zero": rng.choice(PAD_POOL)}
        return _mk_call("zero_pad", shape, vals, _call_xs(rng, rng.randint(0, 6), src),
                        rng.choice(["stop", "fail"]) if src in SRC_FAILING else "stop", src)
    fn = rng.choice(["blocks", "stream"])
    shape = rng.choice(_shapes(BPARAMS, fn))
    size, hop, n = _shape(rng, 6)
    src = rng.choice(SRC_REITER + SRC_ONESHOT)
    v = rng.random()
    if v < .35:
        hv = _spell(rng, hop)
    elif v < .5:
        hv = rng.choice([0, -1, -hop, {"b": False}])
    elif v < .65:
        hv = rng.choice([_fnum(Fraction(2 * hop + 1, 2)), {"fr": "%d/3" % (3 * hop + 1)}, _fnum(Fraction(-1, 2)), _fnum(-hop)] + NONFIN)
    else:
        hv = hop
    sv = _spell(rng, size, ("int", "int", "isub", "bool")) if rng.random() < .8 else rng.choice([0, {"b": False}, -1, _fnum(size), None, "s"])
    vals = {"size": sv, "hop": hv, "padval": rng.choice(PAD_POOL)}
    if "hop" not in shape[1] + shape[2]:
        pass        # hop omitted: the default (= size) is what the call means
    return _mk_call(fn, shape, vals, _call_xs(rng, n, src),
                    rng.choice(["stop", "fail"]) if src in SRC_FAILING else "stop", src, again=rng.random() < .3,
                    exc=rng.choice(EXC_POOL))


def valid(c):
    e = c["entry"]
    if e == "conc":
        return len(c["subs"]) >= 1 and all(valid(s) for s in c["subs"])
    if e == "hist":
        return len(c["steps"]) >= 1 and all(s["entry"] not in ("hist", "conc") and valid(s) for s in c["steps"])
    if e in ("call", "zcall"):
        if c["ending"] == "fail" and c.get("src", "gen") not in SRC_FAILING:
            return False
        src = c.get("src", "gen")
        xs = c["xs"]
        if src == "range" and xs != list(range(len(xs))):
            return False
        if src == "dictkeys" and (len(set(map(json.dumps, xs))) != len(xs) or not all(type(x) is int for x in xs)):
            return False
        if src == "str" and not all(isinstance(x, str) and len(x) == 1 for x in xs):
            return False
        if src == "thub" and (c["fn"] != "stream" or c.get("again")):
            return False
        return True
    if e == "zero_pad":
        if c.get("ptype") == "bool" and (c["left"] > 1 or c["right"] > 1):
            return False
        if c.get("defaults") and (c["zero"] != {"f": "0.0"} or
                                  (c["defaults"] == "all" and (c["left"] or c["right"]))):
            return False
        return c["left"] >= 0 and c["right"] >= 0
    if c["size"] < 1 or c["hop"] < 1:
        return False
    n = case_len(c)
    if e == "blocks":
        r = c.get("route", "func")
        if r in ("hopnone", "stream_hopnone") and c["hop"] != c["size"]:
            return False
        if r in ("defaultpad", "stream_defaultpad") and c["pad"] != {"f": "0.0"}:
            return False
        if c.get("ptype") == "bool" and (c["size"] != 1 or c["hop"] != 1):
            return False
        if r in ("chg_limit", "chg_append"):
            j = c.get("take", 0)
            if j < 0 or j > nfull(c["size"], c["hop"], n):
                return False
            if r == "chg_append" and not (pulled(c["size"], c["hop"], j) <= c.get("first", n) <= n):
                return False
        if r == "gain" and not all(type(x) is int for x in c["xs"]):
            return False
    if e == "mutg":
        return len(c["ops"]) <= nfull(c["size"], c["hop"], n)
    if e == "mut":
        for ops in c["edits"]:
            for op in ops:
                if op[0] == "set" and not (0 <= op[1] < c["size"]):
                    return False
    if e == "live" and not c["vals"]:
        return False
    return True


# ----------------------------------------------------------------------------
# the real code
# ----------------------------------------------------------------------------
def _classes():
    from audiolazy import Stream

    class SubStream(Stream):
        """Stream subclass that does not touch __iter__"""

    class ChangeableStream(Stream):
        """examples/keyboard.py idiom: the iterator keeps taking samples from the Stream
        instead of being the iterator of the internal data itself"""
        def __iter__(self):
            while True:
                try:
                    el = next(self._data)
                except StopIteration:
                    return
                yield el

    class GainStream(Stream):
        def __init__(self, data, gain):
            super(GainStream, self).__init__(data)
            self.gain = gain

        def __iter__(self):
            return (el * self.gain for el in self._data)

    return SubStream, ChangeableStream, GainStream


def _param(v, pt, which):
    if pt == "intsub":
        return Int(v)
    if pt == "bool":
        return bool(v)
    if pt == "hopfloat" and which == "hop":
        return float(v)
    if pt == "hopfrac" and which == "hop":
        return Fraction(v)
    if pt == "sizefloat" and which == "size":
        return float(v)
    if pt == "float":
        return float(v)
    return v


def _make_exc(name):
    return {"DeviceError": DeviceError, "ValueError": ValueError, "KeyError": KeyError,
            "ZeroDivisionError": ZeroDivisionError}[name]("source failed")


def _source(items, ending, log, exc):
    for i, x in enumerate(items):
        log.append(i)
        yield x
    if ending == "fail":
        raise exc


class RunawayRead(Exception):
    """the code under test read far beyond anything the case can need"""


def _extras(k):
    for i in range(k):
        yield ("extra", i)
    raise RunawayRead("read %d items past the point where the input was limited" % k)


class _Timeout(BaseException):
    pass


def _alarm(_sig, _frm):
    raise _Timeout("impl call exceeded its time budget")


def _run_gen(gen, reg, out, bound=None):
    """collect snapshots of the blocks; returns error kind or None"""
    try:
        for b in (gen if bound is None else it.islice(gen, bound)):
            out.append(tagl(b, reg))
    except Exception as e:
        return err_kind(e)
    return None


def _is_stream(res, obs):
    from audiolazy import Stream
    if not isinstance(res, Stream):
        obs["not_a_stream"] = type(res).__name__
    return res


def _impl_blocks(c):
    from audiolazy import blocks, Stream, thub
    SubStream, ChangeableStream, GainStream = _classes()
    reg = {}
    xs = [untag(x, reg) for x in case_xs(c)]
    pristine = list(xs)
    pad = untag(c["pad"], reg)
    pt = c.get("ptype", "int")
    size, hop = _param(c["size"], pt, "size"), _param(c["hop"], pt, "hop")
    kw = dict(size=size, hop=hop, padval=pad)
    route = c.get("route", "func")
    out = []
    obs = {"blocks": out}
    n = len(xs)
    bound = n + 4
    if route == "func":
        err = _run_gen(blocks(xs, **kw), reg, out)
    elif route == "positional":
        err = _run_gen(blocks(xs, size, hop, pad), reg, out)
    elif route == "stream":
        err = _run_gen(_is_stream(Stream(xs).blocks(**kw), obs), reg, out)
    elif route == "substream":
        err = _run_gen(_is_stream(SubStream(xs).blocks(**kw), obs), reg, out)
    elif route == "chgstream":
        err = _run_gen(ChangeableStream(xs).blocks(**kw), reg, out)
    elif route == "hopnone":
        err = _run_gen(blocks(xs, size=size, padval=pad), reg, out)
    elif route == "stream_hopnone":
        err = _run_gen(_is_stream(Stream(xs).blocks(size=size, padval=pad), obs), reg, out)
    elif route == "defaultpad":
        err = _run_gen(blocks(xs, size=size, hop=hop), reg, out)
    elif route == "stream_defaultpad":
        err = _run_gen(_is_stream(Stream(xs).blocks(size=size, hop=hop), obs), reg, out)
    elif route == "reentrant":
        # every pull of the outer generator's source runs a complete inner blocks() call with the same
        # parameters (and one with its own) on other data: scratch state shared between calls would show
        inner_out = []

        def inner_run(i):
            inner = [("in", i, q) for q in range(c["size"] + 1)]
            got = [[(y[0], 0, y[2]) if type(y) is tuple else ("pad",) for y in b] for b in blocks(inner, **kw)]
            list(blocks(inner, size=c["size"] + 1, hop=1, padval=None))
            return got

        def src():
            for i, x in enumerate(xs):
                inner_out.append(inner_run(i))
                yield x
        err = _run_gen(blocks(src(), **kw), reg, out)
        alone = inner_run(0)          # the same inner call with nothing else alive
        if alone[:1] != [[("in", 0, q) for q in range(c["size"])]] or any(g != alone for g in inner_out):
            obs["inner_wrong"] = True
    elif route == "iter":
        err = _run_gen(blocks(iter(xs), size, hop, pad), reg, out)
    elif route == "tuple":
        err = _run_gen(blocks(tuple(xs), **kw), reg, out)
    elif route == "deque":
        err = _run_gen(blocks(collections.deque(xs), **kw), reg, out)
    elif route == "genfunc":
        err = _run_gen(blocks((x for x in xs), **kw), reg, out)
    elif route == "gain":
        err = _run_gen(GainStream(xs, c["gain"]).blocks(**kw), reg, out)
    elif route in ("thub", "thub1"):
        with warnings.catch_warnings():
            warnings.simplefilter("ignore")
            hub = thub(xs, 2 if route == "thub" else 1)
            a = hub.blocks(**kw)
            b = hub.blocks(**kw) if route == "thub" else iter(())
            out2 = []
            err = None
            try:
                for ba, bb in it.zip_longest(a, b):      # lock-step consumption of both branches
                    if ba is not None:
                        out.append(tagl(ba, reg))
                    if bb is not None:
                        out2.append(tagl(bb, reg))
            except Exception as e:
                err = err_kind(e)
            if route == "thub":
                obs["blocks2"] = out2
    elif route == "chg_limit":
        j = c["take"]
        endless = it.chain(xs, _extras(n + 64))     # "endless": long enough, with a trip-wire at its end
        cs = ChangeableStream(endless)
        blks = iter(cs.blocks(**kw))
        err = _run_gen(blks, reg, out, j)
        if err is None and len(out) == j:
            cs.limit(n - pulled(c["size"], c["hop"], j))     # the input ends after that many further items
            err = _run_gen(blks, reg, out, bound)
    elif route == "chg_append":
        j, m = c["take"], c.get("first", n)
        cs = ChangeableStream(xs[:m])
        blks = iter(cs.blocks(**kw))
        err = _run_gen(blks, reg, out, j)
        if err is None and len(out) == j:
            cs.append(xs[m:])
            err = _run_gen(blks, reg, out, bound)
    else:
        raise ValueError("route " + route)
    if err is not None:
        obs["err"] = err
    obs["arg_ok"] = len(xs) == len(pristine) and all(a is b for a, b in zip(xs, pristine))
    return obs


def _impl_trace(c):
    from audiolazy import blocks, Stream
    SubStream, ChangeableStream, _G = _classes()
    reg = {}
    big = "xs" not in c
    xs = range(c["n"]) if big else [untag(x, reg) for x in c["xs"]]
    pad = untag(c["pad"], reg)
    exc = _make_exc(c.get("exc", "DeviceError"))
    log = []
    src = _source(xs, c["ending"], log, exc)
    kw = dict(size=c["size"], hop=c["hop"], padval=pad)
    route = c.get("route", "func")
    events = []
    obs = {"events": events, "raised": False, "pulled_at_construction": 0}
    try:
        if route == "func":
            gen = blocks(src, **kw)
        elif route == "stream":
            gen = Stream(src).blocks(**kw)
        elif route == "substream":
            gen = SubStream(src).blocks(**kw)
        else:
            gen = ChangeableStream(src).blocks(**kw)
        gen = iter(gen)
        obs["pulled_at_construction"] = len(log)
        for b in gen:
            events.append([len(log), list(b) if big else tagl(b, reg)])
    except Exception as e:
        obs["raised"] = True
        obs["exc"] = "same" if e is exc else "other:" + err_kind(e)
        if "gen" not in locals() or not hasattr(gen, "__next__"):
            obs["pulled_at_construction"] = max(len(log), 1)
    return obs


def _apply_edit(blk, op, reg):
    if op[0] == "set":
        blk[op[1]] = untag(op[2], reg)
    elif op[0] == "rot":
        blk.rotate(op[1])
    else:
        blk.reverse()


def _impl_mut(c):
    from audiolazy import blocks, Stream
    reg = {}
    xs = [untag(x, reg) for x in c["xs"]]
    pad = untag(c["pad"], reg)
    kw = dict(size=c["size"], hop=c["hop"], padval=pad)
    gen = blocks(xs, **kw) if c.get("route", "func") == "func" else Stream(xs).blocks(**kw)
    out = []
    obs = {"blocks": out}
    try:
        for k, blk in enumerate(gen):
            out.append(tagl(blk, reg))
            if k < len(c["edits"]):
                for op in c["edits"][k]:
                    _apply_edit(blk, op, reg)
    except Exception as e:
        obs["err"] = err_kind(e)
    return obs


def _impl_live(c):
    from audiolazy import blocks, Stream, ControlStream
    vals = c["vals"]
    n = c["n"]
    kw = dict(size=c["size"], hop=c["hop"], padval=c["pad"])
    kind = c.get("kind", "cell")
    if kind == "control":
        cs = ControlStream(vals[0])
        cs.limit(n)
        gen = cs.blocks(**kw)

        def setv(v):
            cs.value = v
        enc = lambda b: list(b)
    else:
        cell = [vals[0]]

        def src():
            for i in range(n):
                yield (i, cell[0])
        gen = blocks(src(), **kw) if kind == "cell" else Stream(src()).blocks(**kw)

        def setv(v):
            cell[0] = v
        enc = lambda b: [list(x) if isinstance(x, tuple) else x for x in b]
    out = []
    obs = {"blocks": out}
    try:
        for k, blk in enumerate(it.islice(gen, n + 4)):
            out.append(enc(blk))
            setv(vals[min(k + 1, len(vals) - 1)])
    except Exception as e:
        obs["err"] = err_kind(e)
    return obs


def _impl_zero_pad(c):
    from audiolazy import zero_pad, Stream
    reg = {}
    big = "xs" not in c
    xs = list(range(c["n"])) if big else [untag(x, reg) for x in c["xs"]]
    zero = untag(c["zero"], reg)
    pt = c.get("ptype", "int")
    left, right = _param(c["left"], pt, "left"), _param(c["right"], pt, "right")
    if c.get("defaults"):
        # documented defaults: left=0, right=0, zero=0. (the case carries exactly these values)
        return {"out": tagl(zero_pad(iter(xs)), reg) if c["defaults"] == "all" else
                tagl(zero_pad(iter(xs), left, right), reg)}
    if not c.get("observe"):
        return {"out": tagl(zero_pad(iter(xs), left=left, right=right, zero=zero), reg)}
    exc = DeviceError("source failed")
    log = []
    route = c.get("route", "iter")
    src = _source(xs, c.get("ending", "stop"), log, exc)
    if route == "stream":
        src = Stream(src)
    elif route == "list" and c.get("ending", "stop") == "stop":
        src = xs
        log = None
    out, reads = [], []
    obs = {"out": out, "reads": reads, "raised": False}
    try:
        for x in zero_pad(src, left=left, right=right, zero=zero):
            out.append(tag(x, reg))
            reads.append(len(log) if log is not None else -1)
    except Exception as e:
        if e is exc:
            obs["raised"] = True
        else:
            obs["err"] = err_kind(e)
    if log is None:
        obs["reads"] = None
    return obs


def _unnum(j):
    """a parameter value as the Python object of that spelling"""
    if isinstance(j, dict):
        if "isub" in j:
            return Int(j["isub"])
        if "b" in j:
            return bool(j["b"])
        if "f" in j:
            return float(j["f"])
        if "fr" in j:
            return Fraction(j["fr"])
    return j


def _mk_source(kind, xs, ending, log, exc):
    """(source object, whether the number of items pulled from it is observable)"""
    from audiolazy import Stream, thub
    SubStream, _C, _G = _classes()
    if kind == "list":
        return xs, False
    if kind == "tuple":
        return tuple(xs), False
    if kind == "deque":
        return collections.deque(xs), False
    if kind == "dictkeys":
        return dict.fromkeys(xs).keys(), False
    if kind == "range":
        return range(len(xs)), False
    if kind == "str":
        return "".join(xs), False
    if kind == "iter":
        return iter(xs), False
    if kind == "gen":
        return _source(xs, ending, log, exc), True
    if kind == "stream":
        return Stream(_source(xs, ending, log, exc)), True
    if kind == "substream":
        return SubStream(_source(xs, ending, log, exc)), True
    if kind == "thub":
        with warnings.catch_warnings():
            warnings.simplefilter("ignore")
            return thub(_source(xs, ending, log, exc), 1), True
    if kind == "map":
        # a map object: the element function raises at the item after the last one (and would go on afterwards)
        stop = object()

        def f(x):
            if x is stop:
                raise exc
            log.append(len(log))
            return x
        return map(f, list(xs) + ([stop, ("after", 0), ("after", 1)] if ending == "fail" else [])), True
    raise ValueError("src " + kind)


def _bind_args(c, params, src, reg):
    off = 1 if c["fn"] == "stream" else 0

    def conv(name, j):
        if name == "seq":
            return src if j == SEQ else _unnum(j)
        if name in ("padval", "zero"):
            return untag(j, reg)
        return _unnum(j)
    pos = [conv(params[i + off] if i + off < len(params) else "?", j) for i, j in enumerate(c["pos"])]
    kw = {k: conv(k, j) for k, j in c["kw"]}
    return pos, kw


def _drain(gi, bound, each, exc):
    """pull to the end; returns the ending"""
    try:
        for k, b in enumerate(gi):
            each(b)
            if k + 1 >= bound:
                return "runaway"
    except Exception as e:
        return "srcFail" if e is exc else err_kind(e)
    return "stop"


def _after(gi):
    out = []
    for _ in range(2):
        try:
            next(gi)
            out.append("item")
        except StopIteration:
            out.append("StopIteration")
        except Exception as e:
            out.append(err_kind(e))
    return out


def _impl_call(c):
    with warnings.catch_warnings():
        warnings.simplefilter("ignore")
        return _impl_call1(c)


def _impl_call1(c):
    from audiolazy import blocks, zero_pad, Stream
    reg = {}
    xs = [untag(x, reg) for x in c["xs"]]
    exc = _make_exc(c.get("exc", "DeviceError"))
    log = []
    kind = c.get("src", "gen")
    src, observable = _mk_source(kind, xs, c["ending"], log, exc)
    fn = c["fn"]
    pos, kw = _bind_args(c, ZPARAMS if fn == "zero_pad" else BPARAMS, src, reg)
    obs = {"bound": True, "observable": observable}

    def make():
        if fn == "blocks":
            return blocks(*pos, **kw)
        if fn == "zero_pad":
            return zero_pad(*pos, **kw)
        return (src if kind in ("stream", "substream", "thub") else Stream(src)).blocks(*pos, **kw)
    try:
        g = make()
    except TypeError:
        obs["bound"] = False
        return obs
    obs["kind"] = "Stream" if isinstance(g, Stream) else type(g).__name__
    obs["pulled_at_construction"] = len(log)
    gi = iter(g)
    if fn == "zero_pad":
        out, reads = [], []

        def each(x):
            out.append(tag(x, reg))
            reads.append(len(log))
        obs["ending"] = _drain(gi, c.get("cap", len(xs) + 10 ** 5), each, exc)
        obs["out"], obs["reads"] = out, reads
    else:
        events, objs = [], []

        def each(b):
            events.append([len(log), tagl(b, reg)])
            objs.append(b)
        obs["ending"] = _drain(gi, len(xs) + 4, each, exc)
        obs["events"] = events
        obs["same_object"] = all(o is objs[0] for o in objs)
        if objs:
            obs["container"] = type(objs[0]).__name__
            obs["maxlen"] = objs[0].maxlen
    obs["pulled"] = len(log)
    obs["after"] = _after(gi)
    if c.get("again") and fn != "zero_pad":
        # the same call once more on the SAME source object: a container gives its blocks again, an iterator is used up
        out2 = []
        try:
            g2 = make()
            obs["again_ending"] = _drain(iter(g2), len(xs) + 4, lambda b: out2.append(tagl(b, reg)), exc)
        except Exception as e:
            obs["again_ending"] = "construct:" + err_kind(e)
        obs["again"] = out2
    return obs


def _apply_op(blk, op, reg):
    k = op[0]
    if k in ("set", "rot", "rev"):
        _apply_edit(blk, op, reg)
    elif k == "append":
        blk.append(untag(op[1], reg))
    elif k == "appendleft":
        blk.appendleft(untag(op[1], reg))
    elif k == "pop":
        blk.pop()
    elif k == "popleft":
        blk.popleft()
    elif k == "clear":
        blk.clear()
    elif k == "extend":
        blk.extend([untag(v, reg) for v in op[1]])
    elif k == "del":
        del blk[op[1]]
    elif k == "insert" or k == "inserti":
        blk.insert(op[1], untag(op[2], reg))
    elif k == "seti":
        blk[op[1]] = untag(op[2], reg)
    elif k == "deli":
        del blk[op[1]]
    else:
        raise ValueError("op " + k)


def _impl_mutg(c):
    from audiolazy import blocks, Stream
    reg = {}
    xs = [untag(x, reg) for x in c["xs"]]
    pad = untag(c["pad"], reg)
    kw = dict(size=c["size"], hop=c["hop"], padval=pad)
    gen = blocks(xs, **kw) if c.get("route", "func") == "func" else Stream(xs).blocks(**kw)
    out, fails, keep = [], [], []
    obs = {"blocks": out, "fails": fails}
    nf = nfull(c["size"], c["hop"], len(xs))
    try:
        for k, blk in enumerate(gen):
            out.append(tagl(blk, reg))
            keep.append(blk)            # the caller keeps a reference to every block it was given
            if k < nf:
                fl = []
                for op in (c["ops"][k] if k < len(c["ops"]) else []):
                    try:
                        _apply_op(blk, op, reg)
                        fl.append(False)
                    except IndexError:
                        fl.append(True)
                fails.append(fl)
    except Exception as e:
        obs["err"] = err_kind(e)
    obs["aliased"] = all(b is keep[0] for b in keep)
    obs["maxlen_ok"] = all(b.maxlen == c["size"] for b in keep)
    return obs


def _impl_conc(c):
    from audiolazy import blocks, Stream
    reg = {}
    shared_xs = None
    pads = {}
    gens, outs, args = [], [], []
    for s in c["subs"]:
        if s.get("share"):
            if shared_xs is None:
                shared_xs = [untag(x, reg) for x in s["xs"]]
            xs = shared_xs
        else:
            xs = [untag(x, reg) for x in s["xs"]]
        pk = json.dumps(s["pad"])
        if pk not in pads:
            pads[pk] = untag(s["pad"], reg)
        pt = s.get("ptype", "int")
        kw = dict(size=_param(s["size"], pt, "size"), hop=_param(s["hop"], pt, "hop"), padval=pads[pk])
        args.append((xs, list(xs)))
        r = s.get("route", "func")
        mk = {"func": lambda xs=xs, kw=kw: blocks(xs, **kw),
              "stream": lambda xs=xs, kw=kw: iter(Stream(xs).blocks(**kw)),
              "iter": lambda xs=xs, kw=kw: blocks(iter(xs), **kw)}[r]
        gens.append(mk)
        outs.append([])
    order = c.get("order", "rr")
    errs = [None] * len(gens)

    def drain(i, out):
        got = []
        try:
            for b in gens[i]():
                got.append(tagl(b, reg))
        except Exception as e:
            errs[i] = err_kind(e)
        if out is not None:
            out.extend(got)
        return got

    if order == "seq":
        for i, out in enumerate(outs):
            drain(i, out)
    elif order == "rr":
        live = []
        for i, (mk, out) in enumerate(zip(gens, outs)):
            try:
                live.append((i, mk(), out))
            except Exception as e:
                errs[i] = err_kind(e)
        while live:
            nxt = []
            for i, g, out in live:
                try:
                    out.append(tagl(next(g), reg))
                    nxt.append((i, g, out))
                except StopIteration:
                    pass
                except Exception as e:
                    errs[i] = err_kind(e)
            live = nxt
    else:   # nest: between two blocks of the first generator the others run completely (fresh each time)
        first = True
        try:
            for b in gens[0]():
                outs[0].append(tagl(b, reg))
                for i in range(1, len(gens)):
                    got = drain(i, outs[i] if first else None)
                    if not first and got != outs[i]:
                        outs[i].append({"changed-on-rerun": got})
                first = False
        except Exception as e:
            errs[0] = err_kind(e)
        if first:
            for i in range(1, len(gens)):
                drain(i, outs[i])
    subs = []
    for o, e in zip(outs, errs):
        d = {"blocks": o}
        if e:
            d["err"] = e
        subs.append(d)
    return {"subs": subs,
            "arg_ok": all(len(a) == len(p) and all(x is y for x, y in zip(a, p)) for a, p in args)}


def _guarded(c, seconds=30):
    import signal
    old = signal.signal(signal.SIGALRM, _alarm)
    signal.setitimer(signal.ITIMER_REAL, seconds)
    try:
        return _impl(c)
    except _Timeout:
        return {"err": "OTHER:Timeout"}
    finally:
        signal.setitimer(signal.ITIMER_REAL, 0)
        signal.signal(signal.SIGALRM, old)


class _Zygote(object):
    """A child forked BEFORE this process made its first call into the code under test: it has the
    library imported and untouched.  Every request (a list of cases to run one after the other) is run
    in a fresh fork of it, so the result cannot depend on anything run earlier anywhere else.  Used for
    every history case (`conc`, `hist`), for re-checking a disagreement of a plain case alone, and for the
    search of the earlier calls a state-dependent disagreement needs."""

    def __init__(self):
        self.w = self.r = None

    def ensure(self):
        import os
        if self.w is not None:
            return
        import audiolazy  # noqa: F401  (import only; nothing is called in this process before the fork)
        r1, w1 = os.pipe()
        r2, w2 = os.pipe()
        pid = os.fork()
        if pid == 0:
            try:
                os.close(w1)
                os.close(r2)
                self._serve(os.fdopen(r1, "rb"), os.fdopen(w2, "wb"))
            finally:
                os._exit(0)
        os.close(r1)
        os.close(w2)
        self.w, self.r = os.fdopen(w1, "wb"), os.fdopen(r2, "rb")

    @staticmethod
    def _serve(fin, fout):
        import os
        import resource
        while True:
            line = fin.readline()
            if not line:
                return
            cases = json.loads(line)
            rr, ww = os.pipe()
            p = os.fork()
            if p == 0:
                try:
                    os.close(rr)
                    try:
                        resource.setrlimit(resource.RLIMIT_AS, (8 << 30, 8 << 30))
                    except (ValueError, OSError):
                        pass
                    try:
                        outs = [_guarded(c, 60) for c in cases]
                    except BaseException as e:      # MemoryError, ...
                        outs = [{"err": "CHILD:" + type(e).__name__}] * len(cases)
                    with os.fdopen(ww, "wb") as f:
                        f.write(json.dumps(outs).encode())
                finally:
                    os._exit(0)
            os.close(ww)
            with os.fdopen(rr, "rb") as f:
                data = f.read()
            os.waitpid(p, 0)
            if not data:
                data = json.dumps([{"err": "CHILD:died"}] * len(cases)).encode()
            fout.write(data + b"\n")
            fout.flush()

    def run(self, cases):
        """observations of the cases run one after the other in one fresh process"""
        self.ensure()
        self.w.write(json.dumps(cases).encode() + b"\n")
        self.w.flush()
        return json.loads(self.r.readline())


_ZYG = _Zygote()
_HISTORY = []        # plain cases run in THIS process, in order (a disagreement may depend on them)
_CONTAM = {}         # key of a state-dependent disagreement -> (position in _HISTORY, Lean payload)


def impl(c):
    _ZYG.ensure()
    if c["entry"] in ("conc", "hist"):
        return _ZYG.run([c])[0]
    obs = _guarded(c)
    obs["_pos"] = len(_HISTORY)
    _HISTORY.append(c)
    return obs


def _impl(c):
    e = c["entry"]
    try:
        if e == "blocks":
            return _impl_blocks(c)
        if e == "trace":
            return _impl_trace(c)
        if e == "mut":
            return _impl_mut(c)
        if e == "live":
            return _impl_live(c)
        if e == "conc":
            return _impl_conc(c)
        if e == "hist":
            return {"steps": [_impl(st) for st in c["steps"]]}
        if e in ("call", "zcall"):
            return _impl_call(c)
        if e == "mutg":
            return _impl_mutg(c)
        return _impl_zero_pad(c)
    except Exception as ex:
        return {"err": err_kind(ex)}


# ----------------------------------------------------------------------------
# Lean side
# ----------------------------------------------------------------------------
def _norm(j):
    return j["isub"] if isinstance(j, dict) and "isub" in j else j


def _req_call(c, xs=None):
    r = {"entry": c["entry"], "fn": c["fn"], "pos": [_norm(j) for j in c["pos"]], "kw": [[k, _norm(j)] for k, j in c["kw"]],
         "xs": c["xs"] if xs is None else xs, "ending": c["ending"] if xs is None else "stop"}
    if "cap" in c:
        r["cap"] = c["cap"]
    return r


def _req1(c):
    if c["entry"] in ("call", "zcall"):
        if c.get("again"):
            # second pass over the same source object: a container is read again, an iterator is used up
            again_xs = c["xs"] if c.get("src") in SRC_REITER and _seq_is_data(c) else []
            if c.get("src") == "map" and c["ending"] == "fail" and _seq_is_data(c):
                again_xs = [{"t": ["after", 0]}, {"t": ["after", 1]}]     # a map object goes on after its function raised
            return {"entry": "conc", "subs": [_req_call(c), _req_call(c, again_xs)]}
        return _req_call(c)
    if c["entry"] == "mutg":
        return {k: c[k] for k in ("entry", "size", "hop", "pad", "xs", "ops")}
    r = {k: c[k] for k in ("entry", "size", "hop", "pad", "xs", "n", "ending", "edits", "vals",
                           "left", "right", "zero", "fast") if k in c}
    if c["entry"] == "blocks" and c.get("route") == "gain":
        r["xs"] = [x * c["gain"] for x in c["xs"]]
    if c["entry"] == "live":
        r["pair"] = c.get("kind", "cell") != "control"
    return r


def _seq_is_data(c):
    return c["fn"] == "stream" or (c["pos"][:1] == [SEQ]) or any(k == "seq" and v == SEQ for k, v in c["kw"])


def request(c):
    if c["entry"] == "conc":
        return {"entry": "conc", "subs": [_req1(s) for s in c["subs"]]}
    if c["entry"] == "hist":
        return {"entry": "conc", "subs": [_req1(s) for s in c["steps"]]}
    return _req1(c)


def _cmp_blocks(c, io, drv, out, where=""):
    pt = c.get("ptype", "int")
    got = io.get("blocks")
    if "err" in io:
        nf = len(drv["reads"])
        if pt in ("hopfloat", "hopfrac") and io["err"] == "TypeError" and got == drv["closed"][:nf] \
                and len(drv["closed"]) == nf + 1:
            return   # int-valued non-int hop refused when the padded block is due: outside the quantifier
        if pt == "sizefloat" and io["err"] == "TypeError" and not got:
            return   # deque(maxlen=float) refused
        out.append(("model", where + "impl raised " + io["err"]))
        out.append(("spec", where + "impl raised %s after blocks %r" % (io["err"], got)))
        return
    if got != drv["model"]:
        out.append(("model", where + "blocks differ from model: impl=%r model=%r" % (got, drv["model"])))
    if got != drv["closed"] or got != drv["spec"]:
        out.append(("spec", where + "blocks differ from spec: impl=%r spec=%r" % (got, drv["closed"])))
    if "blocks2" in io and io["blocks2"] != drv["closed"]:
        out.append(("spec", where + "second thub branch differs from spec: impl=%r spec=%r" % (io["blocks2"], drv["closed"])))
    if io.get("arg_ok") is False:
        out.append(("spec", where + "the input sequence object was changed by the call"))
    if io.get("not_a_stream"):
        out.append(("spec", where + "Stream.blocks returned a %s, not a Stream" % io["not_a_stream"]))
    if io.get("inner_wrong"):
        out.append(("spec", where + "an inner blocks() call made while the outer generator was pulling its source gave wrong blocks"))


def _cmp_call(c, io, drv, out):
    again = None
    if c.get("again") and "subs" in drv:
        drv, again = drv["subs"]
    fn = c["fn"]
    for side in ("model", "spec"):
        d = drv[side]
        if d is None:
            if io.get("bound") is not False:
                out.append((side, "%s: the call is refused by Python's binding in the %s but the code accepted it" % (fn, side)))
            continue
        if io.get("bound") is False:
            out.append((side, "%s: TypeError when the call was made, the %s accepts this call shape" % (fn, side)))
            continue
        obsv = io["observable"]
        if fn == "zero_pad":
            capped = io["ending"] == "runaway"
            if io["out"] != d["out"] or (obsv and io["reads"] != d["reads"]):
                out.append((side, "zero_pad call: output differs from %s: impl=%r reads=%r, %s=%r reads=%r"
                            % (side, io["out"][:60], io["reads"][:60] if obsv else None, side, d["out"][:60], d["reads"][:60])))
            elif capped != (d["total"] > c.get("cap", 10 ** 9)) or (not capped and io["ending"] != d["ending"]):
                out.append((side, "zero_pad call: ends with %s, %s: %s (total %d)" % (io["ending"], side, d["ending"], d["total"])))
            continue
        ev = io["events"]
        same = [b for _n, b in ev] == [b for _n, b in d["events"]] and (not obsv or ev == d["events"])
        if not same or io["ending"] != d["ending"]:
            out.append((side, "%s call: (pulled, block) events / ending differ from %s: impl=%s then %s, %s=%s then %s"
                        % (fn, side, _ev(ev, False)[:-13], io["ending"], side, _ev(d["events"], False)[:-13], d["ending"])))
        elif obsv and io["pulled"] != d["pulled"] and c.get("src") != "thub":
            out.append((side, "%s call: %d items had been pulled from the source when the run ended (%s), %s: %d"
                        % (fn, io["pulled"], io["ending"], side, d["pulled"])))
    if io.get("bound") is False or drv["spec"] is None:
        return
    # the generator protocol around the run (spec only)
    if io.get("pulled_at_construction"):
        out.append(("spec", "%s call: %d items pulled when the generator was only constructed" % (fn, io["pulled_at_construction"])))
    if io["after"] != ["StopIteration", "StopIteration"] and io["ending"] != "runaway":
        out.append(("spec", "%s call: after the run ended (%s) two further next() gave %r, a finished generator only stops"
                    % (fn, io["ending"], io["after"])))
    want = "Stream" if fn == "stream" else "generator"
    if io.get("kind") != want:
        out.append(("spec", "%s call returns a %s, not a %s" % (fn, io.get("kind"), want)))
    if fn != "zero_pad":
        if not io["same_object"]:
            out.append(("spec", "%s call: the yielded blocks are not one and the same container object" % fn))
        if io["events"] and (io.get("container") != "deque" or io.get("maxlen") != len(io["events"][0][1])):
            out.append(("spec", "%s call: the yielded container is a %s with maxlen %r" % (fn, io.get("container"), io.get("maxlen"))))
        if again is not None and "again" in io:
            want2 = again["spec"]
            if want2 is not None and (io["again"] != [b for _n, b in want2["events"]] or io["again_ending"] != want2["ending"]):
                out.append(("spec", "%s call made a second time on the same %s source: impl=%r then %s, spec=%r then %s"
                            % (fn, c.get("src"), io["again"], io["again_ending"], [b for _n, b in want2["events"]], want2["ending"])))


def _cmp_mutg(c, io, drv, out):
    if "err" in io:
        out.append(("model", "mutg: impl raised " + io["err"]))
        out.append(("spec", "mutg: impl raised %s after %r" % (io["err"], io.get("blocks"))))
        return
    for side in ("model", "spec"):
        if io["blocks"] != drv[side]:
            out.append((side, "caller operations %r: blocks differ from %s: impl=%r %s=%r" % (c["ops"], side, io["blocks"], side, drv[side])))
    if io["fails"] != drv["fails"]:
        out.append(("model", "caller operations %r: the operations that raised IndexError: impl=%r model=%r" % (c["ops"], io["fails"], drv["fails"])))
    if not io["aliased"]:
        out.append(("spec", "the blocks handed to the caller are not one and the same deque object"))
    if not io["maxlen_ok"]:
        out.append(("spec", "the yielded deque does not have maxlen=size"))


def _ckey(c):
    return json.dumps(c, sort_keys=True)


def compare(c, io, drv):
    """A disagreement is reported as it is only when the case disagrees ALONE in a fresh process
    (so that the replay is self-contained).  A plain case that agrees alone but disagreed here depends on
    calls made earlier in this process: it is reported as `state-between-calls` and `shrink` turns it
    into the explicit history (the earlier calls it needs + the case).  A history whose steps all
    agree when run alone is `state-between-calls` too."""
    pos = io.pop("_pos", None) if isinstance(io, dict) else None
    out = _problems(c, io, drv)
    if not out:
        return out
    e = c["entry"]
    if e == "hist":
        alone = [_ZYG.run([{"entry": "hist", "steps": [st]}])[0] for st in c["steps"]]   # one fresh process each
        if all("steps" in o and not _problems(st, o["steps"][0], d) for st, o, d in zip(c["steps"], alone, drv["subs"])):
            io["_alone_ok"] = True
        return out
    if e == "conc":
        alone = [_ZYG.run([dict(c, subs=[sb])])[0] for sb in c["subs"]]
        if all(not _problems(dict(c, subs=[sb]), o, {"subs": [d]}) for sb, o, d in zip(c["subs"], alone, drv["subs"])):
            io["_alone_ok"] = True
        return out
    if isinstance(io, dict) and io.get("err") == "OTHER:Timeout":
        return out          # a run that does not end in time is reported as it is (no second, longer wait in a fresh process)
    io2 = _ZYG.run([c])[0]
    out2 = _problems(c, io2, drv)
    if out2:
        io.clear()
        io.update(io2)
        return out2
    io["_isolated_ok"] = True
    _CONTAM[_ckey(c)] = (pos if pos is not None else len(_HISTORY), drv)
    return [("spec", "agrees when run alone in a fresh process but disagreed after the calls made earlier in this "
                     "process (state kept between calls): " + "; ".join(d for _k, d in out)[:400])]


def _problems(c, io, drv):
    out = []
    e = c["entry"]
    if e == "hist":
        if "steps" not in io:
            return [("model", "impl raised " + io.get("err", "?")), ("spec", "impl raised " + io.get("err", "?"))]
        for i, (st, o, d) in enumerate(zip(c["steps"], io["steps"], drv["subs"])):
            for k, msg in _problems(st, o, d):
                out.append((k, "call %d of %d (%s): %s" % (i + 1, len(c["steps"]), st["entry"], msg)))
        return out
    if e == "blocks":
        _cmp_blocks(c, io, drv, out)
    elif e in ("call", "zcall"):
        if "err" in io and "bound" not in io:
            return [("model", "impl raised " + io["err"]), ("spec", "impl raised " + io["err"])]
        _cmp_call(c, io, drv, out)
    elif e == "mutg":
        _cmp_mutg(c, io, drv, out)
    elif e == "conc":
        if "err" in io and "subs" not in io:
            return [("model", "impl raised " + io["err"]), ("spec", "impl raised " + io["err"])]
        if "err" in io:
            out.append(("spec", "interleaved generators: impl raised " + io["err"]))
        for i, (s, o, d) in enumerate(zip(c["subs"], io["subs"], drv["subs"])):
            _cmp_blocks(s, o, d, out, "generator %d of %d (%s): " % (i, len(c["subs"]), c.get("order")))
        if io.get("arg_ok") is False:
            out.append(("spec", "a shared input sequence object was changed"))
    elif e == "trace":
        if "err" in io:
            return [("model", "impl raised " + io["err"]), ("spec", "impl raised " + io["err"])]
        if drv["model"] is not None and (io["events"] != drv["model"] or io["raised"] != drv["raised"]):
            out.append(("model", "trace differs from model: impl=%s model=%s" % (_ev(io["events"], io["raised"]), _ev(drv["model"], drv["raised"]))))
        if io["events"] != drv["spec"] or io["raised"] != drv["spec_raised"]:
            out.append(("spec", "(items pulled, block) events of a source that %ss after %d items differ: impl=%s spec=%s"
                        % (c["ending"], case_len(c), _ev(io["events"], io["raised"]), _ev(drv["spec"], drv["spec_raised"]))))
        elif io["raised"] and io.get("exc") != "same":
            out.append(("spec", "the source's exception did not come out unchanged: " + str(io.get("exc"))))
        if io.get("pulled_at_construction"):
            out.append(("spec", "the source was read (%d items, or its failure came out) when the generator was only "
                        "constructed: block 0 is produced at the moment it is asked for, from the items pulled then"
                        % io["pulled_at_construction"]))
    elif e in ("mut", "live"):
        if "err" in io:
            return [("model", "impl raised " + io["err"]), ("spec", "impl raised %s after %r" % (io["err"], io.get("blocks")))]
        if io["blocks"] != drv["model"]:
            out.append(("model", "%s: blocks differ from model: impl=%r model=%r" % (e, io["blocks"], drv["model"])))
        if io["blocks"] != drv["spec"]:
            out.append(("spec", "%s: blocks differ from spec: impl=%r spec=%r" % (e, io["blocks"], drv["spec"])))
    else:
        if "err" in io:
            if c.get("ptype") == "float" and io["err"] == "TypeError" and not io.get("out"):
                return []    # xrange(float) refused: outside the quantifier
            return [("model", "impl raised " + io["err"]), ("spec", "impl raised " + io["err"])]
        if not c.get("observe"):
            if io["out"] != drv["model"]:
                out.append(("model", "zero_pad differs from model"))
            if io["out"] != drv["spec"]:
                out.append(("spec", "zero_pad differs from spec"))
        else:
            rd = io["reads"]
            if io["out"] != drv["trace"] or io["raised"] != drv["raised"] or (rd is not None and rd != drv["trace_reads"]):
                out.append(("model", "zero_pad trace differs from model: impl=%r reads=%r raised=%r" % (io["out"], rd, io["raised"])))
            if io["out"] != drv["spec_trace"] or (rd is not None and rd != drv["spec_reads"]) or \
                    io["raised"] != (c.get("ending", "stop") == "fail"):
                out.append(("spec", "zero_pad over a source that %ss after %d items: impl=%r reads=%r raised=%r, spec=%r reads=%r"
                            % (c.get("ending", "stop"), case_len(c), io["out"], rd, io["raised"], drv["spec_trace"], drv["spec_reads"])))
            if c.get("ending", "stop") == "stop" and drv["spec_trace"] != drv["spec"]:
                out.append(("model", "driver: trace of a finished source is not zero_pad"))
    return out


def _ev(events, raised):
    s = json.dumps(events)
    if len(s) > 220:
        s = s[:100] + " ... " + s[-100:]
    return s + (" then the exception" if raised else " then the end")


def nontrivial(c, io):
    if c["entry"] == "hist":
        return any(nontrivial(st, o) for st, o in zip(c["steps"], io.get("steps", [])))
    if c["entry"] == "conc":
        return any(o.get("blocks") for o in io.get("subs", []))
    return bool(io.get("blocks") or io.get("out") or io.get("events"))


def _bucket(n):
    for b in (0, 1, 4, 16, 64, 256, 1024, 4096):
        if n <= b:
            return "<=%d" % b
    return ">4096"


def tally(eng, c, io):
    e = c["entry"]
    eng.count("entry", e)
    if "err" in io:
        eng.count("impl_error", io["err"])
    if e == "hist":
        st = c["steps"]
        eng.count("hist_calls", len(st))
        eng.count("hist_entries", "+".join(sorted({x["entry"] for x in st})))
        sh = [(x["size"], x["hop"]) for x in st if "size" in x]
        eng.count("hist_shared", "same (size,hop) twice" if len(set(sh)) < len(sh) else
                  "same size twice" if len({a for a, _b in sh}) < len(sh) else "no shared parameter")
        pts = {x.get("ptype", "int") for x in st if x["entry"] == "blocks"}
        eng.count("hist_param_types", "+".join(sorted(pts)) or "-")
        return
    if e == "conc":
        eng.count("conc_order", c.get("order"))
        eng.count("conc_generators", len(c["subs"]))
        eng.count("conc_shared_xs", sum(1 for s in c["subs"] if s.get("share")))
        eng.count("conc_equal_params", len({(s["size"], s["hop"]) for s in c["subs"]}) < len(c["subs"]))
        return
    if e in ("call", "zcall"):
        names = (ZPARAMS if e == "zcall" else BPARAMS)
        off = 1 if c["fn"] == "stream" else 0
        given = {}
        for i, j in enumerate(c["pos"]):
            given[names[i + off] if i + off < len(names) else "extra"] = ("pos", j)
        for k, j in c["kw"]:
            given[k if k in names and k not in given else "bad:" + k] = ("kw", j)
        eng.count(e + "_fn", c["fn"])
        eng.count(e + "_shape", " ".join("%s:%s" % (nm, given[nm][0] if nm in given else "omit") for nm in names[off:])
                  + ("".join(" +" + k for k in given if k not in names)))
        for nm in names[1:3]:
            j = given.get(nm, (None, "omitted"))[1]
            sp = ("omitted" if j == "omitted" else "None" if j is None else "str" if isinstance(j, str) else
                  ("int" + ("<0" if j < 0 else "=0" if j == 0 else ">=2^63" if j >= 2 ** 63 else ">10^6" if j > 10 ** 6 else ">0")) if isinstance(j, int) else
                  "intsub" if "isub" in j else "bool" if "b" in j else
                  "float(%s)" % j["f"] if "f" in j and "q" not in j else
                  ("float" if "f" in j else "Fraction") + ("(whole)" if "/" not in j.get("q", j.get("fr", "")) else "(not whole)"))
            eng.count("%s_%s_spelling" % (e, nm), sp)
        pv = given.get(names[3], (None, "omitted"))[1]
        eng.count("%s_%s" % (e, names[3]), "omitted" if pv == "omitted" else "None" if pv is None else "given")
        eng.count(e + "_src", c.get("src", "gen"))
        eng.count(e + "_source_ending", c["ending"])
        eng.count(e + "_outcome", "refused-at-call" if io.get("bound") is False else io.get("ending", "?"))
        eng.count(e + "_len", _bucket(len(c["xs"])))
        if e == "call":
            eng.count("call_n_blocks", min(len(io.get("events", [])), 10))
            eng.count("call_again", c.get("src", "gen") if c.get("again") else "-")
        return
    if e == "mutg":
        size, hop = c["size"], c["hop"]
        eng.count("mutg_hop_vs_size", "hop<size" if hop < size else ("hop=size" if hop == size else "hop>size"))
        eng.count("mutg_route", c.get("route", "func"))
        for ops in c["ops"]:
            for op in ops:
                eng.count("mutg_op", op[0])
        eng.count("mutg_failed_ops", min(sum(sum(f) for f in io.get("fails", [])), 6))
        lens = {len(b) for b in io.get("blocks", [])}
        eng.count("mutg_block_lengths", "all=size" if lens <= {size} else "some shorter")
        return
    if e == "zero_pad":
        eng.count("zp_ending", c.get("ending", "stop") if c.get("observe") else "unobserved")
        eng.count("zp_ptype", c.get("ptype", "int"))
        eng.count("zp_left", _bucket(c["left"]))
        eng.count("zp_right", _bucket(c["right"]))
        return
    size, hop, n = c["size"], c["hop"], case_len(c)
    rel = "hop<size" if hop < size else ("hop=size" if hop == size else "hop>size")
    eng.count("hop_vs_size", rel)
    eng.count(e + "_hop_vs_size", rel)
    eng.count("size", _bucket(size))
    eng.count("hop", _bucket(hop))
    eng.count("len", _bucket(n))
    nf = nfull(size, hop, n)
    if e == "blocks":
        eng.count("route", c.get("route", "func"))
        eng.count("ptype", c.get("ptype", "int"))
        nb = len(io.get("blocks", []))
        eng.count("n_blocks", min(nb, 10))
        eng.count("last_block_padded", nb > nf)
        if c.get("route") in ("chg_limit", "chg_append"):
            eng.count("hist_blocks_before_change", min(c["take"], 5))
        if c["xs"] and isinstance(c["xs"][0], dict) and "o" in c["xs"][0]:
            eng.count("items", "identity-tracked")
    elif e == "trace":
        eng.count("trace_ending", c["ending"])
        eng.count("trace_route", c.get("route", "func"))
        # where the source ends relative to the block boundaries
        at = "short" if n < size else ("right-after-a-block" if (n - size) % hop == 0 else "inside-a-block")
        eng.count("trace_%s_position" % c["ending"], at)
        eng.count("trace_n_events", min(len(io.get("events", [])), 10))
    elif e == "mut":
        eng.count("mut_route", c.get("route", "func"))
        ne = sum(len(ops) for ops in c["edits"][:nf])
        eng.count("mut_effective_edit_ops", min(ne, 6))
        for ops in c["edits"][:nf]:
            for op in ops:
                eng.count("mut_op", op[0])
    elif e == "live":
        eng.count("live_kind", c.get("kind", "cell"))
        eng.count("live_phases_seen", min(min(nf, len(c["vals"]) - 1), 6))


# ----------------------------------------------------------------------------
# shrinking / search / signatures
# ----------------------------------------------------------------------------
def _steps(v):
    """v - 2^k for every 2^k <= v (largest jump first): greedy descent reaches the smallest failing value
    in O(log^2) evaluations instead of a walk by -1"""
    k = 1
    while k * 2 <= v:
        k *= 2
    while k >= 1:
        yield v - k
        k //= 2


def _pow2ish(v):
    """2^k + 1 or 2^k (k >= 6): one step down crosses / reaches the power of two"""
    return v > 64 and ((v - 1) & (v - 2) == 0 or v & (v - 1) == 0)


def _shrink1(c):
    e = c["entry"]
    if e in ("call", "zcall"):
        xs = c["xs"]
        if c.get("again"):
            d = dict(c)
            d.pop("again")
            yield d
        if xs:
            yield dict(c, xs=xs[:-1])
            plain = list(range(len(xs)))
            if xs != plain and c.get("src") != "str":
                yield dict(c, xs=plain)
        if c.get("src", "gen") not in ("gen", "list"):
            yield dict(c, src="gen")
        if c["fn"] == "stream":
            yield dict(c, fn="blocks", pos=[SEQ] + c["pos"])
        for i, j in enumerate(c["pos"]):
            if isinstance(j, dict) and "isub" in j:
                yield dict(c, pos=c["pos"][:i] + [j["isub"]] + c["pos"][i + 1:])
            if type(j) is int and j > 1:
                yield dict(c, pos=c["pos"][:i] + [j - 1] + c["pos"][i + 1:])
        for i, (k, j) in enumerate(c["kw"]):
            if isinstance(j, dict) and "isub" in j:
                yield dict(c, kw=c["kw"][:i] + [[k, j["isub"]]] + c["kw"][i + 1:])
            if type(j) is int and j > 1:
                yield dict(c, kw=c["kw"][:i] + [[k, j - 1]] + c["kw"][i + 1:])
        if c.get("exc", "DeviceError") != "DeviceError":
            yield dict(c, exc="DeviceError")
        return
    if e == "mutg":
        ops = c["ops"]
        if c["xs"]:
            d = dict(c, xs=c["xs"][:-1])
            d["ops"] = ops[:nfull(c["size"], c["hop"], len(d["xs"]))]
            yield d
        if ops:
            yield dict(c, ops=ops[:-1] + [[]] if ops[-1] else ops[:-1])
        for i, o in enumerate(ops):
            for j in range(len(o)):
                yield dict(c, ops=ops[:i] + [o[:j] + o[j + 1:]] + ops[i + 1:])
        if c.get("route", "func") != "func":
            yield dict(c, route="func")
        if c.get("pad") not in (None, "P"):
            yield dict(c, pad=None)
        return
    if e == "zero_pad":
        if "xs" in c and c["xs"]:
            yield dict(c, xs=c["xs"][:-1])
        if "n" in c and c["n"]:
            yield dict(c, n=c["n"] // 2)
            yield dict(c, n=c["n"] - 1)
        for k in ("left", "right"):
            if c[k]:
                yield dict(c, **{k: c[k] // 2})
                if c[k] <= 64:
                    yield dict(c, **{k: c[k] - 1})
        if c.get("ptype", "int") != "int":
            yield dict(c, ptype="int")
        if c.get("route", "iter") != "iter":
            yield dict(c, route="iter")
        return
    n = case_len(c)
    if "xs" in c:
        xs = c["xs"]
        if xs:
            yield dict(c, xs=xs[:-1])
            if c.get("route") != "gain":
                plain = list(range(len(xs)))
                if xs != plain:
                    yield dict(c, xs=plain)
        if e == "blocks" and c.get("route") == "chg_append" and c.get("first", n) > 0:
            yield dict(c, first=c["first"] - 1)
            if xs:
                yield dict(c, xs=xs[:-1], first=min(c["first"], len(xs) - 1))
    elif n:
        for v in (c["size"], c["size"] + c["hop"], c["size"] - 1):     # the boundaries of the first blocks
            if 0 <= v < n:
                yield dict(c, n=v)
        for v in _steps(n):
            yield dict(c, n=v)
        if e == "trace" and n <= 40:
            d = dict(c, xs=list(range(n)))
            d.pop("n")
            yield d
    # values above 64 only halve (or drop to the next power of two): every step of a large case costs
    # O(size * len) on the model side, a walk by -1 would take minutes
    if 1 < c["size"] <= 64 or _pow2ish(c["size"]):
        d = dict(c, size=c["size"] - 1)
        if e == "mut":
            d["edits"] = [[op for op in ops if op[0] != "set" or op[1] < d["size"]] for ops in c["edits"]]
        yield d
    if c["size"] > 8:
        for v in _steps(c["size"]):
            if 1 <= v < c["size"] - 1:
                yield dict(c, size=v, **({"edits": []} if e == "mut" else {}))
    if 1 < c["hop"] <= 64 or _pow2ish(c["hop"]):
        yield dict(c, hop=c["hop"] - 1)
    if c["hop"] > 8:
        for v in _steps(c["hop"]):
            if 1 <= v < c["hop"] - 1:
                yield dict(c, hop=v)
        if c["hop"] > c["size"] + 1:
            yield dict(c, hop=c["size"] + 1)
    if c.get("pad") not in (None, "P"):
        yield dict(c, pad=None)
    if e == "blocks":
        r = c.get("route", "func")
        if r in ("chg_limit", "chg_append") and c["take"] > 0:
            yield dict(c, take=c["take"] - 1)
        if r not in ("func", "gain", "chg_limit", "chg_append", "thub"):
            yield dict(c, route="func")
            if r == "stream_defaultpad":
                yield dict(c, route="defaultpad")
        elif r == "thub":
            yield dict(c, route="thub1")
        elif r != "func":
            d = dict(c, route="chgstream" if r.startswith("chg") else "stream")
            for k in ("take", "first", "gain"):
                d.pop(k, None)
            if r != "gain":
                yield d
        if c.get("ptype", "int") != "int":
            yield dict(c, ptype="int")
    elif e == "trace":
        if c.get("route", "func") != "func":
            yield dict(c, route="func")
        if c.get("exc", "DeviceError") != "DeviceError":
            yield dict(c, exc="DeviceError")
    elif e == "mut":
        eds = c["edits"]
        if eds:
            yield dict(c, edits=eds[:-1])
        for i, ops in enumerate(eds):
            for j in range(len(ops)):
                yield dict(c, edits=eds[:i] + [ops[:j] + ops[j + 1:]] + eds[i + 1:])
            for j, op in enumerate(ops):
                if op[0] == "set" and op[2] != "X":
                    yield dict(c, edits=eds[:i] + [ops[:j] + [["set", op[1], "X"]] + ops[j + 1:]] + eds[i + 1:])
        if c.get("route", "func") != "func":
            yield dict(c, route="func")
    elif e == "live":
        if len(c["vals"]) > 1:
            yield dict(c, vals=c["vals"][:-1])
        plain = ["v%d" % i for i in range(len(c["vals"]))]
        if c["vals"] != plain:
            yield dict(c, vals=plain)
        if c.get("kind") == "cellstream":
            yield dict(c, kind="cell")


def _cheap(d):
    """output volume of a candidate (blocks x size) stays transportable"""
    if d["entry"] in ("call", "zcall"):
        vals = [j for j in d["pos"]] + [j for _k, j in d["kw"]]
        return all(not (type(j) is int and 10 ** 6 < j < 2 ** 63) for j in vals) or d["entry"] == "zcall" or not d["xs"]
    if "size" not in d:
        return True
    return (nfull(d["size"], d["hop"], case_len(d)) + 1) * d["size"] <= 300000


def _needs(c, pos, drv):
    """the earlier calls of this process (a short sub-list of _HISTORY[:pos]) after which `c` disagrees
    when everything is run in a fresh process"""
    hist = [h for h in _HISTORY[:pos]]

    def bad(pre):
        o = _ZYG.run([{"entry": "hist", "steps": pre + [c]}])[0]
        return "steps" in o and bool(_problems(c, o["steps"][-1], drv))
    if not bad(hist):
        return None
    lo, hi = 0, len(hist)            # smallest prefix after which c disagrees (state, once set, usually stays)
    while hi - lo > 1:
        mid = (lo + hi) // 2
        if bad(hist[:mid]):
            hi = mid
        else:
            lo = mid
    if bad(hist[hi - 1:hi]):
        return hist[hi - 1:hi]
    pre = hist[:hi]
    chunk = max(1, len(pre) // 2)
    tests = 0
    while chunk >= 1 and tests < 80:
        i = 0
        while i < len(pre) - 1 and tests < 80:
            cand = pre[:i] + pre[i + chunk:] if i + chunk < len(pre) else pre[:i] + pre[-1:]
            tests += 1
            if len(cand) < len(pre) and bad(cand):
                pre = cand
            else:
                i += chunk
        chunk //= 2
    return pre


def shrink(c):
    k = _ckey(c)
    if k in _CONTAM:
        pos, drv = _CONTAM[k]
        pre = _needs(c, pos, drv)
        if pre is not None and len(pre) <= 12:
            yield {"entry": "hist", "steps": pre + [c]}
        return
    if c["entry"] == "hist":
        st = c["steps"]
        for i in range(len(st)):
            if len(st) > 1:
                yield dict(c, steps=st[:i] + st[i + 1:])
        # a parameter shared by several calls goes down in all of them together
        for k in ("size", "hop"):
            for v in sorted({x[k] for x in st if k in x}):
                if v > 1 and sum(1 for x in st if x.get(k) == v) > 1:
                    new = []
                    for x in st:
                        if x.get(k) == v:
                            x = dict(x, **{k: v - 1})
                            if x["entry"] == "mut":
                                x["edits"] = [[op for op in ops if op[0] != "set" or op[1] < x["size"]] for ops in x["edits"]]
                        new.append(x)
                    if all(valid(x) for x in new):
                        yield dict(c, steps=new)
        for i in range(len(st)):
            for d in _shrink1(st[i]):
                if valid(d) and _cheap(d):
                    d.pop("fast", None)
                    yield dict(c, steps=st[:i] + [d] + st[i + 1:])
        return
    if c["entry"] == "trace" and c["size"] * case_len(c) > 10 ** 6:
        # large case: candidates are compared with the Lean spec only (see the driver's "fast")
        for d in _shrink1(c):
            if valid(d) and _cheap(d):
                yield dict(d, fast=True)
        return
    if c["entry"] == "conc":
        subs = c["subs"]
        if len(subs) == 1:
            # a single generator: the plain case has the smaller description
            yield {k: v for k, v in subs[0].items() if k != "share"}
        for i in range(len(subs)):
            if len(subs) > 1:
                yield dict(c, subs=subs[:i] + subs[i + 1:])
            for s in _shrink1(subs[i]):
                if valid(s):
                    if subs[i].get("share") and "xs" in s and s["xs"] != subs[i]["xs"]:
                        s = dict(s, share=False)
                    yield dict(c, subs=subs[:i] + [s] + subs[i + 1:])
        if c.get("order") != "rr":
            yield dict(c, order="rr")
        return
    for d in _shrink1(c):
        if valid(d) and _cheap(d):
            d.pop("fast", None)
            yield d


def neighbours(c):
    if c["entry"] in ("call", "zcall"):
        for dn in (-1, 1, 2):
            n = len(c["xs"]) + dn
            if n >= 0 and c.get("src") != "str":
                yield dict(c, xs=list(range(n)) if c.get("src") != "dictkeys" else list(range(100, 100 + n)))
        return
    if c["entry"] not in ("blocks", "trace", "mut", "live"):
        return
    for ds in (-1, 0, 1):
        for dh in (-1, 0, 1):
            for dn in (-1, 0, 1, 2):
                s, h, n = c["size"] + ds, c["hop"] + dh, case_len(c) + dn
                if s >= 1 and h >= 1 and n >= 0:
                    d = dict(c, size=s, hop=h)
                    if "xs" in c and c.get("route") != "gain":
                        d["xs"] = list(range(n))
                    elif "n" in c:
                        d["n"] = n
                    if c["entry"] == "mut":
                        d["edits"] = [[op for op in ops if op[0] != "set" or op[1] < s] for ops in c["edits"]]
                    if valid(d):
                        yield d


def classify(c, io, drv):
    e = c["entry"]
    if io.get("_isolated_ok") or io.get("_alone_ok"):
        return "state-between-calls"
    if e == "hist":
        for st, o, d in zip(c["steps"], io.get("steps", []), drv.get("subs", [])):
            if _problems(st, o, d):
                return classify(st, o, d)         # a call that is wrong on its own: its own signature
        return "hist:" + io.get("err", "?")
    if e in ("call", "zcall"):
        base = "%s[%s]:" % (e, c["fn"])
        d = drv["subs"][0] if c.get("again") and "subs" in drv else drv
        if "err" in io and "bound" not in io:
            return base + io["err"]
        if (d.get("spec") is None) != (io.get("bound") is False):
            return base + "binding"
        if io.get("bound") is False:
            return base + "binding"
        sp = d["spec"]
        if e == "zcall":
            return base + ("content" if io["out"] != sp["out"] else "reads" if io["observable"] and io["reads"] != sp["reads"] else
                           "ending:" + io["ending"] if io["ending"] != sp["ending"] else "protocol")
        if [b for _n, b in io["events"]] != [b for _n, b in sp["events"]]:
            return base + "blocks"
        if io["ending"] != sp["ending"]:
            return base + "ending:%s-instead-of-%s" % (io["ending"], sp["ending"])
        if io["observable"] and io["events"] != sp["events"]:
            return base + "read-count"
        return base + "protocol"
    if e == "mutg":
        if "err" in io:
            return "mutg:" + io["err"]
        if io["blocks"] == drv.get("plain") and drv.get("plain") != drv.get("spec"):
            return "mutg:operations-not-visible"
        return "mutg:content" if io["blocks"] != drv["spec"] else "mutg:failed-operations-or-identity"
    if e == "blocks":
        r = c.get("route", "func")
        pt = c.get("ptype", "int")
        fam = r if r in ("gain", "chg_limit", "chg_append", "thub") else "plain"
        base = "blocks[%s%s]:" % (fam, "" if pt in ("int", "intsub", "bool") else "," + pt)
        if "err" in io:
            return base + io["err"]
        if io.get("arg_ok") is False and io.get("blocks") == drv.get("closed"):
            return base + "argument-changed"
        return base + "content"
    if e == "trace":
        if "err" in io:
            return "trace:" + io["err"]
        if io.get("pulled_at_construction"):
            return "trace:%s:read-at-construction" % c["ending"]
        if io["raised"] != drv["spec_raised"]:
            return "trace:%s:%s" % (c["ending"], "exception-swallowed" if drv["spec_raised"] else "unexpected-exception")
        if [b for _n, b in io["events"]] == [b for _n, b in drv["spec"]]:
            if io["events"] != drv["spec"]:
                return "trace:%s:read-count" % c["ending"]
            return "trace:%s:exception-object" % c["ending"]
        return "trace:%s:blocks" % c["ending"]
    if e in ("mut", "live"):
        if "err" in io:
            return e + ":" + io["err"]
        if e == "mut" and io["blocks"] == drv.get("plain"):
            return "mut:edits-not-visible"
        return e + ":content"
    if e == "conc":
        if len(c["subs"]) == 1 and "subs" in io and "subs" in drv:
            return classify(c["subs"][0], io["subs"][0], drv["subs"][0])    # one generator: its own signature
        errs = sorted({o["err"] for o in io.get("subs", []) if "err" in o})
        if "err" in io or errs:
            return "conc:" + io.get("err", ",".join(errs))
        return "conc:content"
    if "err" in io:
        return "zero_pad:" + io["err"]
    if c.get("observe"):
        return "zero_pad:trace:" + c.get("ending", "stop")
    return "zero_pad:content"


# ----------------------------------------------------------------------------
# translator (harness/props/c08_tr.py): the bodies of blocks / zero_pad -> lean/ALV/Gen/C08Src.lean
# ----------------------------------------------------------------------------
def regenerate(eng=None):
    return c08_tr.regenerate(eng)


def extra_checks(eng):
    eng.extra["translated"] = {
        "translator": "harness/props/c08_tr.py -> lean/ALV/Gen/C08Src.lean (vocabulary: lean/ALV/Model/C08Py.lean)",
        "under_translator": c08_tr.TRANSLATED,
        "theorems": ["src_loop1_step_is_model", "src_loop2_step_is_model", "src_step_is_bstep", "src_tail_is_model",
                     "src_blocks_run_is_model", "src_blocksCall_is_model", "src_hop_default_is_model", "src_blocks_is_model",
                     "src_blocks_eq_spec", "src_zero_pad_is_model", "src_signatures_are_model"],
        "not_translated": c08_tr.NOT_TRANSLATED,
    }
    try:
        ok, detail = c08_tr.selftest()
    except c08_tr.TranslationError as e:
        # the source of the repo under test is outside the subset: already reported by `regenerate`
        ok, detail = False, "source under test does not translate: %s" % e
    eng.extra["translated"]["selftest"] = detail
    yield ("translator-selftest", ok, detail)
