"""C08 — blocks / zero_pad / Stream.blocks.  Tie: exhaustive small + random large."""
import common
from common import err_kind

ID = "C08"
RULE = ("exhaustive (len x size x hop x route) grid plus random larger cases; a case is non-trivial "
        "when the impl yields at least one block (or zero_pad has non-empty output); distinct = distinct JSON case")
TRUSTED = ["hand-written Lean model ALV/Model/C08.lean of lazy_misc.blocks/zero_pad (modelled, not verified: deque(maxlen), generator protocol)"]
ASSUMPTIONS = ["size >= 1 and hop >= 1 (the property's quantifier); size=None / hop=0 are outside it"]


def _items(rng, n, hetero):
    if not hetero:
        return list(range(100, 100 + n))
    pool = [0, 1, -3, "a", "bb", None, True, [1, 2], 7]
    return [rng.choice(pool) for _ in range(n)]


def generate(rng, tier, scale=1):
    cases = []
    if tier == "quick":
        L, S, H = 14, 7, 9
        nrand = 300 * scale
    else:
        L, S, H = 40, 12, 16
        nrand = 6000 * scale
    if scale == 1:
        for n in range(L + 1):
            for size in range(1, S + 1):
                for hop in range(1, H + 1):
                    route = ("func", "stream", "hopnone")[(n + size + hop) % 3]
                    if route == "hopnone" and hop != size:
                        route = "func"
                    cases.append({"entry": "blocks", "size": size, "hop": hop, "pad": None,
                                  "xs": list(range(100, 100 + n)), "route": route})
        for n in range(0, 8):
            for l in range(0, 4):
                for r in range(0, 4):
                    cases.append({"entry": "zero_pad", "left": l, "right": r, "zero": "z",
                                  "xs": list(range(n))})
    for _ in range(nrand):
        size = rng.randint(1, 30)
        hop = rng.choice([1, size, size + 1, rng.randint(1, 40), max(1, size - 1), 2 * size])
        n = rng.choice([0, size - 1, size, size + 1, rng.randint(0, 120), size + 3 * hop, size + 3 * hop - 1])
        n = max(0, n)
        cases.append({"entry": "blocks", "size": size, "hop": hop,
                      "pad": rng.choice([None, 0, "pad", -1]),
                      "xs": _items(rng, n, rng.random() < 0.5),
                      "route": rng.choice(["func", "stream", "iter"])})
    return cases


def impl(c):
    from audiolazy import blocks, zero_pad, Stream
    try:
        if c["entry"] == "blocks":
            xs = c["xs"]
            route = c.get("route", "func")
            if route == "stream":
                gen = Stream(xs).blocks(size=c["size"], hop=c["hop"], padval=c["pad"])
            elif route == "hopnone":
                gen = blocks(xs, size=c["size"], padval=c["pad"])
            elif route == "iter":
                gen = blocks(iter(xs), c["size"], c["hop"], c["pad"])
            else:
                gen = blocks(xs, size=c["size"], hop=c["hop"], padval=c["pad"])
            return {"blocks": [list(b) for b in gen]}   # snapshot at yield time
        else:
            return {"out": list(zero_pad(iter(c["xs"]), left=c["left"], right=c["right"], zero=c["zero"]))}
    except Exception as e:
        return {"err": err_kind(e)}


def request(c):
    r = dict(c)
    r.pop("route", None)
    return r


def compare(c, io, drv):
    out = []
    if "err" in io:
        return [("model", "impl raised " + io["err"]), ("spec", "impl raised " + io["err"])]
    if c["entry"] == "blocks":
        if io["blocks"] != drv["model"]:
            out.append(("model", "blocks differ from model: impl=%r model=%r" % (io["blocks"], drv["model"])))
        if io["blocks"] != drv["closed"] or io["blocks"] != drv["spec"]:
            out.append(("spec", "blocks differ from spec: impl=%r spec=%r" % (io["blocks"], drv["closed"])))
    else:
        if io["out"] != drv["model"]:
            out.append(("model", "zero_pad differs from model"))
        if io["out"] != drv["spec"]:
            out.append(("spec", "zero_pad differs from spec"))
    return out


def nontrivial(c, io):
    return bool(io.get("blocks") or io.get("out"))


def tally(eng, c, io):
    if c["entry"] == "blocks":
        rel = "hop<size" if c["hop"] < c["size"] else ("hop=size" if c["hop"] == c["size"] else "hop>size")
        eng.count("hop_vs_size", rel)
        eng.count("route", c.get("route", "func"))
        nb = len(io.get("blocks", []))
        eng.count("n_blocks", min(nb, 10))
        if nb:
            eng.count("last_block_padded", c["pad"] in io["blocks"][-1] and len(c["xs"]) > 0 and
                      (len(c["xs"]) < c["size"] or (len(c["xs"]) - c["size"]) % c["hop"] != 0))
        eng.count("len", min(len(c["xs"]) // 10 * 10, 100))
    else:
        eng.count("entry", "zero_pad")
    if "err" in io:
        eng.count("impl_error", io["err"])


def shrink(c):
    if c["entry"] != "blocks":
        return
    xs = c["xs"]
    if xs:
        yield dict(c, xs=xs[:-1])
        yield dict(c, xs=list(range(len(xs))))
    if c["size"] > 1:
        yield dict(c, size=c["size"] - 1)
    if c["hop"] > 1:
        yield dict(c, hop=c["hop"] - 1)
    if c.get("route") != "func":
        yield dict(c, route="func")


def neighbours(c):
    if c["entry"] != "blocks":
        return
    for ds in (-1, 0, 1):
        for dh in (-1, 0, 1):
            for dn in (-1, 0, 1, 2):
                s, h, n = c["size"] + ds, c["hop"] + dh, len(c["xs"]) + dn
                if s >= 1 and h >= 1 and n >= 0:
                    yield dict(c, size=s, hop=h, xs=list(range(n)))


def classify(c, io, drv):
    if "err" in io:
        return "blocks:" + io["err"]
    return "blocks-content"
