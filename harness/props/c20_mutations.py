"""Mutation self-test of the C20 check (AGENT_GUIDE section 4): python3 harness/props/c20_mutations.py [M1 M2 ...]
Each mutation is applied to a scratch copy of /repo (/tmp/mut_C20); ./check C20 quick must exit 1."""
import os, shutil, subprocess, sys
MUTS = [
 ("M1 deque prefilled with size-1 items", "lazy_analysis.py",
  "data = deque((zero * size_inv for _ in xrange(size)), maxlen=size)",
  "data = deque((zero * size_inv for _ in xrange(size - 1)), maxlen=size)"),
 ("M2 zcross compares with +hysteresis", "lazy_analysis.py",
  "if el * last_sign < neg_hyst:", "if el * last_sign < hysteresis:"),
 ("M3 unwrap uses only % step", "lazy_analysis.py",
  "delta += - d_diff + min((d_diff) % step,\n                              (d_diff) % -step, key=lambda x: abs(x))",
  "delta += - d_diff + (d_diff) % step"),
 ("M4 clip both-branch returns low above high", "lazy_analysis.py",
  "return Stream(high if el > high else", "return Stream(low if el > high else"),
 ("M5 maverage.fir delayed by one", "lazy_analysis.py",
  "return sum((1. / size) * z ** -i for i in xrange(size))", "return sum((1. / size) * z ** -i for i in xrange(1, size + 1))"),
 ("M6 amdf lag filter sign", "lazy_analysis.py",
  "filt = (1 - z ** -lag).linearize()", "filt = (1 + z ** -lag).linearize()"),
 ("M7 accumulate.func yields before adding", "lazy_itertools.py",
  "    sum_data += el\n    yield sum_data", "    yield sum_data\n    sum_data += el"),
 ("M8 envelope.abs drops abs", "lazy_analysis.py",
  "return lowpass(cutoff)(abs(thub(sig, 1)))", "return lowpass(cutoff)(thub(sig, 1))"),
 ("M9 zcross phase 1 uses >=", "lazy_analysis.py",
  "if (el > hysteresis) or (el < neg_hyst):", "if (el >= hysteresis) or (el < neg_hyst):"),
 ("M10 unwrap threshold >=", "lazy_analysis.py",
  "if abs(d_diff) > max_delta:", "if abs(d_diff) >= max_delta:"),
 ("M11 maverage.recursive wrong delay", "lazy_analysis.py",
  "return (1. / size) * (1 - z ** -size) / (1 - z ** -1)", "return (1. / size) * (1 - z ** -(size + 1)) / (1 - z ** -1)"),
 ("M12 clip high-only branch", "lazy_analysis.py",
  "return Stream(el if el < high else high for el in sig)", "return Stream(el if el <= high else low for el in sig)"),
 ("M13 clip low>high test dropped", "lazy_analysis.py",
  "if high < low:", "if high < low and False:"),
 ("M14 deque mean starts at 0", "lazy_analysis.py",
  "    mean_value = zero\n", "    mean_value = 0.\n"),
 ("M15 zcross sign not flipped", "lazy_analysis.py",
  "    if el * last_sign < neg_hyst:\n      last_sign = -1 if el < 0 else 1", "    if el * last_sign < neg_hyst:\n      last_sign = 1 if el < 0 else -1"),
 ("M16 unwrap min key dropped", "lazy_analysis.py",
  "(d_diff) % -step, key=lambda x: abs(x))", "(d_diff) % -step)"),
 ("M17 envelope.squared cubes", "lazy_analysis.py",
  "return lowpass(cutoff)(thub(sig, 1) ** 2)\n", "return lowpass(cutoff)(thub(sig, 1) ** 3)\n"),
 ("M18 accumulate.z sign", "lazy_itertools.py",
  'accumulate.strategy("z")(1 / (1 - z ** -1))', 'accumulate.strategy("z")(1 / (1 + z ** -1))'),
]
sel = sys.argv[1:]
dst = "/tmp/mut_C20"
res = []
for name, f, old, new in MUTS:
    if sel and not any(name.startswith(x + " ") for x in sel):
        continue
    shutil.rmtree(dst, ignore_errors=True)
    shutil.copytree("/repo", dst, ignore=shutil.ignore_patterns(".git"))
    p = os.path.join(dst, "audiolazy", f)
    s = open(p).read()
    assert s.count(old) == 1, (name, s.count(old))
    open(p, "w").write(s.replace(old, new))
    env = dict(os.environ, VERIF_REPO=dst)
    r = subprocess.run(["./check", "C20", "quick"], cwd=os.path.dirname(os.path.dirname(os.path.dirname(os.path.abspath(__file__)))), env=env, capture_output=True, text=True)
    lines = [l for l in r.stdout.splitlines() if l.startswith("VIOLATION")]
    print("%-45s exit=%d %s" % (name, r.returncode, "; ".join(l[:90] for l in lines)))
    sys.stdout.flush()
    res.append((name, r.returncode))
shutil.rmtree(dst, ignore_errors=True)
print("caught %d / %d" % (sum(1 for _, c in res if c == 1), len(res)))
