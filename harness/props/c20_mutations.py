"""Mutation self-test of the C20 check (AGENT_GUIDE section 4): python3 harness/props/c20_mutations.py [M1 M2 ...]
Each mutation is applied to a scratch copy of /repo (/tmp/mut_C20); ./check C20 quick must exit 1."""
import os, shutil, subprocess, sys
MUTS = [
 ("M1 deque prefilled with size-1 items", "lazy_analysis.py",
  "data = deque((zero * size_inv for _ in xrange(size)), maxlen=size)",
  "data = deque((zero * size_inv for _ in xrange(size - 1)), maxlen=size)"),
 ("M2 zcross compares with +hysteresis", "lazy_analysis.py",
  "if el * last_sign < neg_hyst:", "if el * last_sign < hysteresis:"),
 ("M3 unwrap uses only % step", "lazy_analysis.py",
  "delta += - d_diff + min((d_diff) % step,\n                              (d_diff) % -step, key=lambda x: abs(x))",
  "delta += - d_diff + (d_diff) % step"),
 ("M4 clip both-branch returns low above high", "lazy_analysis.py",
  "return Stream(high if el > high else", "return Stream(low if el > high else"),
 ("M5 maverage.fir delayed by one", "lazy_analysis.py",
  "return sum((1. / size) * z ** -i for i in xrange(size))", "return sum((1. / size) * z ** -i for i in xrange(1, size + 1))"),
 ("M6 amdf lag filter sign", "lazy_analysis.py",
  "filt = (1 - z ** -lag).linearize()", "filt = (1 + z ** -lag).linearize()"),
 ("M7 accumulate.func yields before adding", "lazy_itertools.py",
  "    sum_data += el\n    yield sum_data", "    yield sum_data\n    sum_data += el"),
 ("M8 envelope.abs drops abs", "lazy_analysis.py",
  "return lowpass(cutoff)(abs(thub(sig, 1)))", "return lowpass(cutoff)(thub(sig, 1))"),
 ("M9 zcross phase 1 uses >=", "lazy_analysis.py",
  "if (el > hysteresis) or (el < neg_hyst):", "if (el >= hysteresis) or (el < neg_hyst):"),
 ("M10 unwrap threshold >=", "lazy_analysis.py",
  "if abs(d_diff) > max_delta:", "if abs(d_diff) >= max_delta:"),
 ("M11 maverage.recursive wrong delay", "lazy_analysis.py",
  "return (1. / size) * (1 - z ** -size) / (1 - z ** -1)", "return (1. / size) * (1 - z ** -(size + 1)) / (1 - z ** -1)"),
 ("M12 clip high-only branch", "lazy_analysis.py",
  "return Stream(el if el < high else high for el in sig)", "return Stream(el if el <= high else low for el in sig)"),
 ("M13 clip low>high test dropped", "lazy_analysis.py",
  "if high < low:", "if high < low and False:"),
 ("M14 deque mean starts at 0", "lazy_analysis.py",
  "    mean_value = zero\n", "    mean_value = 0.\n"),
 ("M15 zcross sign not flipped", "lazy_analysis.py",
  "    if el * last_sign < neg_hyst:\n      last_sign = -1 if el < 0 else 1", "    if el * last_sign < neg_hyst:\n      last_sign = 1 if el < 0 else -1"),
 ("M16 unwrap min key dropped", "lazy_analysis.py",
  "(d_diff) % -step, key=lambda x: abs(x))", "(d_diff) % -step)"),
 ("M17 envelope.squared cubes", "lazy_analysis.py",
  "return lowpass(cutoff)(thub(sig, 1) ** 2)\n", "return lowpass(cutoff)(thub(sig, 1) ** 3)\n"),
 ("M18 accumulate.z sign", "lazy_itertools.py",
  'accumulate.strategy("z")(1 / (1 - z ** -1))', 'accumulate.strategy("z")(1 / (1 + z ** -1))'),
 # round 3: the call layer (defaults, parameter order, spellings, aliases, input kinds, reuse of a callable)
 ("R1 zcross default first_sign=1", "lazy_analysis.py", "def zcross(seq, hysteresis=0, first_sign=0):", "def zcross(seq, hysteresis=0, first_sign=1):"),
 ("R2 envelope.abs default cutoff pi/256", "lazy_analysis.py", '@envelope.strategy("abs")\ndef envelope(sig, cutoff=pi/512):', '@envelope.strategy("abs")\ndef envelope(sig, cutoff=pi/256):'),
 ("R3 clip parameter order swapped", "lazy_analysis.py", "def clip(sig, low=-1., high=1.):", "def clip(sig, high=1., low=-1.):"),
 ("R4 amdf_filter default zero=1.", "lazy_analysis.py", "  def amdf_filter(sig, zero=0.):", "  def amdf_filter(sig, zero=1.):"),
 ("R5 zcross first_sign is 0", "lazy_analysis.py", "  if first_sign == 0:", "  if first_sign is 0:"),
 ("R6 maverage alias feedback dropped", "lazy_analysis.py", '@maverage.strategy("recursive", "feedback")', '@maverage.strategy("recursive")'),
 ("R7 unwrap step default follows max_delta", "lazy_analysis.py", "def unwrap(sig, max_delta=pi, step=2*pi):", "def unwrap(sig, max_delta=pi, step=None):",
  "  idata = iter(sig)\n  try:\n    d0 = next(idata)", "  if step is None:\n    step = 2 * max_delta\n  idata = iter(sig)\n  try:\n    d0 = next(idata)"),
 ("R8 clip: falsy low treated as None", "lazy_analysis.py", "  if low is None:\n    if high is None:", "  if not low:\n    if high is None:"),
 ("R9 unwrap next() on the input itself", "lazy_analysis.py", "  idata = iter(sig)\n  try:\n    d0 = next(idata)", "  idata = sig\n  try:\n    d0 = next(idata)"),
 ("R10 maverage_filter default zero=0.5", "lazy_analysis.py", "  def maverage_filter(sig, zero=0.):", "  def maverage_filter(sig, zero=0.5):"),
 ("R11 accumulate.func names swapped", "lazy_itertools.py", '@accumulate.strategy("func", "pure_python")', '@accumulate.strategy("pure_python", "func")'),
 ("R12 clip default high=None", "lazy_analysis.py", "def clip(sig, low=-1., high=1.):", "def clip(sig, low=-1., high=None):"),
 ("R13 maverage.deque buffer shared by all calls", "lazy_analysis.py",
  "  size_inv = 1. / size\n\n  @tostream\n  def maverage_filter(sig, zero=0.):\n    data = deque((zero * size_inv for _ in xrange(size)), maxlen=size)\n",
  "  size_inv = 1. / size\n  data = deque(maxlen=size)\n\n  @tostream\n  def maverage_filter(sig, zero=0.):\n    data.extend(zero * size_inv for _ in xrange(size))\n"),
 ("R14 zcross through float()", "lazy_analysis.py", "    if el * last_sign < neg_hyst:", "    if float(el) * last_sign < neg_hyst:"),
]
sel = sys.argv[1:]
dst = "/tmp/mut_C20"
res = []
for m in MUTS:
    name, f = m[0], m[1]
    if sel and not any(name.startswith(x + " ") for x in sel):
        continue
    shutil.rmtree(dst, ignore_errors=True)
    shutil.copytree("/repo", dst, ignore=shutil.ignore_patterns(".git"))
    p = os.path.join(dst, "audiolazy", f)
    s = open(p).read()
    for old, new in zip(m[2::2], m[3::2]):
        assert s.count(old) == 1, (name, s.count(old))
        s = s.replace(old, new)
    open(p, "w").write(s)
    env = dict(os.environ, VERIF_REPO=dst)
    r = subprocess.run(["./check", "C20", "quick"], cwd=os.path.dirname(os.path.dirname(os.path.dirname(os.path.abspath(__file__)))), env=env, capture_output=True, text=True)
    lines = [l for l in r.stdout.splitlines() if l.startswith("VIOLATION")]
    print("%-45s exit=%d %s" % (name, r.returncode, "; ".join(l[:90] for l in lines)))
    sys.stdout.flush()
    res.append((name, r.returncode))
shutil.rmtree(dst, ignore_errors=True)
print("caught %d / %d" % (sum(1 for _, c in res if c == 1), len(res)))
